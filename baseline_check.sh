#!/bin/sh
# Runs the repository's pinned suite (guard OFF: no hooks exist) and compares the passing set with BASELINE.json.
OUT="${TMPDIR:-/tmp}/vf-baseline-$$.xml"
cd /repo && env -u NUNAVUT_VERIF /venv/bin/python -m pytest -ra -q -p no:cacheprovider --timeout=900 \
   --continue-on-collection-errors --junitxml="$OUT" >/dev/null 2>&1
/venv/bin/python - "$OUT" <<'PY'
import json, sys, xml.etree.ElementTree as ET
b = json.load(open('/root/.vp/BASELINE.json'))
passed = set()
for tc in ET.parse(sys.argv[1]).getroot().iter('testcase'):
    if tc.find('failure') is None and tc.find('error') is None and tc.find('skipped') is None:
        passed.add((tc.get('classname') or '') + '::' + (tc.get('name') or ''))
missing = sorted(set(b['stable_pass']) - passed)
print(f"baseline stable_pass={len(b['stable_pass'])} passed_now={len(passed)} missing={len(missing)}")
for m in missing[:20]:
    print("  MISSING", m)
sys.exit(1 if missing else 0)
PY
rc=$?
rm -f "$OUT"
exit $rc
