/*
 * C14 harness: exhaustive / random / single-tuple driver for the bit primitives of the GENERATED Nunavut support header.
 *
 * Built by vf/props/c14.py against a support header generated at run time from the tree under test:
 *     cc  -std=c11   -I <gen> c14_c.c   -lm          (C:  <gen>/nunavut/support/serialization.h, endianness any / little)
 *     c++ -std=c++14 -I <gen> c14_cpp.cpp             (C++: c14_cpp.cpp defines C14_CPP and includes this file)
 * Optional: -DC14_ASSERTS (header generated with --enable-serialization-asserts), ASan/UBSan (guards are poisoned).
 *
 * The ORACLE is the code in this file: bit-by-bit references (one bit per loop iteration) that share nothing with the
 * implementation.  Output (stdout), one record per line:
 *     COUNT <family> <n_cases> <n_nontrivial>
 *     FAIL  <family> k=v ... | <clause> | <detail>          (first few per family and clause)
 *     FAILS <family> <clause> <total>
 *     TOL   <family> <what> <n>                             (documented/tolerated deviations that were observed)
 *     SELFCHECK-FAIL <text>                                 (a defect of this harness, never of nunavut)
 *     DONE
 * Modes: list | grid <family> <seed> <thin 0/1> | rand <seed> <n> | single <family> <seed> k=v ... |
 *        f16sweep <start> <count> <stride> <seed> | asan-selftest
 */
#include <inttypes.h>
#include <math.h>
#include <stdarg.h>
#include <stdint.h>
#include <stdio.h>
#include <stdlib.h>
#include <string.h>

#ifdef C14_ASSERTS
#    include <assert.h>
#    define NUNAVUT_ASSERT(x) assert(x)
#endif

#ifdef C14_CPP
#    include <nunavut/support/serialization.hpp>
#else
#    include <nunavut/support/serialization.h>
#endif

#if defined(__has_feature)
#    if __has_feature(address_sanitizer)
#        define C14_ASAN 1
#    endif
#endif
#if defined(__SANITIZE_ADDRESS__) && !defined(C14_ASAN)
#    define C14_ASAN 1
#endif
#ifdef C14_ASAN
#    include <sanitizer/asan_interface.h>
#endif

/* ------------------------------------------------------------------------------------------------ infrastructure */
#define GUARD 32u
#define CAP 1200u

typedef struct
{
    uint8_t* mem;  /* GUARD | data[size] | GUARD */
    uint8_t* d;    /* == mem + GUARD, 8-byte aligned */
    size_t   size;
    uint8_t  orig[GUARD + CAP + GUARD];  /* snapshot of the whole region taken after filling */
} Buf;

static Buf      A, B, O;
static uint64_t g_seed = 1;

static void buf_init(Buf* b)
{
    b->mem = (uint8_t*) aligned_alloc(64, ((GUARD + CAP + GUARD + 63u) / 64u) * 64u);
    if (b->mem == NULL)
    {
        printf("SELFCHECK-FAIL out of memory\n");
        exit(3);
    }
    b->d    = b->mem + GUARD;
    b->size = 0;
}

static uint64_t mix64(uint64_t x)
{ /* splitmix64 finalizer */
    x += 0x9E3779B97F4A7C15ULL;
    x = (x ^ (x >> 30)) * 0xBF58476D1CE4E5B9ULL;
    x = (x ^ (x >> 27)) * 0x94D049BB133111EBULL;
    return x ^ (x >> 31);
}

/* content patterns: 0 = 00 (guards ff), 1 = ff (guards 00), 2 = a5/5a alternating (guards inverted), >= 3 = LCG stream
 * (data and guards) seeded from the tuple, the pattern number and the run seed */
#define NPAT 6u
static void buf_fill(Buf* b, size_t size, int pat, uint64_t seed)
{
    size_t   i;
    uint64_t x = mix64(seed ^ (g_seed * 0xD6E8FEB86659FD93ULL) ^ ((uint64_t) pat << 40));
    if (size > CAP)
    {
        printf("SELFCHECK-FAIL buffer size %zu over capacity\n", size);
        exit(3);
    }
    b->size = size;
    for (i = 0; i < GUARD + size + GUARD; i++)
    {
        const int in = (i >= GUARD) && (i < GUARD + size);
        uint8_t   v;
        switch (pat)
        {
        case 0: v = in ? 0x00u : 0xFFu; break;
        case 1: v = in ? 0xFFu : 0x00u; break;
        case 2: v = (uint8_t) (((i & 1u) ? 0x5Au : 0xA5u) ^ (in ? 0x00u : 0xFFu)); break;
        default:
            x = x * 6364136223846793005ULL + 1442695040888963407ULL;
            v = (uint8_t) (x >> 56);
            break;
        }
        b->mem[i] = v;
    }
    memcpy(b->orig, b->mem, GUARD + size + GUARD);
}

static inline int rbit(const uint8_t* p, size_t i) { return (p[i >> 3] >> (i & 7u)) & 1; }
/* original (pre-call) bit i of the data area, 0 beyond the end (implicit zero extension) */
static inline int obit(const Buf* b, size_t i) { return (i < b->size * 8u) ? rbit(b->orig + GUARD, i) : 0; }
static inline int nbit(const Buf* b, size_t i) { return rbit(b->d, i); }

static int guards_ok(const Buf* b)
{
    return (memcmp(b->mem, b->orig, GUARD) == 0) &&
           (memcmp(b->d + b->size, b->orig + GUARD + b->size, GUARD) == 0);
}
static int data_intact(const Buf* b) { return memcmp(b->d, b->orig + GUARD, b->size) == 0; }

static void poison(const Buf* b)
{
#ifdef C14_ASAN
    ASAN_POISON_MEMORY_REGION(b->mem, GUARD);
    ASAN_POISON_MEMORY_REGION(b->d + b->size, GUARD);
#else
    (void) b;
#endif
}
static void unpoison(const Buf* b)
{
#ifdef C14_ASAN
    ASAN_UNPOISON_MEMORY_REGION(b->mem, GUARD + CAP + GUARD);
#else
    (void) b;
#endif
}
#define CALL1(b1, stmt) do { poison(b1); stmt; unpoison(b1); } while (0)
#define CALL2(b1, b2, stmt) do { poison(b1); poison(b2); stmt; unpoison(b1); unpoison(b2); } while (0)

/* ------------------------------------------------------------------------------------------------ parameters */
typedef struct
{
    const char* fam;
    uint64_t    so;    /* source / read offset, bits (or bits_at)   */
    uint64_t    dof;   /* destination / write offset, bits          */
    uint64_t    len;   /* length, bits                              */
    uint64_t    size;  /* (destination) buffer size, bytes          */
    uint64_t    ssize; /* source buffer size, bytes                 */
    uint64_t    pat;   /* content pattern of the (source) buffer    */
    uint64_t    dpat;  /* content pattern of the destination/output */
    uint64_t    n;     /* variant / alignment / width               */
    uint64_t    val;   /* value                                     */
} P;

static uint64_t pseed(const P* p, uint64_t salt)
{
    uint64_t h = salt;
    h = mix64(h ^ p->so);
    h = mix64(h ^ p->dof);
    h = mix64(h ^ p->len);
    h = mix64(h ^ p->size);
    h = mix64(h ^ p->ssize);
    h = mix64(h ^ p->n);
    return h;
}

typedef struct
{
    char     fam[32];
    char     clause[48];
    uint64_t count;
} FailRec;
static FailRec  g_fails[128];
static int      g_nfails    = 0;
static int      g_verbose   = 0; /* single mode: print every failure */
static uint64_t g_cases     = 0;
static uint64_t g_nontriv   = 0;
static uint64_t g_tolerated = 0;

static void hexbuf(char* out, size_t outsz, const uint8_t* p, size_t n)
{
    size_t i, k = 0;
    if (n > 40)
    {
        n = 40;
    }
    for (i = 0; i < n && k + 3 < outsz; i++)
    {
        k += (size_t) snprintf(out + k, outsz - k, "%02x", p[i]);
    }
    if (n == 0 && outsz > 1)
    {
        out[k++] = '-';
    }
    out[k] = 0;
}

static void failp(const P* p, const char* clause, const char* fmt, ...)
{
    int      i;
    FailRec* r = NULL;
    va_list  ap;
    for (i = 0; i < g_nfails; i++)
    {
        if (strcmp(g_fails[i].fam, p->fam) == 0 && strcmp(g_fails[i].clause, clause) == 0)
        {
            r = &g_fails[i];
            break;
        }
    }
    if (r == NULL)
    {
        if (g_nfails >= 128)
        {
            return;
        }
        r = &g_fails[g_nfails++];
        snprintf(r->fam, sizeof(r->fam), "%s", p->fam);
        snprintf(r->clause, sizeof(r->clause), "%s", clause);
        r->count = 0;
    }
    r->count++;
    if (r->count > 3 && !g_verbose)
    {
        return;
    }
    printf("FAIL %s so=%" PRIu64 " do=%" PRIu64 " len=%" PRIu64 " size=%" PRIu64 " ssize=%" PRIu64 " pat=%" PRIu64
           " dpat=%" PRIu64 " n=%" PRIu64 " val=0x%" PRIx64 " seed=%" PRIu64 " | %s | ",
           p->fam, p->so, p->dof, p->len, p->size, p->ssize, p->pat, p->dpat, p->n, p->val, g_seed, clause);
    va_start(ap, fmt);
    vprintf(fmt, ap);
    va_end(ap);
    printf("\n");
}

static void report_buf(const P* p, const char* clause, const Buf* b, size_t bitpos, const char* extra)
{
    char         before[96], after[96];
    const size_t first = (b->size > 40u && bitpos / 8u > 16u) ? (bitpos / 8u - 16u) : 0u; /* window around the offending bit */
    hexbuf(before, sizeof(before), b->orig + GUARD + first, b->size - first);
    hexbuf(after, sizeof(after), b->d + first, b->size - first);
    failp(p, clause, "first offending bit %zu; buffer (from byte %zu) before=%s after=%s %s", bitpos, first, before, after, extra);
}

static void count_case(int nontrivial)
{
    g_cases++;
    if (nontrivial)
    {
        g_nontriv++;
    }
}

static void check_guards(const P* p, const Buf* b, const char* which)
{
    if (!guards_ok(b))
    {
        failp(p, "guard-modified", "guard bytes around the %s buffer were written", which);
    }
}
static void check_source_intact(const P* p, const Buf* b)
{
    if (!data_intact(b))
    {
        report_buf(p, "source-modified", b, 0, "(read-only operand changed)");
    }
}

/* ------------------------------------------------------------------------------------------------ adapters
 * The only place where the implementation under test is called for the primitives common to C and C++.
 */
#define ERR_TOO_SMALL (-3)
#ifdef C14_CPP
using nunavut::support::bitspan;
using nunavut::support::bytespan;
using nunavut::support::const_bitspan;
static inline int vr(const nunavut::support::VoidResult& r) { return r.has_value() ? 0 : -static_cast<int>(r.error()); }
static inline void impl_copy(uint8_t* dst, size_t dsize, size_t dof, size_t len, const uint8_t* src, size_t ssize, size_t so)
{
    const_bitspan(src, ssize, so).copyTo(bitspan(dst, dsize, dof), len);
}
static inline void impl_getbits(uint8_t* out, const uint8_t* buf, size_t size, size_t off, size_t len)
{
    const_bitspan(buf, size, off).getBits(bytespan(out, (len + 7u) / 8u), len);
}
static inline size_t impl_saturate(size_t size, size_t off, size_t len)
{
    static const uint8_t dummy[1] = {0};
    return const_bitspan(dummy, size, off).saturateBufferFragmentBitLength(len); /* never dereferenced */
}
static inline int impl_setbit(uint8_t* buf, size_t size, size_t off, bool v) { return vr(bitspan(buf, size, off).setBit(v)); }
static inline bool impl_getbit(const uint8_t* buf, size_t size, size_t off) { return const_bitspan(buf, size, off).getBit(); }
static inline int impl_setu(uint8_t* buf, size_t size, size_t off, uint64_t v, uint8_t len) { return vr(bitspan(buf, size, off).setUxx(v, len)); }
static inline int impl_seti(uint8_t* buf, size_t size, size_t off, int64_t v, uint8_t len) { return vr(bitspan(buf, size, off).setIxx(v, len)); }
static inline uint64_t impl_getu(int w, const uint8_t* buf, size_t size, size_t off, uint8_t len)
{
    const_bitspan s(buf, size, off);
    switch (w)
    {
    case 8: return s.getU8(len);
    case 16: return s.getU16(len);
    case 32: return s.getU32(len);
    default: return s.getU64(len);
    }
}
static inline int64_t impl_geti(int w, const uint8_t* buf, size_t size, size_t off, uint8_t len)
{
    const_bitspan s(buf, size, off);
    switch (w)
    {
    case 8: return s.getI8(len);
    case 16: return s.getI16(len);
    case 32: return s.getI32(len);
    default: return s.getI64(len);
    }
}
static inline uint16_t impl_f16pack(float v) { return nunavut::support::float16Pack(v); }
static inline float impl_f16unpack(uint16_t h) { return nunavut::support::float16Unpack(h); }
static inline int impl_setf16(uint8_t* buf, size_t size, size_t off, float v) { return vr(bitspan(buf, size, off).setF16(v)); }
static inline int impl_setf32(uint8_t* buf, size_t size, size_t off, float v) { return vr(bitspan(buf, size, off).setF32(v)); }
static inline int impl_setf64(uint8_t* buf, size_t size, size_t off, double v) { return vr(bitspan(buf, size, off).setF64(v)); }
static inline float impl_getf16(const uint8_t* buf, size_t size, size_t off) { return const_bitspan(buf, size, off).getF16(); }
static inline float impl_getf32(const uint8_t* buf, size_t size, size_t off) { return const_bitspan(buf, size, off).getF32(); }
static inline double impl_getf64(const uint8_t* buf, size_t size, size_t off) { return const_bitspan(buf, size, off).getF64(); }
#else
static inline void impl_copy(uint8_t* dst, size_t dsize, size_t dof, size_t len, const uint8_t* src, size_t ssize, size_t so)
{
    (void) dsize;
    (void) ssize;
    nunavutCopyBits(dst, dof, len, src, so);
}
static inline void impl_getbits(uint8_t* out, const uint8_t* buf, size_t size, size_t off, size_t len)
{
    nunavutGetBits(out, buf, size, off, len);
}
static inline size_t impl_saturate(size_t size, size_t off, size_t len) { return nunavutSaturateBufferFragmentBitLength(size, off, len); }
static inline int impl_setbit(uint8_t* buf, size_t size, size_t off, bool v) { return (int) nunavutSetBit(buf, size, off, v); }
static inline bool impl_getbit(const uint8_t* buf, size_t size, size_t off) { return nunavutGetBit(buf, size, off); }
static inline int impl_setu(uint8_t* buf, size_t size, size_t off, uint64_t v, uint8_t len) { return (int) nunavutSetUxx(buf, size, off, v, len); }
static inline int impl_seti(uint8_t* buf, size_t size, size_t off, int64_t v, uint8_t len) { return (int) nunavutSetIxx(buf, size, off, v, len); }
static inline uint64_t impl_getu(int w, const uint8_t* buf, size_t size, size_t off, uint8_t len)
{
    switch (w)
    {
    case 8: return nunavutGetU8(buf, size, off, len);
    case 16: return nunavutGetU16(buf, size, off, len);
    case 32: return nunavutGetU32(buf, size, off, len);
    default: return nunavutGetU64(buf, size, off, len);
    }
}
static inline int64_t impl_geti(int w, const uint8_t* buf, size_t size, size_t off, uint8_t len)
{
    switch (w)
    {
    case 8: return nunavutGetI8(buf, size, off, len);
    case 16: return nunavutGetI16(buf, size, off, len);
    case 32: return nunavutGetI32(buf, size, off, len);
    default: return nunavutGetI64(buf, size, off, len);
    }
}
static inline uint16_t impl_f16pack(float v) { return nunavutFloat16Pack(v); }
static inline float impl_f16unpack(uint16_t h) { return nunavutFloat16Unpack(h); }
static inline int impl_setf16(uint8_t* buf, size_t size, size_t off, float v) { return (int) nunavutSetF16(buf, size, off, v); }
static inline int impl_setf32(uint8_t* buf, size_t size, size_t off, float v) { return (int) nunavutSetF32(buf, size, off, v); }
static inline int impl_setf64(uint8_t* buf, size_t size, size_t off, double v) { return (int) nunavutSetF64(buf, size, off, v); }
static inline float impl_getf16(const uint8_t* buf, size_t size, size_t off) { return nunavutGetF16(buf, size, off); }
static inline float impl_getf32(const uint8_t* buf, size_t size, size_t off) { return nunavutGetF32(buf, size, off); }
static inline double impl_getf64(const uint8_t* buf, size_t size, size_t off) { return nunavutGetF64(buf, size, off); }
#endif

/* ------------------------------------------------------------------------------------------------ tuple checks
 * Each t_<family>() executes ONE tuple against the implementation and compares with the bit-by-bit reference.
 * Returns 0 when the tuple is outside the documented domain (precondition not met), 1 otherwise.
 */
static int nt3(uint64_t a, uint64_t b, uint64_t c) { return ((a % 8u) != 0u) || ((b % 8u) != 0u) || ((c % 8u) != 0u); }

/* copy bits: dst[do .. do+len) := src[so .. so+len); documented precondition: both buffers large enough, no overlap.
 * Source buffer = exact fit ceil((so+len)/8) bytes; destination = p->size bytes. */
static int t_copyBits(const P* p)
{
    const size_t so = (size_t) p->so, dof = (size_t) p->dof, len = (size_t) p->len, dsize = (size_t) p->size;
    const size_t ssize = (so + len + 7u) / 8u;
    size_t       j;
    if ((dof + len > dsize * 8u) || (dsize > CAP) || (ssize > CAP))
    {
        return 0;
    }
    buf_fill(&A, ssize, (int) p->pat, pseed(p, 1));
    buf_fill(&B, dsize, (int) p->dpat, pseed(p, 2));
    CALL2(&A, &B, impl_copy(B.d, dsize, dof, len, A.d, ssize, so));
    count_case(nt3(so, dof, len));
    for (j = 0; j < dsize * 8u; j++)
    {
        const int in  = (j >= dof) && (j < dof + len);
        const int exp = in ? obit(&A, so + (j - dof)) : obit(&B, j);
        if (nbit(&B, j) != exp)
        {
            char src[96];
            hexbuf(src, sizeof(src), A.d, A.size);
            report_buf(p, in ? "addressed-bit-wrong" : "bit-outside-range-modified", &B, j, src);
            break;
        }
    }
    check_guards(p, &B, "destination");
    check_guards(p, &A, "source");
    check_source_intact(p, &A);
    return 1;
}

/* overlapping copy inside ONE buffer with byte-aligned offsets (documented: aligned copies go through memmove(); only
 * "overlap AND offsets not byte-aligned" is declared undefined).  src = base + so/8, dst = base + do/8, so%8 == do%8 == 0. */
static int t_copyBitsOverlap(const P* p)
{
    const size_t sb = (size_t) p->so / 8u, db = (size_t) p->dof / 8u, len = (size_t) p->len, size = (size_t) p->size;
    size_t       j;
    if ((p->so % 8u) || (p->dof % 8u) || (sb == db) || (sb * 8u + len > size * 8u) || (db * 8u + len > size * 8u) || size > CAP)
    {
        return 0;
    }
    buf_fill(&B, size, (int) p->pat, pseed(p, 3));
    CALL1(&B, impl_copy(B.d + db, size - db, 0, len, B.d + sb, size - sb, 0));
    count_case((len % 8u) != 0u);
    for (j = 0; j < size * 8u; j++)
    {
        const int in  = (j >= db * 8u) && (j < db * 8u + len);
        const int exp = in ? obit(&B, sb * 8u + (j - db * 8u)) : obit(&B, j);
        if (nbit(&B, j) != exp)
        {
            report_buf(p, in ? "addressed-bit-wrong" : "bit-outside-range-modified", &B, j, "(overlapping, byte-aligned)");
            break;
        }
    }
    check_guards(p, &B, "shared");
    return 1;
}

/* get bits: out[0..len) := buf[off..off+len) with zero extension past the end; documented: the output is right-zero-
 * padded up to the next byte boundary.  Output area = ceil(len/8) bytes followed by 2 bytes that must stay intact. */
static int t_getBits(const P* p)
{
    const size_t off = (size_t) p->so, len = (size_t) p->len, size = (size_t) p->size;
    const size_t obytes = (len + 7u) / 8u;
    size_t       j;
    if (size > CAP || obytes + 2u > CAP)
    {
        return 0;
    }
    buf_fill(&A, size, (int) p->pat, pseed(p, 4));
    buf_fill(&O, obytes + 2u, (int) p->dpat, pseed(p, 5));
    CALL2(&A, &O, impl_getbits(O.d, A.d, size, off, len));
    count_case(nt3(off, len, 0) || (off + len > size * 8u));
    for (j = 0; j < (obytes + 2u) * 8u; j++)
    {
        int         exp;
        const char* clause;
        if (j < len)
        {
            exp    = obit(&A, off + j);
            clause = (off + j >= size * 8u) ? "read-past-end-not-zero" : "addressed-bit-wrong";
        }
        else if (j < obytes * 8u)
        {
            exp    = 0;
            clause = "right-padding-not-zero";
        }
        else
        {
            exp    = obit(&O, j);
            clause = "bit-outside-range-modified";
        }
        if (nbit(&O, j) != exp)
        {
            char src[96];
            hexbuf(src, sizeof(src), A.d, A.size);
            report_buf(p, clause, &O, j, src);
            break;
        }
    }
    check_guards(p, &O, "output");
    check_guards(p, &A, "source");
    check_source_intact(p, &A);
    return 1;
}

/* saturate: number of bits of [off, off+len) that lie inside a buffer of `size` bytes */
static int t_saturate(const P* p)
{
    const size_t off = (size_t) p->so, len = (size_t) p->len, size = (size_t) p->size;
    size_t       exp = 0, i, got;
    for (i = 0; i < len; i++)
    {
        if (off + i < size * 8u)
        {
            exp++;
        }
    }
    got = impl_saturate(size, off, len);
    count_case(nt3(off, len, 0) || (off + len > size * 8u));
    if (got != exp)
    {
        failp(p, "value-wrong", "returned %zu, reference %zu", got, exp);
    }
    return 1;
}

static int t_setBit(const P* p)
{
    const size_t off = (size_t) p->dof, size = (size_t) p->size;
    const int    v   = (int) (p->val & 1u);
    const int    erc = (off >= size * 8u) ? ERR_TOO_SMALL : 0;
    int          rc  = 0;
    size_t       j;
    if (size > CAP)
    {
        return 0;
    }
    buf_fill(&B, size, (int) p->pat, pseed(p, 6));
    CALL1(&B, rc = impl_setbit(B.d, size, off, v != 0));
    count_case(((off % 8u) != 0u) || (erc != 0));
    if (rc != erc)
    {
        failp(p, "wrong-result-code", "returned %d, reference %d (size*8=%zu off=%zu)", rc, erc, size * 8u, off);
    }
    else
    {
        for (j = 0; j < size * 8u; j++)
        {
            const int in  = (erc == 0) && (j == off);
            const int exp = in ? v : obit(&B, j);
            if (nbit(&B, j) != exp)
            {
                report_buf(p, in ? "addressed-bit-wrong" : "bit-outside-range-modified", &B, j, "");
                break;
            }
        }
    }
    check_guards(p, &B, "destination");
    return 1;
}

static int t_getBit(const P* p)
{
    const size_t off = (size_t) p->so, size = (size_t) p->size;
    int          got = 0, exp;
    if (size > CAP)
    {
        return 0;
    }
    buf_fill(&A, size, (int) p->pat, pseed(p, 7));
    CALL1(&A, got = impl_getbit(A.d, size, off) ? 1 : 0);
    exp = obit(&A, off);
    count_case(((off % 8u) != 0u) || (off >= size * 8u));
    if (got != exp)
    {
        report_buf(p, (off >= size * 8u) ? "read-past-end-not-zero" : "value-wrong", &A, off, "");
    }
    check_source_intact(p, &A);
    return 1;
}

/* set unsigned / signed: n==0 unsigned, n==1 signed.  len is the uint8_t argument (0..255), saturated to 64 as
 * documented; BUFFER_TOO_SMALL exactly when size*8 < off+len (len as passed); on error nothing is written. */
static int t_setXxx(const P* p)
{
    const size_t off = (size_t) p->dof, len = (size_t) p->len, size = (size_t) p->size;
    const size_t sat = (len > 64u) ? 64u : len;
    const int    erc = (size * 8u < off + len) ? ERR_TOO_SMALL : 0;
    int          rc  = 0;
    size_t       j;
    if (size > CAP || len > 255u)
    {
        return 0;
    }
    buf_fill(&B, size, (int) p->pat, pseed(p, 8));
    if (p->n == 0)
    {
        CALL1(&B, rc = impl_setu(B.d, size, off, p->val, (uint8_t) len));
    }
    else
    {
        int64_t sv;
        memcpy(&sv, &p->val, sizeof(sv));
        CALL1(&B, rc = impl_seti(B.d, size, off, sv, (uint8_t) len));
    }
    count_case(nt3(off, len, 0) || (erc != 0));
    if (rc != erc)
    {
        failp(p, "wrong-result-code", "returned %d, reference %d (size*8=%zu off+len=%zu)", rc, erc, size * 8u, off + len);
    }
    else
    {
        for (j = 0; j < size * 8u; j++)
        {
            const int in  = (erc == 0) && (j >= off) && (j < off + sat);
            const int exp = in ? (int) ((p->val >> (j - off)) & 1u) : obit(&B, j);
            if (nbit(&B, j) != exp)
            {
                report_buf(p, in ? "addressed-bit-wrong" : "bit-outside-range-modified", &B, j, "");
                break;
            }
        }
    }
    check_guards(p, &B, "destination");
    return 1;
}

/* reference unsigned read of min(len, w) bits, one bit per iteration, zero past the end */
static uint64_t ref_getu(const Buf* b, size_t off, size_t sat)
{
    uint64_t v = 0;
    size_t   i;
    for (i = 0; i < sat; i++)
    {
        if (obit(b, off + i))
        {
            v |= ((uint64_t) 1u) << i;
        }
    }
    return v;
}

/* get unsigned: n = width (8,16,32,64) */
static int t_getU(const P* p)
{
    const size_t off = (size_t) p->so, len = (size_t) p->len, size = (size_t) p->size, w = (size_t) p->n;
    const size_t sat = (len > w) ? w : len;
    uint64_t     got = 0, exp, diff;
    size_t       i;
    if (size > CAP || len > 255u || !(w == 8 || w == 16 || w == 32 || w == 64))
    {
        return 0;
    }
    buf_fill(&A, size, (int) p->pat, pseed(p, 9));
    CALL1(&A, got = impl_getu((int) w, A.d, size, off, (uint8_t) len));
    exp = ref_getu(&A, off, sat);
    count_case(nt3(off, len, 0) || (off + sat > size * 8u));
    diff = got ^ exp;
    if (diff != 0)
    {
        const char* clause = "read-past-end-not-zero";
        for (i = 0; i < 64; i++)
        {
            if ((diff >> i) & 1u)
            {
                if (i >= sat)
                {
                    clause = "bits-above-length-set";
                    break;
                }
                if (off + i < size * 8u)
                {
                    clause = "value-wrong";
                    break;
                }
            }
        }
        {
            char src[96];
            hexbuf(src, sizeof(src), A.d, A.size);
            failp(p, clause, "returned 0x%" PRIx64 ", reference 0x%" PRIx64 "; buffer=%s", got, exp, src);
        }
    }
    check_source_intact(p, &A);
    return 1;
}

/* get signed: n = width.  len==1 is documented as unspecified and skipped; len==0 returns 0. */
static int t_getI(const P* p)
{
    const size_t off = (size_t) p->so, len = (size_t) p->len, size = (size_t) p->size, w = (size_t) p->n;
    const size_t sat = (len > w) ? w : len;
    int64_t      got = 0, exp;
    uint64_t     u;
    if (size > CAP || len > 255u || len == 1u || !(w == 8 || w == 16 || w == 32 || w == 64))
    {
        return 0;
    }
    buf_fill(&A, size, (int) p->pat, pseed(p, 10));
    CALL1(&A, got = impl_geti((int) w, A.d, size, off, (uint8_t) len));
    u = ref_getu(&A, off, sat);
    if (sat > 0 && obit(&A, off + sat - 1u))
    { /* negative: two's complement sign extension to 64 bits, one bit per iteration */
        size_t i;
        for (i = sat; i < 64; i++)
        {
            u |= ((uint64_t) 1u) << i;
        }
    }
    memcpy(&exp, &u, sizeof(exp));
    count_case(nt3(off, len, 0) || (off + sat > size * 8u));
    if (got != exp)
    {
        uint64_t    gu;
        const char* clause;
        char        src[96];
        memcpy(&gu, &got, sizeof(gu));
        if (sat < 64 && ((gu ^ u) & ((((uint64_t) 1u) << sat) - 1u)) == 0)
        {
            clause = "sign-extension-wrong";
        }
        else
        {
            clause = (off + sat > size * 8u) ? "read-past-end-not-zero" : "value-wrong";
        }
        hexbuf(src, sizeof(src), A.d, A.size);
        failp(p, clause, "returned %" PRId64 ", reference %" PRId64 "; buffer=%s", got, exp, src);
    }
    check_source_intact(p, &A);
    return 1;
}

/* ------------------------------------------------------------------------------------------------ floating point
 * Reference for binary16: hval[k] = exact value (as double) of the magnitude code k, 0 <= k <= 0x7BFF, computed with
 * ldexp() from the fields; hval[0x7C00] = +inf.  Magnitude codes are ordered like the values they denote.
 */
static double hval[0x7C01];
static void   f16_init(void)
{
    unsigned k;
    for (k = 0; k < 0x7C00u; k++)
    {
        const unsigned e = k >> 10, m = k & 0x3FFu;
        hval[k] = (e == 0) ? ldexp((double) m, -24) : ldexp((double) (m | 0x400u), (int) e - 25);
    }
    hval[0x7C00] = (double) INFINITY;
    for (k = 0; k < 0x7C00u; k++)
    {
        if (!(hval[k] < hval[k + 1]))
        {
            printf("SELFCHECK-FAIL half table not strictly increasing at %u\n", k);
            exit(3);
        }
    }
    if (hval[0x7BFF] != 65504.0 || hval[1] != ldexp(1.0, -24) || hval[0x3C00] != 1.0 || hval[0x400] != ldexp(1.0, -14))
    {
        printf("SELFCHECK-FAIL half table anchor values\n");
        exit(3);
    }
}
static uint32_t f2u(float f) { uint32_t u; memcpy(&u, &f, 4); return u; }
static float    u2f(uint32_t u) { float f; memcpy(&f, &u, 4); return f; }
static uint64_t d2u(double f) { uint64_t u; memcpy(&u, &f, 8); return u; }
static double   u2d(uint64_t u) { double f; memcpy(&f, &u, 8); return f; }

/* largest k with hval[k] <= x, x finite >= 0 (binary search) */
static unsigned f16_floor(double x)
{
    unsigned lo = 0, hi = 0x7C00u; /* invariant: hval[lo] <= x < hval[hi] */
    while (hi - lo > 1u)
    {
        const unsigned mid = (lo + hi) / 2u;
        if (hval[mid] <= x)
        {
            lo = mid;
        }
        else
        {
            hi = mid;
        }
    }
    return lo;
}

/* Verdict for one conversion float32 (bit pattern fb) -> half (out): NULL if acceptable, else the violated clause.
 * kfloor: floor code of |x| (caller supplies it: from the ordered sweep pointer or from the binary search).
 * Rules (property statement): NaN -> NaN; inf -> inf of the same sign; sign preserved; |x| >= 65520 (the first value
 * whose nearest binary16 neighbour is infinity) -> infinity; otherwise the magnitude code is floor or ceil of the exact
 * value (faithful), and exactly the code itself when the value is representable. */
static const char* f16_verdict(uint32_t fb, uint16_t out, unsigned kfloor, int* nontrivial)
{
    const uint32_t mag  = fb & 0x7FFFFFFFu;
    const unsigned code = out & 0x7FFFu;
    *nontrivial         = 1;
    if (mag > 0x7F800000u)
    {
        return ((code & 0x7C00u) == 0x7C00u && (code & 0x3FFu) != 0u) ? NULL : "nan-not-preserved";
    }
    if ((out >> 15) != (fb >> 31))
    {
        return "sign-not-preserved";
    }
    if (mag == 0x7F800000u)
    {
        return (code == 0x7C00u) ? NULL : "infinity-not-preserved";
    }
    {
        const double x = (double) u2f(mag);
        if (x >= 65520.0)
        {
            return (code == 0x7C00u) ? NULL : "out-of-range-not-infinity";
        }
        if (hval[kfloor] == x)
        {
            *nontrivial = 0;
            return (code == kfloor) ? NULL : "representable-value-changed";
        }
        return (code == kfloor || code == kfloor + 1u) ? NULL : "not-faithful";
    }
}

#if defined(__FLT16_MANT_DIG__)
/* oracle self-check only: the compiler's IEEE round-to-nearest-even conversion must be acceptable to f16_verdict */
static void f16_selfcheck(uint32_t fb, unsigned kfloor)
{
    const _Float16 h = (_Float16) u2f(fb);
    uint16_t       b;
    int            nt;
    const char*    c;
    memcpy(&b, &h, 2);
    c = f16_verdict(fb, b, kfloor, &nt);
    if (c != NULL)
    {
        printf("SELFCHECK-FAIL reference rejects the compiler's _Float16 conversion of 0x%08x -> 0x%04x: %s\n", fb, b, c);
        exit(3);
    }
}
#else
static void f16_selfcheck(uint32_t fb, unsigned kfloor) { (void) fb; (void) kfloor; }
#endif

/* state of an ordered sweep (increasing bit patterns => increasing magnitude within each sign) */
typedef struct
{
    unsigned k;         /* floor pointer */
    unsigned prev_code; /* last magnitude code returned */
    uint32_t prev_fb;
    int      sign;
    uint64_t idx;
} Sweep;
static void sweep_reset(Sweep* s, int sign) { s->k = 0; s->prev_code = 0; s->prev_fb = 0; s->sign = sign; }

static void f16_sweep_one(Sweep* s, uint32_t fb, int selfcheck)
{
    P              p;
    const uint32_t mag = fb & 0x7FFFFFFFu;
    uint16_t       out;
    const char*    c;
    int            nt = 1;
    memset(&p, 0, sizeof(p));
    p.fam = "f16pack";
    p.val = fb;
    if ((int) (fb >> 31) != s->sign)
    {
        sweep_reset(s, (int) (fb >> 31));
    }
    out = impl_f16pack(u2f(fb));
    if (mag < 0x7F800000u)
    {
        const double x = (double) u2f(mag);
        while (hval[s->k + 1u] <= x)
        {
            s->k++;
        }
        if ((s->idx & 0xFFFu) == 0u && f16_floor(x) != s->k)
        {
            printf("SELFCHECK-FAIL sweep pointer %u != binary search %u at 0x%08x\n", s->k, f16_floor(x), fb);
            exit(3);
        }
        if (selfcheck)
        {
            f16_selfcheck(fb, s->k);
        }
    }
    s->idx++;
    c = f16_verdict(fb, out, s->k, &nt);
    count_case(nt);
    if (c != NULL)
    {
        failp(&p, c, "float32 0x%08x (%.9g) -> half 0x%04x; floor code 0x%04x (%.9g), next 0x%04x (%.9g)", fb,
              (double) u2f(fb), out, s->k, hval[s->k], s->k + 1u, hval[(s->k + 1u) > 0x7C00u ? 0x7C00u : (s->k + 1u)]);
    }
    if (mag <= 0x7F800000u)
    {
        const unsigned code = out & 0x7FFFu;
        if (mag >= s->prev_fb && code < s->prev_code && c == NULL)
        {
            failp(&p, "not-monotone", "float32 0x%08x -> 0x%04x but the smaller magnitude 0x%08x -> 0x%04x", fb, out,
                  s->prev_fb, s->prev_code);
        }
        s->prev_code = code;
        s->prev_fb   = mag;
    }
}

/* ordered sweep over start, start+stride, ... (count values), with a deterministic jitter < stride in the low bits */
static void f16_sweep(uint32_t start, uint64_t count, uint32_t stride, uint64_t seed, int selfcheck)
{
    Sweep    s;
    uint64_t i;
    memset(&s, 0, sizeof(s));
    sweep_reset(&s, (int) (start >> 31));
    for (i = 0; i < count; i++)
    {
        const uint64_t base = (uint64_t) start + i * (uint64_t) stride;
        const uint32_t jit  = (stride > 1u) ? (uint32_t) (mix64(seed ^ i) % stride) : 0u;
        if (base + jit > 0xFFFFFFFFull)
        {
            break;
        }
        f16_sweep_one(&s, (uint32_t) (base + jit), selfcheck);
    }
}

/* critical neighbourhoods: +-8 float ulps around every binary16 value and every midpoint between two adjacent ones */
static void g_f16crit(int thin)
{
    int sign;
    for (sign = 0; sign < 2; sign++)
    {
        Sweep    s;
        unsigned k;
        memset(&s, 0, sizeof(s));
        sweep_reset(&s, sign);
        for (k = 0; k < 0x7C00u; k += (thin ? 7u : 1u))
        {
            const double   hi  = (k == 0x7BFFu) ? 65536.0 : hval[k + 1u];
            const uint32_t c[2] = {f2u((float) hval[k]), f2u((float) ((hval[k] + hi) / 2.0))};
            int            w, d;
            for (w = 0; w < 2; w++)
            {
                for (d = -8; d <= 8; d++)
                {
                    const int64_t fb = (int64_t) c[w] + d;
                    if (fb >= 0)
                    {
                        f16_sweep_one(&s, (uint32_t) fb | ((uint32_t) sign << 31), !thin);
                    }
                }
            }
        }
    }
}

/* exact float32 value of a half code, built from the fields with ldexpf (exact: every binary16 value is a binary32 value) */
static float ref_f16unpack(uint16_t h, int* is_nan)
{
    const unsigned e = (h >> 10) & 0x1Fu, m = h & 0x3FFu;
    float          v;
    *is_nan = 0;
    if (e == 31u)
    {
        if (m != 0u)
        {
            *is_nan = 1;
            return 0.0f;
        }
        v = INFINITY;
    }
    else
    {
        v = (e == 0u) ? ldexpf((float) m, -24) : ldexpf((float) (m | 0x400u), (int) e - 25);
    }
    return (h & 0x8000u) ? -v : v;
}

static int t_f16unpack(const P* p)
{
    const uint16_t h = (uint16_t) p->val;
    int            nan;
    const float    exp = ref_f16unpack(h, &nan);
    const float    got = impl_f16unpack(h);
    count_case(((h & 0x7C00u) == 0u) || ((h & 0x7C00u) == 0x7C00u)); /* subnormal / zero / inf / NaN */
    if (nan)
    {
        if (!(got != got))
        {
            failp(p, "nan-not-preserved", "half 0x%04x (NaN) unpacked to 0x%08x", h, f2u(got));
        }
    }
    else if (f2u(got) != f2u(exp))
    {
        failp(p, ((h & 0x7FFFu) == 0x7C00u) ? "infinity-not-preserved" : "value-wrong",
              "half 0x%04x unpacked to 0x%08x (%.9g), exact value 0x%08x (%.9g)", h, f2u(got), (double) got, f2u(exp), (double) exp);
    }
    return 1;
}

static int t_f16roundtrip(const P* p)
{
    const uint16_t h   = (uint16_t) p->val;
    const int      nan = ((h & 0x7C00u) == 0x7C00u) && ((h & 0x3FFu) != 0u);
    const uint16_t r   = impl_f16pack(impl_f16unpack(h));
    count_case(((h & 0x7C00u) == 0u) || ((h & 0x7C00u) == 0x7C00u));
    if (nan)
    {
        if (!(((r & 0x7C00u) == 0x7C00u) && ((r & 0x3FFu) != 0u)))
        {
            failp(p, "nan-not-preserved", "pack(unpack(0x%04x)) = 0x%04x is not a NaN", h, r);
        }
    }
    else if (r != h)
    {
        failp(p, "round-trip-changed", "pack(unpack(0x%04x)) = 0x%04x", h, r);
    }
    return 1;
}

/* single conversion (replay / set-get families): binary search instead of the sweep pointer */
static int t_f16pack(const P* p)
{
    const uint32_t fb  = (uint32_t) p->val;
    const uint32_t mag = fb & 0x7FFFFFFFu;
    const uint16_t out = impl_f16pack(u2f(fb));
    const unsigned k   = (mag < 0x7F800000u) ? f16_floor((double) u2f(mag)) : 0u;
    int            nt;
    const char*    c = f16_verdict(fb, out, k, &nt);
    count_case(nt);
    if (c != NULL)
    {
        failp(p, c, "float32 0x%08x (%.9g) -> half 0x%04x; floor code 0x%04x (%.9g)", fb, (double) u2f(fb), out, k, hval[k]);
    }
    return 1;
}

/* set float: n = 16 / 32 / 64; val = bit pattern of the float32 (n=16,32) or float64 (n=64) argument */
static int t_setF(const P* p)
{
    const size_t off = (size_t) p->dof, size = (size_t) p->size, w = (size_t) p->n;
    const int    erc = (size * 8u < off + w) ? ERR_TOO_SMALL : 0;
    int          rc  = 0, is_nan;
    uint64_t     bits;
    size_t       j;
    if (size > CAP || !(w == 16 || w == 32 || w == 64))
    {
        return 0;
    }
    buf_fill(&B, size, (int) p->pat, pseed(p, 11));
    if (w == 16)
    {
        CALL1(&B, rc = impl_setf16(B.d, size, off, u2f((uint32_t) p->val)));
        is_nan = (p->val & 0x7FFFFFFFu) > 0x7F800000u;
    }
    else if (w == 32)
    {
        CALL1(&B, rc = impl_setf32(B.d, size, off, u2f((uint32_t) p->val)));
        is_nan = (p->val & 0x7FFFFFFFu) > 0x7F800000u;
    }
    else
    {
        CALL1(&B, rc = impl_setf64(B.d, size, off, u2d(p->val)));
        is_nan = (p->val & 0x7FFFFFFFFFFFFFFFull) > 0x7FF0000000000000ull;
    }
    count_case(((off % 8u) != 0u) || (erc != 0));
    if (rc != erc)
    {
        failp(p, "wrong-result-code", "returned %d, reference %d", rc, erc);
    }
    else
    {
        /* the bits written to [off, off+w) */
        bits = 0;
        for (j = 0; erc == 0 && j < w; j++)
        {
            bits |= ((uint64_t) nbit(&B, off + j)) << j;
        }
        for (j = 0; j < size * 8u; j++)
        {
            if (!((erc == 0) && (j >= off) && (j < off + w)) && nbit(&B, j) != obit(&B, j))
            {
                report_buf(p, "bit-outside-range-modified", &B, j, "");
                break;
            }
        }
        if (erc == 0)
        {
            if (w == 16)
            {
                const uint32_t fb  = (uint32_t) p->val;
                const uint32_t mag = fb & 0x7FFFFFFFu;
                int            nt;
                const char*    c = f16_verdict(fb, (uint16_t) bits, (mag < 0x7F800000u) ? f16_floor((double) u2f(mag)) : 0u, &nt);
                if (c != NULL)
                {
                    failp(p, c, "float32 0x%08x stored as half 0x%04x", fb, (unsigned) bits);
                }
            }
            else if (is_nan)
            {
                const int ok = (w == 32) ? ((bits & 0x7FFFFFFFu) > 0x7F800000u) : ((bits & 0x7FFFFFFFFFFFFFFFull) > 0x7FF0000000000000ull);
                if (!ok)
                {
                    failp(p, "nan-not-preserved", "stored 0x%" PRIx64, bits);
                }
            }
            else if (bits != p->val)
            {
                failp(p, "addressed-bit-wrong", "stored 0x%" PRIx64 ", IEEE 754 representation 0x%" PRIx64, bits, p->val);
            }
        }
    }
    check_guards(p, &B, "destination");
    return 1;
}

/* get float: n = 16 / 32 / 64; zero extension past the end applies to the raw bits */
static int t_getF(const P* p)
{
    const size_t off = (size_t) p->so, size = (size_t) p->size, w = (size_t) p->n;
    uint64_t     raw;
    if (size > CAP || !(w == 16 || w == 32 || w == 64))
    {
        return 0;
    }
    buf_fill(&A, size, (int) p->pat, pseed(p, 12));
    raw = ref_getu(&A, off, w);
    count_case(((off % 8u) != 0u) || (off + w > size * 8u));
    if (w == 16)
    {
        float got = 0;
        int   nan;
        float exp = ref_f16unpack((uint16_t) raw, &nan);
        CALL1(&A, got = impl_getf16(A.d, size, off));
        if (nan ? !(got != got) : (f2u(got) != f2u(exp)))
        {
            failp(p, nan ? "nan-not-preserved" : "value-wrong", "raw half 0x%04x read as 0x%08x, reference 0x%08x", (unsigned) raw, f2u(got), f2u(exp));
        }
    }
    else if (w == 32)
    {
        float     got = 0;
        const int nan = (raw & 0x7FFFFFFFu) > 0x7F800000u;
        CALL1(&A, got = impl_getf32(A.d, size, off));
        if (nan ? !(got != got) : (f2u(got) != (uint32_t) raw))
        {
            failp(p, nan ? "nan-not-preserved" : "value-wrong", "read 0x%08x, reference bits 0x%08x", f2u(got), (uint32_t) raw);
        }
    }
    else
    {
        double    got = 0;
        const int nan = (raw & 0x7FFFFFFFFFFFFFFFull) > 0x7FF0000000000000ull;
        CALL1(&A, got = impl_getf64(A.d, size, off));
        if (nan ? !(got != got) : (d2u(got) != raw))
        {
            failp(p, nan ? "nan-not-preserved" : "value-wrong", "read 0x%" PRIx64 ", reference bits 0x%" PRIx64, d2u(got), raw);
        }
    }
    check_source_intact(p, &A);
    return 1;
}

/* ------------------------------------------------------------------------------------------------ C++ only: bitspan */
#ifdef C14_CPP
static size_t avail_bits(size_t size, size_t off) { return (size * 8u > off) ? (size * 8u - off) : 0u; }

/* Shared verdict for "zero the bits [off, off+len)": every addressed bit zero, every earlier bit intact, every byte
 * after the last addressed byte intact; later bits INSIDE the last addressed byte may be zeroed (tolerated: no documented
 * contract; the generated serializers only append).  len == 0: nothing may change. */
static void verdict_zeroed(const P* p, size_t off, size_t len)
{
    const size_t last = (len > 0) ? ((off + len - 1u) / 8u) : 0u;
    size_t       j;
    int          tol = 0;
    for (j = 0; j < B.size * 8u; j++)
    {
        const int got = nbit(&B, j);
        if (len > 0 && j >= off && j < off + len)
        {
            if (got != 0)
            {
                report_buf(p, "addressed-bit-not-zeroed", &B, j, "");
                return;
            }
        }
        else if (len > 0 && j >= off + len && (j / 8u) == last)
        {
            if (got != obit(&B, j))
            {
                if (got != 0)
                {
                    report_buf(p, "bit-outside-range-modified", &B, j, "(set to one)");
                    return;
                }
                tol = 1;
            }
        }
        else if (got != obit(&B, j))
        {
            report_buf(p, (j < off) ? "earlier-bit-modified" : "byte-after-range-modified", &B, j, "");
            return;
        }
    }
    if (tol)
    {
        g_tolerated++;
    }
}

/* setZeros: n==0 -> setZeros(len); n==1 -> setZeros() == setZeros(size()) */
static int t_setZeros(const P* p)
{
    const size_t off = (size_t) p->dof, size = (size_t) p->size;
    const size_t av  = avail_bits(size, off);
    const size_t len = (p->n == 1) ? av : (size_t) p->len;
    const int    erc = (len > av) ? ERR_TOO_SMALL : 0;
    int          rc  = 0;
    if (size > CAP)
    {
        return 0;
    }
    buf_fill(&B, size, (int) p->pat, pseed(p, 20));
    {
        bitspan s(B.d, size, off);
        if (p->n == 1)
        {
            CALL1(&B, rc = vr(s.setZeros()));
        }
        else
        {
            CALL1(&B, rc = vr(s.setZeros(len)));
        }
    }
    count_case(nt3(off, len, 0) || (erc != 0));
    if (rc != erc)
    {
        failp(p, "wrong-result-code", "returned %d, reference %d (available bits %zu, length %zu)", rc, erc, av, len);
    }
    else if (erc != 0)
    {
        if (!data_intact(&B))
        {
            report_buf(p, "written-despite-error", &B, 0, "");
        }
    }
    else
    {
        verdict_zeroed(p, off, len);
    }
    check_guards(p, &B, "destination");
    return 1;
}

/* padAndMoveToAlignment(n): zero bits up to the next multiple of n, advance the offset; error if they do not fit */
static int t_padAndMove(const P* p)
{
    const size_t off = (size_t) p->dof, size = (size_t) p->size, n = (size_t) p->n;
    size_t       pad, noff = 0;
    int          erc, rc = 0;
    if (size > CAP || n == 0 || n > 64)
    {
        return 0;
    }
    pad = 0; /* reference: count bits one at a time until aligned */
    while (((off + pad) % n) != 0u)
    {
        pad++;
    }
    erc = (pad > avail_bits(size, off)) ? ERR_TOO_SMALL : 0;
    buf_fill(&B, size, (int) p->pat, pseed(p, 21));
    {
        bitspan s(B.d, size, off);
        CALL1(&B, rc = vr(s.padAndMoveToAlignment(n)));
        noff = s.offset();
    }
    count_case(((off % 8u) != 0u) || (erc != 0) || (pad % 8u) != 0u);
    if (rc != erc)
    {
        failp(p, "wrong-result-code", "returned %d, reference %d (padding %zu, available %zu)", rc, erc, pad, avail_bits(size, off));
    }
    else if (erc != 0)
    {
        if (!data_intact(&B))
        {
            report_buf(p, "written-despite-error", &B, 0, "");
        }
    }
    else
    {
        if (noff != off + pad)
        {
            failp(p, "offset-wrong", "offset after the call %zu, reference %zu", noff, off + pad);
        }
        verdict_zeroed(p, off, pad);
    }
    check_guards(p, &B, "destination");
    return 1;
}

/* A derived const span `s` must show the parent's bits start, start+1, ... for the first `visible` bits and zero after
 * them (implicit zero extension at the derived span's own end).  Read one bit at a time through at_offset(i).getBit(). */
static void verdict_const_view(const P* p, const const_bitspan& s, size_t start, size_t visible, size_t cnt)
{
    size_t i;
    for (i = 0; i < cnt; i++)
    {
        int       got = 0;
        const int exp = (i < visible) ? obit(&A, start + i) : 0;
        CALL1(&A, got = s.at_offset(i).getBit() ? 1 : 0);
        if (got != exp)
        {
            char src[96];
            hexbuf(src, sizeof(src), A.d, A.size);
            failp(p, (i < visible) ? "view-bit-wrong" : "read-past-limit-not-zero",
                  "bit %zu of the derived span reads %d, parent bit %zu is %d (visible bits %zu); buffer=%s", i, got, start + i,
                  exp, visible, src);
            return;
        }
    }
}

/* A derived mutable span `s`: setBit at i < visible writes exactly the parent's bit start+i; at i >= visible it reports
 * an error and writes nothing. */
static void verdict_mut_view(const P* p, const bitspan& s, size_t start, size_t visible, size_t cnt)
{
    size_t i, j;
    for (i = 0; i < cnt; i++)
    {
        int rc = 0;
        const int v = !obit(&B, start + i); /* flip the bit so that a write is always visible */
        memcpy(B.d, B.orig + GUARD, B.size);
        CALL1(&B, rc = vr(s.at_offset(i).setBit(v != 0)));
        if (rc != ((i < visible) ? 0 : ERR_TOO_SMALL))
        {
            failp(p, "view-limit-wrong", "setBit at bit %zu of the derived span returned %d (visible bits %zu)", i, rc, visible);
            return;
        }
        for (j = 0; j < B.size * 8u; j++)
        {
            const int exp = (i < visible && j == start + i) ? v : obit(&B, j);
            if (nbit(&B, j) != exp)
            {
                report_buf(p, "view-bit-wrong", &B, j, "(write through the derived span)");
                return;
            }
        }
        if (!guards_ok(&B))
        {
            failp(p, "guard-modified", "write through the derived span at bit %zu", i);
            return;
        }
    }
}

/* any_bitspan::subspan(bits): n==0 const_bitspan, n==1 bitspan.  The result addresses the parent's bits from off+bits
 * on, has an offset < 8 and size() == max(0, size*8 - off - bits). */
static int t_subspan(const P* p)
{
    const size_t off = (size_t) p->so, bits = (size_t) p->len, size = (size_t) p->size;
    const size_t vis = avail_bits(size, off + bits);
    if (size > CAP)
    {
        return 0;
    }
    count_case(nt3(off, bits, 0) || (off + bits > size * 8u));
    if (p->n == 0)
    {
        buf_fill(&A, size, (int) p->pat, pseed(p, 22));
        const const_bitspan s = const_bitspan(A.d, size, off).subspan(bits);
        if (s.size() != vis || s.offset() >= 8u)
        {
            failp(p, "size-wrong", "size() %zu offset() %zu, reference size %zu and offset < 8", (size_t) s.size(), (size_t) s.offset(), vis);
        }
        verdict_const_view(p, s, off + bits, vis, vis + 10u > 40u ? 40u : vis + 10u);
        check_source_intact(p, &A);
    }
    else
    {
        buf_fill(&B, size, (int) p->pat, pseed(p, 23));
        /* bitspan::subspan(bits_at, size_bits) hides the one-argument member of the base class: call it through the base */
        const bitspan parent(B.d, size, off);
        const bitspan s = static_cast<const nunavut::support::detail::any_bitspan<bitspan>&>(parent).subspan(bits);
        if (s.size() != vis || s.offset() >= 8u)
        {
            failp(p, "size-wrong", "size() %zu offset() %zu, reference size %zu and offset < 8", (size_t) s.size(), (size_t) s.offset(), vis);
        }
        verdict_mut_view(p, s, off + bits, vis, vis + 3u > 12u ? 12u : vis + 3u);
    }
    return 1;
}

/* bitspan::subspan(bits_at, size_bits) -> Result<bitspan>: error exactly when the window does not fit; otherwise the
 * result addresses the parent's bits from off+bits_at on and never shows more than size_bits of them (no documented
 * contract beyond that: the size is kept in whole bytes, so it is exact when off+bits_at+size_bits is a byte boundary --
 * which is how the generated code calls it -- and may be up to 7 bits SHORTER otherwise: tolerated, counted). */
static int t_subspan2(const P* p)
{
    const size_t off = (size_t) p->dof, at = (size_t) p->so, sb = (size_t) p->len, size = (size_t) p->size;
    const int    erc = (off + at + sb > size * 8u) ? ERR_TOO_SMALL : 0;
    if (size > CAP)
    {
        return 0;
    }
    buf_fill(&B, size, (int) p->pat, pseed(p, 24));
    count_case(nt3(off + at, sb, 0) || (erc != 0));
    {
        const nunavut::support::Result<bitspan> r = bitspan(B.d, size, off).subspan(at, sb);
        const int                               rc = r.has_value() ? 0 : -static_cast<int>(r.error());
        if (rc != erc)
        {
            failp(p, "wrong-result-code", "returned %d, reference %d (window end %zu, buffer bits %zu)", rc, erc, off + at + sb, size * 8u);
        }
        else if (erc == 0)
        {
            const bitspan& s   = r.value();
            const size_t   got = s.size();
            if (got > sb || (sb - got) >= 8u || (((off + at + sb) % 8u) == 0u && got != sb) || s.offset() >= 8u)
            {
                failp(p, "size-wrong", "size() %zu offset() %zu for a window of %zu bits", got, (size_t) s.offset(), sb);
            }
            else
            {
                if (got != sb)
                {
                    g_tolerated++;
                }
                verdict_mut_view(p, s, off + at, got, got + 3u > 12u ? 12u : got + 3u);
            }
        }
    }
    return 1;
}

/* subspan_limited_to(size_bytes): like subspan() and additionally limited to size_bytes bytes counted from the byte that
 * holds the current offset.  n==0 const_bitspan, n==1 bitspan; len = limit in bytes. */
static int t_subspanLimited(const P* p)
{
    const size_t off = (size_t) p->so, lim = (size_t) p->len, size = (size_t) p->size;
    const size_t ob = off / 8u, mod = off % 8u;
    const size_t avb = (ob < size) ? (size - ob) : 0u;
    const size_t nb  = (avb < lim) ? avb : lim;
    const size_t vis = (nb * 8u > mod) ? (nb * 8u - mod) : 0u;
    if (size > CAP)
    {
        return 0;
    }
    count_case(((off % 8u) != 0u) || (lim < avb) || (ob >= size));
    if (p->n == 0)
    {
        buf_fill(&A, size, (int) p->pat, pseed(p, 25));
        const const_bitspan s = const_bitspan(A.d, size, off).subspan_limited_to(lim);
        if (s.size() != vis || s.offset() != mod)
        {
            failp(p, "size-wrong", "size() %zu offset() %zu, reference %zu and %zu", (size_t) s.size(), (size_t) s.offset(), vis, mod);
        }
        verdict_const_view(p, s, off, vis, vis + 18u > 48u ? 48u : vis + 18u);
        check_source_intact(p, &A);
    }
    else
    {
        buf_fill(&B, size, (int) p->pat, pseed(p, 26));
        const bitspan s = bitspan(B.d, size, off).subspan_limited_to(lim);
        if (s.size() != vis || s.offset() != mod)
        {
            failp(p, "size-wrong", "size() %zu offset() %zu, reference %zu and %zu", (size_t) s.size(), (size_t) s.offset(), vis, mod);
        }
        verdict_mut_view(p, s, off, vis, vis + 3u > 12u ? 12u : vis + 3u);
    }
    return 1;
}

/* size() and the small accessors, both classes; len = extra bits for at_offset/add_offset */
static int t_accessors(const P* p)
{
    const size_t off = (size_t) p->so, bits = (size_t) p->len, size = (size_t) p->size;
    static const size_t aligns[4] = {8, 16, 32, 64};
    size_t              i;
    if (size > CAP)
    {
        return 0;
    }
    buf_fill(&A, size, 2, 0);
    count_case(((off % 8u) != 0u) || (off > size * 8u));
#define ACC(cond, what) do { if (!(cond)) { failp(p, "accessor-wrong", "%s", what); return 1; } } while (0)
    {
        const const_bitspan c(A.d, size, off); /* const: the non-const aligned_ref() of const_bitspan does not compile */
        bitspan             m(A.d, size, off);
        ACC(c.size() == avail_bits(size, off), "const_bitspan::size()");
        ACC(m.size() == avail_bits(size, off), "bitspan::size()");
        ACC(c.offset() == off && m.offset() == off, "offset()");
        ACC(c.offset_bytes() == off / 8u && m.offset_bytes() == off / 8u, "offset_bytes()");
        ACC(c.offset_bytes_ceil() == (off + 7u) / 8u, "offset_bytes_ceil()");
        ACC(c.offset_alings_to_byte() == ((off % 8u) == 0u), "offset_alings_to_byte()");
        for (i = 0; i < 4; i++)
        {
            ACC(c.offset_misalignment(aligns[i]) == off % aligns[i], "offset_misalignment()");
            ACC(m.offset_alings_to(aligns[i]) == ((off % aligns[i]) == 0u), "offset_alings_to()");
        }
        ACC(c.at_offset(bits).offset() == off + bits && c.at_offset(bits).size() == avail_bits(size, off + bits), "at_offset()");
        ACC(m.at_offset(bits).offset() == off + bits && m.at_offset(bits).size() == avail_bits(size, off + bits), "bitspan::at_offset()");
        if ((off + bits) / 8u < size)
        {
            ACC(c.aligned_ptr(bits) == A.d + (off + bits) / 8u, "aligned_ptr()");
            ACC(m.aligned_ptr(bits) == A.d + (off + bits) / 8u, "bitspan::aligned_ptr()");
        }
        m.add_offset(bits);
        ACC(m.offset() == off + bits, "add_offset()");
        m.set_offset(bits);
        ACC(m.offset() == bits, "set_offset()");
        {
            const_bitspan a8(A.d, size, off), a16(A.d, size, off), a32(A.d, size, off), a64(A.d, size, off);
            a8.align_offset_to<8U>();
            a16.align_offset_to<16U>();
            a32.align_offset_to<32U>();
            a64.align_offset_to<64U>();
            ACC(a8.offset() == ((off + 7u) / 8u) * 8u, "align_offset_to<8>");
            ACC(a16.offset() == ((off + 15u) / 16u) * 16u, "align_offset_to<16>");
            ACC(a32.offset() == ((off + 31u) / 32u) * 32u, "align_offset_to<32>");
            ACC(a64.offset() == ((off + 63u) / 64u) * 64u, "align_offset_to<64>");
        }
    }
#undef ACC
    return 1;
}

/* const_bitspan::copyTo with the SOURCE size as a dimension: the length is clamped to the source's size().
 * n==0: copyTo(dst, len); n==1: copyTo(dst) (== all remaining source bits).  Destination = exact fit for the requested
 * length (documented precondition).  Bits [clamped, len) of the destination window: untouched or zero are both accepted
 * (the documentation says the source "shall be large enough"; it does not say what happens when it is not). */
static int t_copyToClamp(const P* p)
{
    const size_t so = (size_t) p->so, dof = (size_t) p->dof, ssize = (size_t) p->ssize;
    const size_t sav = avail_bits(ssize, so);
    const size_t len = (p->n == 1) ? sav : (size_t) p->len;
    const size_t cl  = (len < sav) ? len : sav;
    const size_t dsize = (dof + len + 7u) / 8u;
    size_t       j;
    if (ssize > CAP || dsize > CAP)
    {
        return 0;
    }
    buf_fill(&A, ssize, (int) p->pat, pseed(p, 27));
    buf_fill(&B, dsize, (int) p->dpat, pseed(p, 28));
    if (p->n == 1)
    {
        CALL2(&A, &B, const_bitspan(A.d, ssize, so).copyTo(bitspan(B.d, dsize, dof)));
    }
    else
    {
        CALL2(&A, &B, const_bitspan(A.d, ssize, so).copyTo(bitspan(B.d, dsize, dof), len));
    }
    count_case(nt3(so, dof, len) || (cl < len));
    for (j = 0; j < dsize * 8u; j++)
    {
        const int got = nbit(&B, j);
        if (j >= dof && j < dof + cl)
        {
            if (got != obit(&A, so + (j - dof)))
            {
                report_buf(p, "addressed-bit-wrong", &B, j, "");
                break;
            }
        }
        else if (j >= dof + cl && j < dof + len)
        {
            if (got != obit(&B, j) && got != 0)
            {
                report_buf(p, "bit-past-source-end-not-zero", &B, j, "");
                break;
            }
        }
        else if (got != obit(&B, j))
        {
            report_buf(p, "bit-outside-range-modified", &B, j, "");
            break;
        }
    }
    check_guards(p, &B, "destination");
    check_guards(p, &A, "source");
    check_source_intact(p, &A);
    return 1;
}
#endif

/* ------------------------------------------------------------------------------------------------ grids */
typedef int (*TupleFn)(const P*);
typedef struct Family
{
    const char* name;
    TupleFn     fn;
    int64_t     n; /* fixed value of P.n for this family, -1 = free */
    void (*grid)(const struct Family*, int thin);
} Family;

static uint64_t pick_val(unsigned vi, size_t len, int is_signed, uint64_t salt)
{
    const size_t   sat  = (len > 64u) ? 64u : len;
    const uint64_t top  = (sat > 0) ? (((uint64_t) 1u) << (sat - 1u)) : 1u;
    const uint64_t mask = (sat >= 64u) ? ~(uint64_t) 0 : ((((uint64_t) 1u) << sat) - 1u);
    switch (vi)
    {
    case 0: return 0;
    case 1: return ~(uint64_t) 0; /* all ones == -1 */
    case 2: return 0xAAAAAAAAAAAAAAAAull;
    case 3: return 0x5555555555555555ull;
    case 4: return mix64(salt ^ 0x1234u);
    case 5: return mix64(salt ^ 0x9876u) | top;
    case 6: return is_signed ? ~(top - 1u) : top;                  /* most negative / only the top bit */
    default: return is_signed ? (top - 1u) : ((top - 1u) | ~mask); /* most positive / garbage above the field */
    }
}
#define PAT_HI (thin ? 4u : NPAT)
#define PINIT(p, f) do { memset(&(p), 0, sizeof(p)); (p).fam = (f)->name; (p).n = ((f)->n >= 0) ? (uint64_t) (f)->n : 0u; } while (0)
static uint64_t other_pat(uint64_t pat) { return (pat == 0) ? 1u : (pat == 1) ? 0u : (pat == 2) ? 3u : (pat == 3) ? 2u : pat; }

static void g_copyBits(const Family* f, int thin)
{
    P p;
    PINIT(p, f);
    for (p.so = 0; p.so < 24; p.so++)
        for (p.dof = 0; p.dof < 24; p.dof++)
            for (p.len = 0; p.len <= 80; p.len++)
                for (p.pat = thin ? 3 : 0; p.pat < (thin ? 4u : NPAT); p.pat++)
                    for (p.dpat = thin ? 2 : 0; p.dpat < (thin ? 4u : NPAT); p.dpat++)
                    {
                        p.size = (p.dof + p.len + 7u) / 8u;
                        f->fn(&p);
                    }
}
static void g_copyBitsOverlap(const Family* f, int thin)
{
    P p;
    PINIT(p, f);
    p.size = 16;
    for (p.so = 0; p.so <= 40; p.so += 8)
        for (p.dof = 0; p.dof <= 40; p.dof += 8)
            for (p.len = 0; p.len <= 80; p.len++)
                for (p.pat = thin ? 3 : 2; p.pat < PAT_HI; p.pat++)
                    f->fn(&p);
}
static void g_read(const Family* f, int thin)
{ /* getBits, getU*, getI*: off x len x size x pattern */
    P p;
    PINIT(p, f);
    for (p.size = 0; p.size <= 12; p.size++)
        for (p.so = 0; p.so < 112; p.so++)
            for (p.len = 0; p.len <= 80; p.len++)
                for (p.pat = thin ? 3 : 0; p.pat < PAT_HI; p.pat++)
                {
                    p.dpat = other_pat(p.pat);
                    f->fn(&p);
                }
}
static void g_saturate(const Family* f, int thin)
{
    P p;
    PINIT(p, f);
    (void) thin;
    for (p.size = 0; p.size <= 13; p.size++)
        for (p.so = 0; p.so < 128; p.so++)
            for (p.len = 0; p.len < 128; p.len++)
                f->fn(&p);
}
static void g_setBit(const Family* f, int thin)
{
    P p;
    PINIT(p, f);
    for (p.size = 0; p.size <= 13; p.size++)
        for (p.dof = 0; p.dof < 128; p.dof++)
            for (p.val = 0; p.val < 2; p.val++)
                for (p.pat = thin ? 2 : 0; p.pat < PAT_HI; p.pat++)
                    f->fn(&p);
}
static void g_getBit(const Family* f, int thin)
{
    P p;
    PINIT(p, f);
    for (p.size = 0; p.size <= 13; p.size++)
        for (p.so = 0; p.so < 128; p.so++)
            for (p.pat = thin ? 2 : 0; p.pat < PAT_HI; p.pat++)
                f->fn(&p);
}
static void g_setXxx(const Family* f, int thin)
{
    static const unsigned extra[6] = {81, 96, 127, 128, 200, 255};
    P                     p;
    unsigned              li, vi;
    PINIT(p, f);
    for (p.size = 0; p.size <= 15; p.size++)
        for (p.dof = 0; p.dof < 32; p.dof++)
            for (li = 0; li <= 86; li++)
            {
                p.len = (li <= 80) ? li : extra[li - 81];
                for (vi = 0; vi < 8; vi++)
                    for (p.pat = thin ? 3 : 0; p.pat < PAT_HI; p.pat++)
                    {
                        p.val = pick_val(vi, (size_t) p.len, f->n == 1, pseed(&p, 77));
                        f->fn(&p);
                    }
            }
}
static const uint32_t F32_SPECIAL[] = {0x00000000u, 0x80000000u, 0x00000001u, 0x007FFFFFu, 0x00800000u, 0x3F800000u, 0xBF800000u,
                                       0x3FC00000u, 0x477FE000u /*65504*/, 0x477FEFFFu /*65519.996*/, 0x477FF000u /*65520*/,
                                       0x47800000u /*65536*/, 0x322BCC77u /*1e-8*/, 0x33800000u /*2^-24*/, 0x33000000u /*2^-25*/,
                                       0x33000001u, 0x387FC000u /*max half subnormal*/, 0x38800000u /*2^-14*/, 0x7F7FFFFFu,
                                       0xFF7FFFFFu, 0x7F800000u, 0xFF800000u, 0x7FC00000u, 0xFFC00001u};
static const uint64_t F64_SPECIAL[] = {0x0000000000000000ull, 0x8000000000000000ull, 0x0000000000000001ull, 0x000FFFFFFFFFFFFFull,
                                       0x0010000000000000ull, 0x3FF0000000000000ull, 0xBFF8000000000000ull, 0x7FEFFFFFFFFFFFFFull,
                                       0xFFEFFFFFFFFFFFFFull, 0x7FF0000000000000ull, 0xFFF0000000000000ull, 0x7FF8000000000000ull,
                                       0x400921FB54442D18ull, 0x3E45798EE2308C3Aull};
static void g_setF(const Family* f, int thin)
{
    P        p;
    unsigned vi;
    const unsigned nspec = (f->n == 64) ? (unsigned) (sizeof(F64_SPECIAL) / sizeof(F64_SPECIAL[0])) : (unsigned) (sizeof(F32_SPECIAL) / sizeof(F32_SPECIAL[0]));
    PINIT(p, f);
    for (p.size = 0; p.size <= 12; p.size++)
        for (p.dof = 0; p.dof < 24; p.dof++)
            for (vi = 0; vi < nspec + 12u; vi++)
                for (p.pat = thin ? 3 : 0; p.pat < PAT_HI; p.pat++)
                {
                    if (vi < nspec)
                        p.val = (f->n == 64) ? F64_SPECIAL[vi] : F32_SPECIAL[vi];
                    else
                        p.val = (f->n == 64) ? mix64(pseed(&p, vi)) : (mix64(pseed(&p, vi)) & 0xFFFFFFFFu);
                    f->fn(&p);
                }
}
static void g_getF(const Family* f, int thin)
{
    P p;
    PINIT(p, f);
    for (p.size = 0; p.size <= 12; p.size++)
        for (p.so = 0; p.so < 41; p.so++)
            for (p.pat = thin ? 3 : 0; p.pat < PAT_HI; p.pat++)
                for (p.ssize = 0; p.ssize < ((p.pat == 3) ? 16u : 1u); p.ssize++) /* ssize = content salt only */
                    f->fn(&p);
}
static void g_half(const Family* f, int thin)
{
    P p;
    PINIT(p, f);
    (void) thin;
    for (p.val = 0; p.val < 0x10000u; p.val++)
        f->fn(&p);
}
static void g_f16crit_f(const Family* f, int thin) { (void) f; g_f16crit(thin); }
#ifdef C14_CPP
static void g_setZeros(const Family* f, int thin)
{
    P p;
    PINIT(p, f);
    for (p.size = 0; p.size <= 13; p.size++)
        for (p.dof = 0; p.dof < 112; p.dof++)
            for (p.pat = thin ? 3 : 0; p.pat < PAT_HI; p.pat++)
            {
                p.n = 0;
                for (p.len = 0; p.len <= 104; p.len++)
                    f->fn(&p);
                p.n   = 1;
                p.len = 0;
                f->fn(&p);
            }
}
static void g_padAndMove(const Family* f, int thin)
{
    static const unsigned al[5] = {1, 8, 16, 32, 64};
    P                     p;
    unsigned              i;
    PINIT(p, f);
    for (p.size = 0; p.size <= 13; p.size++)
        for (p.dof = 0; p.dof < 112; p.dof++)
            for (i = 0; i < 5; i++)
                for (p.pat = thin ? 3 : 0; p.pat < PAT_HI; p.pat++)
                {
                    p.n = al[i];
                    f->fn(&p);
                }
}
static void g_subspan(const Family* f, int thin)
{
    P p;
    PINIT(p, f);
    for (p.size = 0; p.size <= 12; p.size++)
        for (p.so = 0; p.so < 64; p.so += (thin ? 3 : 1))
            for (p.len = 0; p.len < 64; p.len++)
                for (p.pat = 2; p.pat < PAT_HI; p.pat++)
                    for (p.n = 0; p.n < 2; p.n++)
                        f->fn(&p);
}
static void g_subspan2(const Family* f, int thin)
{
    P p;
    PINIT(p, f);
    p.pat = 3;
    for (p.size = 0; p.size <= 12; p.size++)
        for (p.dof = 0; p.dof < 24; p.dof += (thin ? 5 : 1))
            for (p.so = 0; p.so < 48; p.so++)
                for (p.len = 0; p.len <= 64; p.len++)
                    f->fn(&p);
}
static void g_subspanLimited(const Family* f, int thin)
{
    P p;
    PINIT(p, f);
    (void) thin;
    for (p.size = 0; p.size <= 12; p.size++)
        for (p.so = 0; p.so < 64; p.so++)
            for (p.len = 0; p.len <= 14; p.len++)
                for (p.pat = 2; p.pat < PAT_HI; p.pat++)
                    for (p.n = 0; p.n < 2; p.n++)
                        f->fn(&p);
}
static void g_accessors(const Family* f, int thin)
{
    P p;
    PINIT(p, f);
    (void) thin;
    for (p.size = 0; p.size <= 13; p.size++)
        for (p.so = 0; p.so < 128; p.so++)
            for (p.len = 0; p.len < 32; p.len++)
                f->fn(&p);
}
static void g_copyToClamp(const Family* f, int thin)
{
    P p;
    PINIT(p, f);
    for (p.ssize = 0; p.ssize <= 13; p.ssize++)
        for (p.so = 0; p.so < 24; p.so++)
            for (p.dof = 0; p.dof < 24; p.dof += (thin ? 5 : 1))
                for (p.pat = thin ? 3 : 2; p.pat < PAT_HI; p.pat++)
                {
                    p.dpat = other_pat(p.pat);
                    p.n    = 0;
                    for (p.len = 0; p.len <= 80; p.len++)
                        f->fn(&p);
                    p.n   = 1;
                    p.len = 0;
                    f->fn(&p);
                }
}
#endif

static const Family FAMILIES[] = {
    {"copyBits", t_copyBits, -1, g_copyBits},
    {"copyBitsOverlap", t_copyBitsOverlap, -1, g_copyBitsOverlap},
    {"getBits", t_getBits, -1, g_read},
    {"saturate", t_saturate, -1, g_saturate},
    {"setBit", t_setBit, -1, g_setBit},
    {"getBit", t_getBit, -1, g_getBit},
    {"setUxx", t_setXxx, 0, g_setXxx},
    {"setIxx", t_setXxx, 1, g_setXxx},
    {"getU8", t_getU, 8, g_read},
    {"getU16", t_getU, 16, g_read},
    {"getU32", t_getU, 32, g_read},
    {"getU64", t_getU, 64, g_read},
    {"getI8", t_getI, 8, g_read},
    {"getI16", t_getI, 16, g_read},
    {"getI32", t_getI, 32, g_read},
    {"getI64", t_getI, 64, g_read},
    {"f16unpack", t_f16unpack, -1, g_half},
    {"f16roundtrip", t_f16roundtrip, -1, g_half},
    {"f16pack", t_f16pack, -1, g_f16crit_f},
    {"setF16", t_setF, 16, g_setF},
    {"setF32", t_setF, 32, g_setF},
    {"setF64", t_setF, 64, g_setF},
    {"getF16", t_getF, 16, g_getF},
    {"getF32", t_getF, 32, g_getF},
    {"getF64", t_getF, 64, g_getF},
#ifdef C14_CPP
    {"setZeros", t_setZeros, -1, g_setZeros},
    {"padAndMoveToAlignment", t_padAndMove, -1, g_padAndMove},
    {"subspan", t_subspan, -1, g_subspan},
    {"subspan2", t_subspan2, -1, g_subspan2},
    {"subspan_limited_to", t_subspanLimited, -1, g_subspanLimited},
    {"accessors", t_accessors, -1, g_accessors},
    {"copyToClamp", t_copyToClamp, -1, g_copyToClamp},
#endif
};
#define NFAM ((int) (sizeof(FAMILIES) / sizeof(FAMILIES[0])))

static const Family* find_family(const char* name)
{
    int i;
    for (i = 0; i < NFAM; i++)
    {
        if (strcmp(FAMILIES[i].name, name) == 0)
        {
            return &FAMILIES[i];
        }
    }
    return NULL;
}

static void flush_counts(const char* label)
{
    int i;
    if (g_cases > 0)
    {
        printf("COUNT %s %" PRIu64 " %" PRIu64 "\n", label, g_cases, g_nontriv);
    }
    if (g_tolerated)
    {
        printf("TOL %s tolerated-deviation %" PRIu64 "\n", label, g_tolerated);
    }
    for (i = 0; i < g_nfails; i++)
    {
        printf("FAILS %s %s %" PRIu64 "\n", g_fails[i].fam, g_fails[i].clause, g_fails[i].count);
    }
    g_cases = g_nontriv = g_tolerated = 0;
    g_nfails = 0;
    fflush(stdout);
}

/* ------------------------------------------------------------------------------------------------ random larger tuples */
static uint64_t g_rng;
static uint64_t rnd(void) { g_rng += 0x9E3779B97F4A7C15ULL; return mix64(g_rng); }
static uint64_t rndn(uint64_t n) { return (n == 0) ? 0 : (rnd() % n); } /* [0, n) */

static void run_rand(uint64_t seed, uint64_t n)
{
    static const char* const names[] = {"copyBits", "getBits", "setUxx", "setIxx", "getU8", "getU16", "getU32", "getU64",
                                        "getI8", "getI16", "getI32", "getI64", "setBit", "getBit", "saturate", "setF32",
                                        "getF64", "copyBitsOverlap",
#ifdef C14_CPP
                                        "setZeros", "padAndMoveToAlignment", "copyToClamp", "subspan", "subspan_limited_to", "subspan2",
#endif
    };
    const int      nn = (int) (sizeof(names) / sizeof(names[0]));
    uint64_t       i;
    uint64_t       per_cases[32] = {0}, per_nt[32] = {0};
    g_rng = mix64(seed ^ 0xC14C14C14ull);
    for (i = 0; i < n; i++)
    {
        const Family* f = find_family(names[i % (uint64_t) nn]);
        P             p;
        PINIT(p, f);
        p.pat  = 2 + rndn(NPAT - 2u);
        p.dpat = rndn(NPAT);
        p.size = (rndn(4) == 0) ? rndn(401) : rndn(40);
        if (f->fn == t_copyBits)
        {
            p.dof = rndn(p.size * 8u + 1u);
            p.len = rndn(p.size * 8u - p.dof + 1u);
            p.so  = rndn(3001);
        }
        else if (f->fn == t_copyBitsOverlap)
        {
            p.size = 16 + rndn(300);
            p.so   = 8u * rndn(p.size);
            p.dof  = 8u * rndn(p.size);
            if (p.so == p.dof)
            {
                p.dof = (p.so == 0) ? 8u : (p.so - 8u);
            }
            {
                const uint64_t mx = (p.so > p.dof) ? p.so : p.dof;
                p.len = rndn(p.size * 8u - mx + 1u);
            }
        }
        else if (f->fn == t_getBits)
        {
            p.so  = rndn(p.size * 8u + 80u);
            p.len = rndn(3001);
        }
        else if (f->fn == t_saturate)
        {
            p.so  = rnd() >> (rndn(50) + 14);
            p.len = rnd() >> (rndn(50) + 14);
            p.len %= 100000u; /* reference counts bit by bit */
        }
        else if (f->fn == t_setXxx)
        {
            p.dof = rndn(p.size * 8u + 70u);
            p.len = rndn(4) ? rndn(65) : rndn(256);
            p.val = pick_val((unsigned) rndn(8), (size_t) p.len, f->n == 1, rnd());
        }
        else if (f->fn == t_setBit || f->fn == t_setF)
        {
            p.dof = rndn(p.size * 8u + 70u);
            p.val = rnd();
            if (f->n == 32)
            {
                p.val &= 0xFFFFFFFFu;
            }
        }
#ifdef C14_CPP
        else if (f->fn == t_setZeros)
        {
            p.dof = rndn(p.size * 8u + 20u);
            p.len = rndn(p.size * 8u + 20u);
            p.n   = (rndn(8) == 0) ? 1u : 0u;
        }
        else if (f->fn == t_padAndMove)
        {
            static const unsigned al[5] = {1, 8, 16, 32, 64};
            p.dof = rndn(p.size * 8u + 70u);
            p.n   = al[rndn(5)];
        }
        else if (f->fn == t_copyToClamp)
        {
            p.ssize = p.size;
            p.so    = rndn(p.ssize * 8u + 20u);
            p.dof   = rndn(200);
            p.len   = rndn(p.ssize * 8u + 40u);
            p.n     = (rndn(8) == 0) ? 1u : 0u;
        }
        else if (f->fn == t_subspan || f->fn == t_subspanLimited)
        {
            p.so  = rndn(p.size * 8u + 20u);
            p.len = (f->fn == t_subspan) ? rndn(p.size * 8u + 20u) : rndn(p.size + 3u);
            p.n   = rndn(2);
        }
        else if (f->fn == t_subspan2)
        {
            p.dof = rndn(p.size * 8u + 10u);
            p.so  = rndn(p.size * 8u + 10u);
            p.len = rndn(p.size * 8u + 10u);
        }
#endif
        else
        { /* getU*, getI*, getBit, getF* */
            p.so  = rndn(p.size * 8u + 80u);
            p.len = rndn(4) ? rndn(65) : rndn(256);
            if (f->fn == t_getI && p.len == 1u)
            {
                p.len = 2;
            }
        }
        {
            const uint64_t c0 = g_cases, n0 = g_nontriv;
            if (!f->fn(&p))
            {
                printf("SELFCHECK-FAIL random tuple outside the domain of %s\n", f->name);
                exit(3);
            }
            per_cases[i % (uint64_t) nn] += g_cases - c0;
            per_nt[i % (uint64_t) nn] += g_nontriv - n0;
        }
    }
    {
        int k;
        for (k = 0; k < nn; k++)
        {
            printf("COUNT rand.%s %" PRIu64 " %" PRIu64 "\n", names[k], per_cases[k], per_nt[k]);
        }
        g_cases = g_nontriv = 0;
    }
}

/* ------------------------------------------------------------------------------------------------ main */
static int parse_kv(P* p, const char* kv)
{
    const char* eq = strchr(kv, '=');
    uint64_t    v;
    size_t      kl;
    if (eq == NULL)
    {
        return 0;
    }
    v  = strtoull(eq + 1, NULL, 0);
    kl = (size_t) (eq - kv);
#define KV(name, field) if (kl == strlen(name) && strncmp(kv, name, kl) == 0) { p->field = v; return 1; }
    KV("so", so)
    KV("do", dof)
    KV("len", len)
    KV("size", size)
    KV("ssize", ssize)
    KV("pat", pat)
    KV("dpat", dpat)
    KV("n", n)
    KV("val", val)
#undef KV
    if (kl == 4 && strncmp(kv, "seed", 4) == 0)
    {
        g_seed = v;
        return 1;
    }
    return 0;
}

int main(int argc, char** argv)
{
    buf_init(&A);
    buf_init(&B);
    buf_init(&O);
    f16_init();
    if (argc < 2)
    {
        fprintf(stderr, "usage: see the head of c14_c.c\n");
        return 2;
    }
    if (strcmp(argv[1], "list") == 0)
    {
        int i;
        for (i = 0; i < NFAM; i++)
        {
            printf("%s\n", FAMILIES[i].name);
        }
        return 0;
    }
    if (strcmp(argv[1], "grid") == 0 && argc >= 5)
    {
        const Family* f = find_family(argv[2]);
        if (f == NULL)
        {
            fprintf(stderr, "unknown family %s\n", argv[2]);
            return 2;
        }
        g_seed = strtoull(argv[3], NULL, 0);
        f->grid(f, atoi(argv[4]));
        flush_counts(f->name);
        printf("DONE\n");
        return 0;
    }
    if (strcmp(argv[1], "rand") == 0 && argc >= 4)
    {
        g_seed = strtoull(argv[2], NULL, 0);
        run_rand(g_seed, strtoull(argv[3], NULL, 0));
        flush_counts("rand");
        printf("DONE\n");
        return 0;
    }
    if (strcmp(argv[1], "f16sweep") == 0 && argc >= 6)
    {
        g_seed = strtoull(argv[5], NULL, 0);
        f16_sweep((uint32_t) strtoull(argv[2], NULL, 0), strtoull(argv[3], NULL, 0), (uint32_t) strtoull(argv[4], NULL, 0), g_seed,
                  (argc >= 7) ? atoi(argv[6]) : 0);
        flush_counts("f16pack");
        printf("DONE\n");
        return 0;
    }
    if (strcmp(argv[1], "single") == 0 && argc >= 4)
    {
        const Family* f = find_family(argv[2]);
        P             p;
        int           i, in_domain;
        if (f == NULL)
        {
            fprintf(stderr, "unknown family %s\n", argv[2]);
            return 2;
        }
        PINIT(p, f);
        g_seed = strtoull(argv[3], NULL, 0);
        for (i = 4; i < argc; i++)
        {
            if (!parse_kv(&p, argv[i]))
            {
                fprintf(stderr, "bad parameter %s\n", argv[i]);
                return 2;
            }
        }
        if (f->n >= 0)
        {
            p.n = (uint64_t) f->n;
        }
        g_verbose = 1;
        in_domain = f->fn(&p);
        if (!in_domain)
        {
            printf("OUTSIDE-DOMAIN\n");
        }
        flush_counts(f->name);
        printf("DONE\n");
        return 0;
    }
    if (strcmp(argv[1], "asan-selftest") == 0)
    { /* must die under ASan (read of a poisoned guard byte); prints NOT-DETECTED otherwise */
        volatile uint8_t sink;
        buf_fill(&A, 5, 3, 0);
        poison(&A);
        sink = ((volatile uint8_t*) A.d)[5];
        (void) sink;
        printf("NOT-DETECTED\n");
        return 0;
    }
    fprintf(stderr, "bad arguments\n");
    return 2;
}
