/*
 * C14 harness: exhaustive / random / single-tuple driver for the bit primitives of the GENERATED Nunavut support header.
 *
 * Built by vf/props/c14.py against a support header generated at run time from the tree under test:
 *     cc  -std=c11   -I <gen> c14_c.c   -lm          (C:  <gen>/nunavut/support/serialization.h, endianness any / little)
 *     c++ -std=c++14 -I <gen> c14_cpp.cpp             (C++: c14_cpp.cpp defines C14_CPP and includes this file)
 * Optional: -DC14_ASSERTS (header generated with --enable-serialization-asserts), ASan/UBSan (guards are poisoned).
 *
 * The ORACLE is the code in this file: bit-by-bit references (one bit per loop iteration) that share nothing with the
 * implementation.  Output (stdout), one record per line:
 *     COUNT <family> <n_cases> <n_nontrivial>
 *     FAIL  <family> k=v ... | <clause> | <detail>          (first few per family and clause)
 *     FAILS <family> <clause> <total>
 *     TOL   <family> <what> <n>                             (documented/tolerated deviations that were observed)
 *     SELFCHECK-FAIL <text>                                 (a defect of this harness, never of nunavut)
 *     DONE
 * Modes: list | grid <family> <seed> <thin 0/1> | rand <seed> <n> | single <family> <seed> k=v ... |
 *        f16sweep <start> <count> <stride> <seed> | asan-selftest
 */
#include <inttypes.h>
#include <math.h>
#include <stdarg.h>
#include <stdint.h>
#include <stdio.h>
#include <stdlib.h>
#include <string.h>

#ifdef C14_ASSERTS
#    include <assert.h>
#    define NUNAVUT_ASSERT(x) assert(x)
#endif

#ifdef C14_CPP
#    include <nunavut/support/serialization.hpp>
#else
#    include <nunavut/support/serialization.h>
#endif

#if defined(__has_feature)
#    if __has_feature(address_sanitizer)
#        define C14_ASAN 1
#    endif
#endif
#if defined(__SANITIZE_ADDRESS__) && !defined(C14_ASAN)
#    define C14_ASAN 1
#endif
#ifdef C14_ASAN
#    include <sanitizer/asan_interface.h>
#endif

/* ------------------------------------------------------------------------------------------------ infrastructure */
#define GUARD 32u
#define CAP 1200u

typedef struct
{
    uint8_t* mem;  /* GUARD | data[size] | GUARD */
    uint8_t* d;    /* == mem + GUARD, 8-byte aligned */
    size_t   size;
    uint8_t  orig[GUARD + CAP + GUARD];  /* snapshot of the whole region taken after filling */
} Buf;

static Buf      A, B, O;
static uint64_t g_seed = 1;

static void buf_init(Buf* b)
{
    b->mem = (uint8_t*) aligned_alloc(64, ((GUARD + CAP + GUARD + 63u) / 64u) * 64u);
    if (b->mem == NULL)
    {
        printf("SELFCHECK-FAIL out of memory\n");
        exit(3);
    }
    b->d    = b->mem + GUARD;
    b->size = 0;
}

static uint64_t mix64(uint64_t x)
{ /* splitmix64 finalizer */
    x += 0x9E3779B97F4A7C15ULL;
    x = (x ^ (x >> 30)) * 0xBF58476D1CE4E5B9ULL;
    x = (x ^ (x >> 27)) * 0x94D049BB133111EBULL;
    return x ^ (x >> 31);
}

/* content patterns: 0 = 00 (guards ff), 1 = ff (guards 00), 2 = a5/5a alternating (guards inverted), 3 = LCG */
static void buf_fill(Buf* b, size_t size, int pat, uint64_t seed)
{
    size_t   i;
    uint64_t x = mix64(seed ^ (g_seed * 0xD6E8FEB86659FD93ULL));
    if (size > CAP)
    {
        printf("SELFCHECK-FAIL buffer size %zu over capacity\n", size);
        exit(3);
    }
    b->size = size;
    for (i = 0; i < GUARD + size + GUARD; i++)
    {
        const int in = (i >= GUARD) && (i < GUARD + size);
        uint8_t   v;
        switch (pat)
        {
        case 0: v = in ? 0x00u : 0xFFu; break;
        case 1: v = in ? 0xFFu : 0x00u; break;
        case 2: v = (uint8_t) (((i & 1u) ? 0x5Au : 0xA5u) ^ (in ? 0x00u : 0xFFu)); break;
        default:
            x = x * 6364136223846793005ULL + 1442695040888963407ULL;
            v = (uint8_t) (x >> 56);
            break;
        }
        b->mem[i] = v;
    }
    memcpy(b->orig, b->mem, GUARD + size + GUARD);
}

static inline int rbit(const uint8_t* p, size_t i) { return (p[i >> 3] >> (i & 7u)) & 1; }
/* original (pre-call) bit i of the data area, 0 beyond the end (implicit zero extension) */
static inline int obit(const Buf* b, size_t i) { return (i < b->size * 8u) ? rbit(b->orig + GUARD, i) : 0; }
static inline int nbit(const Buf* b, size_t i) { return rbit(b->d, i); }

static int guards_ok(const Buf* b)
{
    return (memcmp(b->mem, b->orig, GUARD) == 0) &&
           (memcmp(b->d + b->size, b->orig + GUARD + b->size, GUARD) == 0);
}
static int data_intact(const Buf* b) { return memcmp(b->d, b->orig + GUARD, b->size) == 0; }

static void poison(const Buf* b)
{
#ifdef C14_ASAN
    ASAN_POISON_MEMORY_REGION(b->mem, GUARD);
    ASAN_POISON_MEMORY_REGION(b->d + b->size, GUARD);
#else
    (void) b;
#endif
}
static void unpoison(const Buf* b)
{
#ifdef C14_ASAN
    ASAN_UNPOISON_MEMORY_REGION(b->mem, GUARD + CAP + GUARD);
#else
    (void) b;
#endif
}
#define CALL1(b1, stmt) do { poison(b1); stmt; unpoison(b1); } while (0)
#define CALL2(b1, b2, stmt) do { poison(b1); poison(b2); stmt; unpoison(b1); unpoison(b2); } while (0)

/* ------------------------------------------------------------------------------------------------ parameters */
typedef struct
{
    const char* fam;
    uint64_t    so;    /* source / read offset, bits (or bits_at)   */
    uint64_t    dof;   /* destination / write offset, bits          */
    uint64_t    len;   /* length, bits                              */
    uint64_t    size;  /* (destination) buffer size, bytes          */
    uint64_t    ssize; /* source buffer size, bytes                 */
    uint64_t    pat;   /* content pattern of the (source) buffer    */
    uint64_t    dpat;  /* content pattern of the destination/output */
    uint64_t    n;     /* variant / alignment / width               */
    uint64_t    val;   /* value                                     */
} P;

static uint64_t pseed(const P* p, uint64_t salt)
{
    uint64_t h = salt;
    h = mix64(h ^ p->so);
    h = mix64(h ^ p->dof);
    h = mix64(h ^ p->len);
    h = mix64(h ^ p->size);
    h = mix64(h ^ p->ssize);
    h = mix64(h ^ p->n);
    return h;
}

typedef struct
{
    char     fam[32];
    char     clause[48];
    uint64_t count;
} FailRec;
static FailRec  g_fails[128];
static int      g_nfails    = 0;
static int      g_verbose   = 0; /* single mode: print every failure */
static uint64_t g_cases     = 0;
static uint64_t g_nontriv   = 0;
static uint64_t g_tolerated = 0;

static void hexbuf(char* out, size_t outsz, const uint8_t* p, size_t n)
{
    size_t i, k = 0;
    if (n > 40)
    {
        n = 40;
    }
    for (i = 0; i < n && k + 3 < outsz; i++)
    {
        k += (size_t) snprintf(out + k, outsz - k, "%02x", p[i]);
    }
    if (n == 0 && outsz > 1)
    {
        out[k++] = '-';
    }
    out[k] = 0;
}

static void failp(const P* p, const char* clause, const char* fmt, ...)
{
    int      i;
    FailRec* r = NULL;
    va_list  ap;
    for (i = 0; i < g_nfails; i++)
    {
        if (strcmp(g_fails[i].fam, p->fam) == 0 && strcmp(g_fails[i].clause, clause) == 0)
        {
            r = &g_fails[i];
            break;
        }
    }
    if (r == NULL)
    {
        if (g_nfails >= 128)
        {
            return;
        }
        r = &g_fails[g_nfails++];
        snprintf(r->fam, sizeof(r->fam), "%s", p->fam);
        snprintf(r->clause, sizeof(r->clause), "%s", clause);
        r->count = 0;
    }
    r->count++;
    if (r->count > 3 && !g_verbose)
    {
        return;
    }
    printf("FAIL %s so=%" PRIu64 " do=%" PRIu64 " len=%" PRIu64 " size=%" PRIu64 " ssize=%" PRIu64 " pat=%" PRIu64
           " dpat=%" PRIu64 " n=%" PRIu64 " val=0x%" PRIx64 " seed=%" PRIu64 " | %s | ",
           p->fam, p->so, p->dof, p->len, p->size, p->ssize, p->pat, p->dpat, p->n, p->val, g_seed, clause);
    va_start(ap, fmt);
    vprintf(fmt, ap);
    va_end(ap);
    printf("\n");
}

static void report_buf(const P* p, const char* clause, const Buf* b, size_t bitpos, const char* extra)
{
    char before[96], after[96];
    hexbuf(before, sizeof(before), b->orig + GUARD, b->size);
    hexbuf(after, sizeof(after), b->d, b->size);
    failp(p, clause, "first offending bit %zu; buffer before=%s after=%s %s", bitpos, before, after, extra);
}

static void count_case(int nontrivial)
{
    g_cases++;
    if (nontrivial)
    {
        g_nontriv++;
    }
}

static void check_guards(const P* p, const Buf* b, const char* which)
{
    if (!guards_ok(b))
    {
        failp(p, "guard-modified", "guard bytes around the %s buffer were written", which);
    }
}
static void check_source_intact(const P* p, const Buf* b)
{
    if (!data_intact(b))
    {
        report_buf(p, "source-modified", b, 0, "(read-only operand changed)");
    }
}

/* ------------------------------------------------------------------------------------------------ adapters
 * The only place where the implementation under test is called for the primitives common to C and C++.
 */
#define ERR_TOO_SMALL (-3)
#ifdef C14_CPP
using nunavut::support::bitspan;
using nunavut::support::bytespan;
using nunavut::support::const_bitspan;
static inline int vr(const nunavut::support::VoidResult& r) { return r.has_value() ? 0 : -static_cast<int>(r.error()); }
static inline void impl_copy(uint8_t* dst, size_t dsize, size_t dof, size_t len, const uint8_t* src, size_t ssize, size_t so)
{
    const_bitspan(src, ssize, so).copyTo(bitspan(dst, dsize, dof), len);
}
static inline void impl_getbits(uint8_t* out, const uint8_t* buf, size_t size, size_t off, size_t len)
{
    const_bitspan(buf, size, off).getBits(bytespan(out, (len + 7u) / 8u), len);
}
static inline size_t impl_saturate(size_t size, size_t off, size_t len)
{
    static const uint8_t dummy[1] = {0};
    return const_bitspan(dummy, size, off).saturateBufferFragmentBitLength(len); /* never dereferenced */
}
static inline int impl_setbit(uint8_t* buf, size_t size, size_t off, bool v) { return vr(bitspan(buf, size, off).setBit(v)); }
static inline bool impl_getbit(const uint8_t* buf, size_t size, size_t off) { return const_bitspan(buf, size, off).getBit(); }
static inline int impl_setu(uint8_t* buf, size_t size, size_t off, uint64_t v, uint8_t len) { return vr(bitspan(buf, size, off).setUxx(v, len)); }
static inline int impl_seti(uint8_t* buf, size_t size, size_t off, int64_t v, uint8_t len) { return vr(bitspan(buf, size, off).setIxx(v, len)); }
static inline uint64_t impl_getu(int w, const uint8_t* buf, size_t size, size_t off, uint8_t len)
{
    const_bitspan s(buf, size, off);
    switch (w)
    {
    case 8: return s.getU8(len);
    case 16: return s.getU16(len);
    case 32: return s.getU32(len);
    default: return s.getU64(len);
    }
}
static inline int64_t impl_geti(int w, const uint8_t* buf, size_t size, size_t off, uint8_t len)
{
    const_bitspan s(buf, size, off);
    switch (w)
    {
    case 8: return s.getI8(len);
    case 16: return s.getI16(len);
    case 32: return s.getI32(len);
    default: return s.getI64(len);
    }
}
static inline uint16_t impl_f16pack(float v) { return nunavut::support::float16Pack(v); }
static inline float impl_f16unpack(uint16_t h) { return nunavut::support::float16Unpack(h); }
static inline int impl_setf16(uint8_t* buf, size_t size, size_t off, float v) { return vr(bitspan(buf, size, off).setF16(v)); }
static inline int impl_setf32(uint8_t* buf, size_t size, size_t off, float v) { return vr(bitspan(buf, size, off).setF32(v)); }
static inline int impl_setf64(uint8_t* buf, size_t size, size_t off, double v) { return vr(bitspan(buf, size, off).setF64(v)); }
static inline float impl_getf16(const uint8_t* buf, size_t size, size_t off) { return const_bitspan(buf, size, off).getF16(); }
static inline float impl_getf32(const uint8_t* buf, size_t size, size_t off) { return const_bitspan(buf, size, off).getF32(); }
static inline double impl_getf64(const uint8_t* buf, size_t size, size_t off) { return const_bitspan(buf, size, off).getF64(); }
#else
static inline void impl_copy(uint8_t* dst, size_t dsize, size_t dof, size_t len, const uint8_t* src, size_t ssize, size_t so)
{
    (void) dsize;
    (void) ssize;
    nunavutCopyBits(dst, dof, len, src, so);
}
static inline void impl_getbits(uint8_t* out, const uint8_t* buf, size_t size, size_t off, size_t len)
{
    nunavutGetBits(out, buf, size, off, len);
}
static inline size_t impl_saturate(size_t size, size_t off, size_t len) { return nunavutSaturateBufferFragmentBitLength(size, off, len); }
static inline int impl_setbit(uint8_t* buf, size_t size, size_t off, bool v) { return (int) nunavutSetBit(buf, size, off, v); }
static inline bool impl_getbit(const uint8_t* buf, size_t size, size_t off) { return nunavutGetBit(buf, size, off); }
static inline int impl_setu(uint8_t* buf, size_t size, size_t off, uint64_t v, uint8_t len) { return (int) nunavutSetUxx(buf, size, off, v, len); }
static inline int impl_seti(uint8_t* buf, size_t size, size_t off, int64_t v, uint8_t len) { return (int) nunavutSetIxx(buf, size, off, v, len); }
static inline uint64_t impl_getu(int w, const uint8_t* buf, size_t size, size_t off, uint8_t len)
{
    switch (w)
    {
    case 8: return nunavutGetU8(buf, size, off, len);
    case 16: return nunavutGetU16(buf, size, off, len);
    case 32: return nunavutGetU32(buf, size, off, len);
    default: return nunavutGetU64(buf, size, off, len);
    }
}
static inline int64_t impl_geti(int w, const uint8_t* buf, size_t size, size_t off, uint8_t len)
{
    switch (w)
    {
    case 8: return nunavutGetI8(buf, size, off, len);
    case 16: return nunavutGetI16(buf, size, off, len);
    case 32: return nunavutGetI32(buf, size, off, len);
    default: return nunavutGetI64(buf, size, off, len);
    }
}
static inline uint16_t impl_f16pack(float v) { return nunavutFloat16Pack(v); }
static inline float impl_f16unpack(uint16_t h) { return nunavutFloat16Unpack(h); }
static inline int impl_setf16(uint8_t* buf, size_t size, size_t off, float v) { return (int) nunavutSetF16(buf, size, off, v); }
static inline int impl_setf32(uint8_t* buf, size_t size, size_t off, float v) { return (int) nunavutSetF32(buf, size, off, v); }
static inline int impl_setf64(uint8_t* buf, size_t size, size_t off, double v) { return (int) nunavutSetF64(buf, size, off, v); }
static inline float impl_getf16(const uint8_t* buf, size_t size, size_t off) { return nunavutGetF16(buf, size, off); }
static inline float impl_getf32(const uint8_t* buf, size_t size, size_t off) { return nunavutGetF32(buf, size, off); }
static inline double impl_getf64(const uint8_t* buf, size_t size, size_t off) { return nunavutGetF64(buf, size, off); }
#endif

/* ------------------------------------------------------------------------------------------------ tuple checks
 * Each t_<family>() executes ONE tuple against the implementation and compares with the bit-by-bit reference.
 * Returns 0 when the tuple is outside the documented domain (precondition not met), 1 otherwise.
 */
static int nt3(uint64_t a, uint64_t b, uint64_t c) { return ((a % 8u) != 0u) || ((b % 8u) != 0u) || ((c % 8u) != 0u); }

/* copy bits: dst[do .. do+len) := src[so .. so+len); documented precondition: both buffers large enough, no overlap.
 * Source buffer = exact fit ceil((so+len)/8) bytes; destination = p->size bytes. */
static int t_copyBits(const P* p)
{
    const size_t so = (size_t) p->so, dof = (size_t) p->dof, len = (size_t) p->len, dsize = (size_t) p->size;
    const size_t ssize = (so + len + 7u) / 8u;
    size_t       j;
    if ((dof + len > dsize * 8u) || (dsize > CAP) || (ssize > CAP))
    {
        return 0;
    }
    buf_fill(&A, ssize, (int) p->pat, pseed(p, 1));
    buf_fill(&B, dsize, (int) p->dpat, pseed(p, 2));
    CALL2(&A, &B, impl_copy(B.d, dsize, dof, len, A.d, ssize, so));
    count_case(nt3(so, dof, len));
    for (j = 0; j < dsize * 8u; j++)
    {
        const int in  = (j >= dof) && (j < dof + len);
        const int exp = in ? obit(&A, so + (j - dof)) : obit(&B, j);
        if (nbit(&B, j) != exp)
        {
            char src[96];
            hexbuf(src, sizeof(src), A.d, A.size);
            report_buf(p, in ? "addressed-bit-wrong" : "bit-outside-range-modified", &B, j, src);
            break;
        }
    }
    check_guards(p, &B, "destination");
    check_guards(p, &A, "source");
    check_source_intact(p, &A);
    return 1;
}

/* overlapping copy inside ONE buffer with byte-aligned offsets (documented: aligned copies go through memmove(); only
 * "overlap AND offsets not byte-aligned" is declared undefined).  src = base + so/8, dst = base + do/8, so%8 == do%8 == 0. */
static int t_copyBitsOverlap(const P* p)
{
    const size_t sb = (size_t) p->so / 8u, db = (size_t) p->dof / 8u, len = (size_t) p->len, size = (size_t) p->size;
    size_t       j;
    if ((p->so % 8u) || (p->dof % 8u) || (sb == db) || (sb * 8u + len > size * 8u) || (db * 8u + len > size * 8u) || size > CAP)
    {
        return 0;
    }
    buf_fill(&B, size, (int) p->pat, pseed(p, 3));
    CALL1(&B, impl_copy(B.d + db, size - db, 0, len, B.d + sb, size - sb, 0));
    count_case((len % 8u) != 0u);
    for (j = 0; j < size * 8u; j++)
    {
        const int in  = (j >= db * 8u) && (j < db * 8u + len);
        const int exp = in ? obit(&B, sb * 8u + (j - db * 8u)) : obit(&B, j);
        if (nbit(&B, j) != exp)
        {
            report_buf(p, in ? "addressed-bit-wrong" : "bit-outside-range-modified", &B, j, "(overlapping, byte-aligned)");
            break;
        }
    }
    check_guards(p, &B, "shared");
    return 1;
}

/* get bits: out[0..len) := buf[off..off+len) with zero extension past the end; documented: the output is right-zero-
 * padded up to the next byte boundary.  Output area = ceil(len/8) bytes followed by 2 bytes that must stay intact. */
static int t_getBits(const P* p)
{
    const size_t off = (size_t) p->so, len = (size_t) p->len, size = (size_t) p->size;
    const size_t obytes = (len + 7u) / 8u;
    size_t       j;
    if (size > CAP || obytes + 2u > CAP)
    {
        return 0;
    }
    buf_fill(&A, size, (int) p->pat, pseed(p, 4));
    buf_fill(&O, obytes + 2u, (int) p->dpat, pseed(p, 5));
    CALL2(&A, &O, impl_getbits(O.d, A.d, size, off, len));
    count_case(nt3(off, len, 0) || (off + len > size * 8u));
    for (j = 0; j < (obytes + 2u) * 8u; j++)
    {
        int         exp;
        const char* clause;
        if (j < len)
        {
            exp    = obit(&A, off + j);
            clause = (off + j >= size * 8u) ? "read-past-end-not-zero" : "addressed-bit-wrong";
        }
        else if (j < obytes * 8u)
        {
            exp    = 0;
            clause = "right-padding-not-zero";
        }
        else
        {
            exp    = obit(&O, j);
            clause = "bit-outside-range-modified";
        }
        if (nbit(&O, j) != exp)
        {
            char src[96];
            hexbuf(src, sizeof(src), A.d, A.size);
            report_buf(p, clause, &O, j, src);
            break;
        }
    }
    check_guards(p, &O, "output");
    check_guards(p, &A, "source");
    check_source_intact(p, &A);
    return 1;
}

/* saturate: number of bits of [off, off+len) that lie inside a buffer of `size` bytes */
static int t_saturate(const P* p)
{
    const size_t off = (size_t) p->so, len = (size_t) p->len, size = (size_t) p->size;
    size_t       exp = 0, i, got;
    for (i = 0; i < len; i++)
    {
        if (off + i < size * 8u)
        {
            exp++;
        }
    }
    got = impl_saturate(size, off, len);
    count_case(nt3(off, len, 0) || (off + len > size * 8u));
    if (got != exp)
    {
        failp(p, "value-wrong", "returned %zu, reference %zu", got, exp);
    }
    return 1;
}

static int t_setBit(const P* p)
{
    const size_t off = (size_t) p->dof, size = (size_t) p->size;
    const int    v   = (int) (p->val & 1u);
    const int    erc = (off >= size * 8u) ? ERR_TOO_SMALL : 0;
    int          rc  = 0;
    size_t       j;
    if (size > CAP)
    {
        return 0;
    }
    buf_fill(&B, size, (int) p->pat, pseed(p, 6));
    CALL1(&B, rc = impl_setbit(B.d, size, off, v != 0));
    count_case(((off % 8u) != 0u) || (erc != 0));
    if (rc != erc)
    {
        failp(p, "wrong-result-code", "returned %d, reference %d (size*8=%zu off=%zu)", rc, erc, size * 8u, off);
    }
    else
    {
        for (j = 0; j < size * 8u; j++)
        {
            const int in  = (erc == 0) && (j == off);
            const int exp = in ? v : obit(&B, j);
            if (nbit(&B, j) != exp)
            {
                report_buf(p, in ? "addressed-bit-wrong" : "bit-outside-range-modified", &B, j, "");
                break;
            }
        }
    }
    check_guards(p, &B, "destination");
    return 1;
}

static int t_getBit(const P* p)
{
    const size_t off = (size_t) p->so, size = (size_t) p->size;
    int          got = 0, exp;
    if (size > CAP)
    {
        return 0;
    }
    buf_fill(&A, size, (int) p->pat, pseed(p, 7));
    CALL1(&A, got = impl_getbit(A.d, size, off) ? 1 : 0);
    exp = obit(&A, off);
    count_case(((off % 8u) != 0u) || (off >= size * 8u));
    if (got != exp)
    {
        report_buf(p, (off >= size * 8u) ? "read-past-end-not-zero" : "value-wrong", &A, off, "");
    }
    check_source_intact(p, &A);
    return 1;
}

/* set unsigned / signed: n==0 unsigned, n==1 signed.  len is the uint8_t argument (0..255), saturated to 64 as
 * documented; BUFFER_TOO_SMALL exactly when size*8 < off+len (len as passed); on error nothing is written. */
static int t_setXxx(const P* p)
{
    const size_t off = (size_t) p->dof, len = (size_t) p->len, size = (size_t) p->size;
    const size_t sat = (len > 64u) ? 64u : len;
    const int    erc = (size * 8u < off + len) ? ERR_TOO_SMALL : 0;
    int          rc  = 0;
    size_t       j;
    if (size > CAP || len > 255u)
    {
        return 0;
    }
    buf_fill(&B, size, (int) p->pat, pseed(p, 8));
    if (p->n == 0)
    {
        CALL1(&B, rc = impl_setu(B.d, size, off, p->val, (uint8_t) len));
    }
    else
    {
        int64_t sv;
        memcpy(&sv, &p->val, sizeof(sv));
        CALL1(&B, rc = impl_seti(B.d, size, off, sv, (uint8_t) len));
    }
    count_case(nt3(off, len, 0) || (erc != 0));
    if (rc != erc)
    {
        failp(p, "wrong-result-code", "returned %d, reference %d (size*8=%zu off+len=%zu)", rc, erc, size * 8u, off + len);
    }
    else
    {
        for (j = 0; j < size * 8u; j++)
        {
            const int in  = (erc == 0) && (j >= off) && (j < off + sat);
            const int exp = in ? (int) ((p->val >> (j - off)) & 1u) : obit(&B, j);
            if (nbit(&B, j) != exp)
            {
                report_buf(p, in ? "addressed-bit-wrong" : "bit-outside-range-modified", &B, j, "");
                break;
            }
        }
    }
    check_guards(p, &B, "destination");
    return 1;
}

/* reference unsigned read of min(len, w) bits, one bit per iteration, zero past the end */
static uint64_t ref_getu(const Buf* b, size_t off, size_t sat)
{
    uint64_t v = 0;
    size_t   i;
    for (i = 0; i < sat; i++)
    {
        if (obit(b, off + i))
        {
            v |= ((uint64_t) 1u) << i;
        }
    }
    return v;
}

/* get unsigned: n = width (8,16,32,64) */
static int t_getU(const P* p)
{
    const size_t off = (size_t) p->so, len = (size_t) p->len, size = (size_t) p->size, w = (size_t) p->n;
    const size_t sat = (len > w) ? w : len;
    uint64_t     got = 0, exp, diff;
    size_t       i;
    if (size > CAP || len > 255u || !(w == 8 || w == 16 || w == 32 || w == 64))
    {
        return 0;
    }
    buf_fill(&A, size, (int) p->pat, pseed(p, 9));
    CALL1(&A, got = impl_getu((int) w, A.d, size, off, (uint8_t) len));
    exp = ref_getu(&A, off, sat);
    count_case(nt3(off, len, 0) || (off + sat > size * 8u));
    diff = got ^ exp;
    if (diff != 0)
    {
        const char* clause = "read-past-end-not-zero";
        for (i = 0; i < 64; i++)
        {
            if ((diff >> i) & 1u)
            {
                if (i >= sat)
                {
                    clause = "bits-above-length-set";
                    break;
                }
                if (off + i < size * 8u)
                {
                    clause = "value-wrong";
                    break;
                }
            }
        }
        {
            char src[96];
            hexbuf(src, sizeof(src), A.d, A.size);
            failp(p, clause, "returned 0x%" PRIx64 ", reference 0x%" PRIx64 "; buffer=%s", got, exp, src);
        }
    }
    check_source_intact(p, &A);
    return 1;
}

/* get signed: n = width.  len==1 is documented as unspecified and skipped; len==0 returns 0. */
static int t_getI(const P* p)
{
    const size_t off = (size_t) p->so, len = (size_t) p->len, size = (size_t) p->size, w = (size_t) p->n;
    const size_t sat = (len > w) ? w : len;
    int64_t      got = 0, exp;
    uint64_t     u;
    if (size > CAP || len > 255u || len == 1u || !(w == 8 || w == 16 || w == 32 || w == 64))
    {
        return 0;
    }
    buf_fill(&A, size, (int) p->pat, pseed(p, 10));
    CALL1(&A, got = impl_geti((int) w, A.d, size, off, (uint8_t) len));
    u = ref_getu(&A, off, sat);
    if (sat > 0 && obit(&A, off + sat - 1u))
    { /* negative: two's complement sign extension to 64 bits, one bit per iteration */
        size_t i;
        for (i = sat; i < 64; i++)
        {
            u |= ((uint64_t) 1u) << i;
        }
    }
    memcpy(&exp, &u, sizeof(exp));
    count_case(nt3(off, len, 0) || (off + sat > size * 8u));
    if (got != exp)
    {
        uint64_t    gu;
        const char* clause;
        char        src[96];
        memcpy(&gu, &got, sizeof(gu));
        if (sat < 64 && ((gu ^ u) & ((((uint64_t) 1u) << sat) - 1u)) == 0)
        {
            clause = "sign-extension-wrong";
        }
        else
        {
            clause = (off + sat > size * 8u) ? "read-past-end-not-zero" : "value-wrong";
        }
        hexbuf(src, sizeof(src), A.d, A.size);
        failp(p, clause, "returned %" PRId64 ", reference %" PRId64 "; buffer=%s", got, exp, src);
    }
    check_source_intact(p, &A);
    return 1;
}
