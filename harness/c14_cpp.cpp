// C14 harness, C++ flavour: the oracle, the grids and the driver are shared with the C harness (c14_c.c); with C14_CPP
// defined every call goes to nunavut::support::bitspan / const_bitspan members of the GENERATED serialization.hpp
// (include path given on the compiler command line) and the bitspan-only families are enabled
// (setZeros, padAndMoveToAlignment, subspan, subspan(bits_at,size), subspan_limited_to, accessors, copyTo clamping).
#define C14_CPP 1
#include "c14_c.c"
