"""
C14 harness, Python flavour: drives Serializer / Deserializer / ZeroExtendingBuffer of the GENERATED nunavut_support.py
(directory given on the command line) over a thinned deterministic grid and compares with a bit-by-bit reference that
lives in this file (lists of 0/1, one bit per list element; no code shared with the implementation).

    c14_py.py <support_dir> grid <shard> <nshards> <seed>
    c14_py.py <support_dir> single '<json case>'

Line protocol (stdout), same as the C harness:
    COUNT <family> <cases> <nontrivial>
    FAIL <family> <json case> | <clause> | <detail>        (first few per family and clause)
    FAILS <family> <clause> <total>
    EXCL <family> numpy2-overflow <n>      (OverflowError from python-int + NumPy-2 scalar arithmetic: unmet environment
                                            assumption -- generated code documents numpy~=1.24 -- counted, not judged)
    DONE

Serializer model: a Serializer only ever appends to a zero-initialised buffer.  Every case is
    new(exact-fit size) ; prefix of `o` bits (content pp) ; THE OPERATION ; [snapshot 1] ; one 1 bit ; skip 15 bits ; [snapshot 2]
and `buffer` must equal   prefix | field | zero padding to the byte   at snapshot 1 and   prefix | field | 1 | zeros   at
snapshot 2, current_bit_length the number of bits: the earlier bits are untouched, exactly the field's bits are written,
nothing is left behind in the bits that later writes OR into, the next write lands right behind the field.
Deserializer model: data bytes (pattern, size) ; skip_bits(o) ; THE OPERATION ; one trailing fetch_unaligned_bit.
Bits past the end read as zero; consumed/remaining_bit_length are checked.
"""
from __future__ import annotations

import collections
import json
import math
import struct
import sys

MASK64 = (1 << 64) - 1


def mix64(x: int) -> int:
    x = (x + 0x9E3779B97F4A7C15) & MASK64
    x = ((x ^ (x >> 30)) * 0xBF58476D1CE4E5B9) & MASK64
    x = ((x ^ (x >> 27)) * 0x94D049BB133111EB) & MASK64
    return x ^ (x >> 31)


def pattern_bytes(pat: int, n: int, salt: int) -> bytes:
    if pat == 0:
        return bytes(n)
    if pat == 1:
        return bytes([0xFF]) * n
    if pat == 2:
        return bytes(0x5A if i & 1 else 0xA5 for i in range(n))
    out = bytearray()
    x = mix64(salt ^ (pat << 40))
    for _ in range(n):
        x = (x * 6364136223846793005 + 1442695040888963407) & MASK64
        out.append(x >> 56)
    return bytes(out)


def bits_of_bytes(b: bytes):
    return [(byte >> j) & 1 for byte in b for j in range(8)]


def bits_of_int(v: int, n: int):
    return [(v >> i) & 1 for i in range(n)]  # two's complement for negative v (Python's >> is arithmetic)


def bytes_of_bits(bits) -> bytes:
    out = bytearray((len(bits) + 7) // 8)
    for i, b in enumerate(bits):
        if b:
            out[i >> 3] |= 1 << (i & 7)
    return bytes(out)


def int_of_bits(bits) -> int:
    v = 0
    for i, b in enumerate(bits):
        if b:
            v |= 1 << i
    return v


def signed_of_bits(bits) -> int:
    v = int_of_bits(bits)
    return v - (1 << len(bits)) if bits and bits[-1] else v


# ------------------------------------------------------------------------------------------------ binary16 reference
def half_value(code: int) -> float:
    """exact value of a finite non-negative half magnitude code"""
    e, m = code >> 10, code & 0x3FF
    return math.ldexp(m, -24) if e == 0 else math.ldexp(m | 0x400, e - 25)


HVAL = [half_value(k) for k in range(0x7C00)] + [math.inf]


def half_floor(x: float) -> int:
    lo, hi = 0, 0x7C00
    while hi - lo > 1:
        mid = (lo + hi) // 2
        if HVAL[mid] <= x:
            lo = mid
        else:
            hi = mid
    return lo


def half_verdict(x: float, code16: int):
    """None if code16 is an acceptable binary16 conversion of the double x, else the violated clause"""
    mag = code16 & 0x7FFF
    if x != x:
        return None if (mag & 0x7C00) == 0x7C00 and (mag & 0x3FF) else "nan-not-preserved"
    if (code16 >> 15) != (1 if math.copysign(1.0, x) < 0 else 0):
        return "sign-not-preserved"
    a = abs(x)
    if a == math.inf:
        return None if mag == 0x7C00 else "infinity-not-preserved"
    if a >= 65520.0:
        return None if mag == 0x7C00 else "out-of-range-not-infinity"
    k = half_floor(a)
    if HVAL[k] == a:
        return None if mag == k else "representable-value-changed"
    return None if mag in (k, k + 1) else "not-faithful"


def half_decode(code16: int):
    """(value, is_nan)"""
    mag = code16 & 0x7FFF
    sign = -1.0 if code16 & 0x8000 else 1.0
    if (mag & 0x7C00) == 0x7C00:
        if mag & 0x3FF:
            return math.nan, True
        return sign * math.inf, False
    return math.copysign(HVAL[mag], sign), False


# ------------------------------------------------------------------------------------------------ bookkeeping
class Book:
    def __init__(self):
        self.cases = collections.Counter()
        self.nontrivial = collections.Counter()
        self.fails = collections.Counter()
        self.excl = collections.Counter()
        self.verbose = False

    def count(self, fam, nontrivial):
        self.cases[fam] += 1
        if nontrivial:
            self.nontrivial[fam] += 1

    def fail(self, case, clause, detail):
        fam = case["fam"]
        self.fails[(fam, clause)] += 1
        if self.fails[(fam, clause)] <= 3 or self.verbose:
            print(f"FAIL {fam} {json.dumps(case, sort_keys=True)} | {clause} | {detail}")

    def flush(self):
        for fam in sorted(self.cases):
            print(f"COUNT {fam} {self.cases[fam]} {self.nontrivial[fam]}")
        for (fam, clause), n in sorted(self.fails.items()):
            print(f"FAILS {fam} {clause} {n}")
        for fam, n in sorted(self.excl.items()):
            print(f"EXCL {fam} numpy2-overflow {n}")
        print("DONE")


BOOK = Book()


def is_numpy2_overflow(e: BaseException) -> bool:
    s = str(e)
    return isinstance(e, OverflowError) and ("out of bounds for" in s or "too large to convert" in s)


# ------------------------------------------------------------------------------------------------ operations
DTYPES = {"u8": ("uint8", 8), "u16": ("uint16", 16), "u32": ("uint32", 32), "u64": ("uint64", 64), "i8": ("int8", 8),
          "i16": ("int16", 16), "i32": ("int32", 32), "i64": ("int64", 64), "f16": ("float16", 16), "f32": ("float32", 32),
          "f64": ("float64", 64)}
FMT = {16: "<e", 32: "<f", 64: "<d"}


def np_array(numpy, dt: str, raw):
    """array of dtype dt whose elements have the raw bit patterns `raw` (little-endian platform asserted by the module)"""
    name, w = DTYPES[dt]
    b = b"".join(int(r).to_bytes(w // 8, "little") for r in raw)
    return numpy.frombuffer(b, dtype=getattr(numpy, name)).copy()


def float_from_raw(w: int, raw: int) -> float:
    if w == 16:
        return half_decode(raw)[0]
    return struct.unpack(FMT[w], raw.to_bytes(w // 8, "little"))[0]


def ser_op(numpy, a: dict):
    """-> (callable(ser), expected field bits or a verdict callable(field_bits)->clause|None, field bit count)"""
    op = a["op"]
    if op in ("unaligned_unsigned", "aligned_unsigned"):
        v, n = a["v"], a["len"]
        return (lambda s: getattr(s, "add_" + op)(v, n)), bits_of_int(v, n), n
    if op in ("unaligned_signed", "aligned_signed"):
        v, n = a["v"], a["len"]
        return (lambda s: getattr(s, "add_" + op)(v, n)), bits_of_int(v, n), n
    if op in ("aligned_u8", "aligned_u16", "aligned_u32", "aligned_u64", "aligned_i8", "aligned_i16", "aligned_i32", "aligned_i64"):
        n = int(op[9:])
        v = a["v"]
        return (lambda s: getattr(s, "add_" + op)(v)), bits_of_int(v, n), n
    if op in ("aligned_f16", "aligned_f32", "aligned_f64", "unaligned_f16", "unaligned_f32", "unaligned_f64"):
        w = int(op[-2:])
        x = float_from_raw(a.get("srcw", w), a["raw"])  # the argument is a Python float (double)
        if w == 16:
            return (lambda s: getattr(s, "add_" + op)(x)), (lambda fb: half_verdict(x, int_of_bits(fb))), 16
        if x != x:
            nanmask = (0x7F800000, 0x007FFFFF) if w == 32 else (0x7FF0 << 48, (1 << 52) - 1)
            return (lambda s: getattr(s, "add_" + op)(x)), (
                lambda fb: None if (int_of_bits(fb) & nanmask[0]) == nanmask[0] and (int_of_bits(fb) & nanmask[1]) else "nan-not-preserved"), w
        if w == 32:
            # double -> float32: the documented behaviour is "truncate to infinity when out of range", otherwise the
            # platform's (IEEE, round-to-nearest) narrowing conversion, which struct also implements: only exactly
            # representable doubles are used here so that no rounding rule needs to be assumed
            exp = a["raw"] if a.get("srcw", 32) == 32 else None
            if exp is None:
                exp = int.from_bytes(struct.pack("<f", x), "little") if abs(x) <= 3.4028234663852886e38 else (0x7F800000 | (0x80000000 if x < 0 else 0))
            return (lambda s: getattr(s, "add_" + op)(x)), bits_of_int(exp, 32), 32
        return (lambda s: getattr(s, "add_" + op)(x)), bits_of_int(a["raw"], 64), 64
    if op == "unaligned_bit":
        v = a["v"]
        return (lambda s: s.add_unaligned_bit(bool(v))), [1 if v else 0], 1
    if op in ("unaligned_bytes", "aligned_bytes"):
        data = bytes(a["bytes"])
        arr = numpy.frombuffer(data, dtype=numpy.uint8)
        return (lambda s: getattr(s, "add_" + op)(arr)), bits_of_bytes(data), len(data) * 8
    if op in ("unaligned_array_of_bits", "aligned_array_of_bits"):
        bits = a["bits"]
        arr = numpy.array(bits, dtype=bool)
        return (lambda s: getattr(s, "add_" + op)(arr)), list(bits), len(bits)
    if op in ("unaligned_array_std", "aligned_array_std"):
        dt, raw = a["dt"], a["raw"]
        w = DTYPES[dt][1]
        arr = np_array(numpy, dt, raw)
        meth = "add_" + op.split("_")[0] + "_array_of_standard_bit_length_primitives"
        exp = []
        for r in raw:
            exp += bits_of_int(r, w)
        return (lambda s: getattr(s, meth)(arr)), exp, len(exp)
    if op == "skip_bits":
        n = a["len"]
        return (lambda s: s.skip_bits(n)), [0] * n, n
    if op == "pad_to_alignment":
        al = a["n"]
        pad = 0
        while (a["o"] + pad) % al:
            pad += 1
        return (lambda s: s.pad_to_alignment(al)), [0] * pad, pad
    raise KeyError(op)


def prefix_bits(pp: int, o: int, salt: int):
    if pp == 0:
        return [0] * o
    if pp == 1:
        return [1] * o
    return bits_of_bytes(pattern_bytes(3, 2, salt))[:o]


def run_ser(ns, case: dict):
    numpy = ns["numpy"]
    a = case
    fam = a["fam"]
    o, pp = a["o"], a["pp"]
    op, field, nbits = ser_op(numpy, a)
    pre = prefix_bits(pp, o, a.get("salt", 0))
    total = o + nbits + 16
    ser = ns["Serializer"].new((total + 7) // 8)
    nontrivial = (o % 8 != 0) or (nbits % 8 != 0)
    try:
        if pp == 0:
            ser.skip_bits(o)  # zero prefix without writing
        else:
            for b in pre:
                ser.add_unaligned_bit(bool(b))
        op(ser)
        mid_len = ser.current_bit_length
        mid = bytes(ser.buffer.tobytes())  # snapshot 1: right after the operation
        ser.add_unaligned_bit(True)
        ser.skip_bits(15)
        got = bytes(ser.buffer.tobytes())  # snapshot 2: after a 1 bit and 15 skipped bits (shows stray bits further out)
        got_len = ser.current_bit_length
    except Exception as e:  # pylint: disable=broad-except
        if is_numpy2_overflow(e):
            BOOK.excl[fam] += 1
            return
        BOOK.count(fam, nontrivial)
        BOOK.fail(case, "raised-" + type(e).__name__, f"{type(e).__name__}: {e}")
        return
    BOOK.count(fam, nontrivial)
    if mid_len != o + nbits or got_len != total:
        BOOK.fail(case, "bit-length-wrong", f"current_bit_length {mid_len} after the operation / {got_len} at the end, reference {o + nbits} / {total}")
        return
    if len(mid) != (o + nbits + 7) // 8 or len(got) != (total + 7) // 8:
        BOOK.fail(case, "buffer-size-wrong", f"buffer has {len(mid)} / {len(got)} bytes for {o + nbits} / {total} bits")
        return
    gb = bits_of_bytes(got)
    fb = gb[o : o + nbits]
    if callable(field):
        clause = field(fb)
        exp_field = fb
    else:
        clause = None if fb == field else "addressed-bit-wrong"
        exp_field = field
    exp = pre + list(exp_field)
    exp_mid = exp + [0] * (len(mid) * 8 - len(exp))
    exp = exp + [1] + [0] * (len(gb) - len(exp) - 1)
    if gb[:o] != exp[:o]:
        clause = "earlier-bit-modified"
    elif clause is None and (gb[o + nbits :] != exp[o + nbits :] or bits_of_bytes(mid) != exp_mid):
        clause = "later-bit-wrong"
    if clause:
        BOOK.fail(case, clause,
                  f"buffer after the operation {mid.hex() or '-'} (reference {bytes_of_bits(exp_mid).hex() or '-'}), after a further 1 bit and 15 skipped "
                  f"bits {got.hex()} (reference {bytes_of_bits(exp).hex()}); prefix {o} bits, field {nbits} bits")


def des_op(numpy, a: dict, ref_bits):
    """-> (callable(des)->value, expected value, consumed bits, comparator)"""
    op = a["op"]
    o = a["o"]

    def rb(n):  # n reference bits from the offset, zero past the end
        return [ref_bits[o + i] if o + i < len(ref_bits) else 0 for i in range(n)]

    same = lambda g, e: g == e and type(g) is type(e)  # noqa: E731
    if op in ("unaligned_unsigned", "aligned_unsigned"):
        n = a["len"]
        return (lambda d: getattr(d, "fetch_" + op)(n)), int_of_bits(rb(n)), n, same
    if op in ("unaligned_signed", "aligned_signed"):
        n = a["len"]
        return (lambda d: getattr(d, "fetch_" + op)(n)), signed_of_bits(rb(n)), n, same
    if op in ("aligned_u8", "aligned_u16", "aligned_u32", "aligned_u64"):
        n = int(op[9:])
        return (lambda d: getattr(d, "fetch_" + op)()), int_of_bits(rb(n)), n, same
    if op in ("aligned_i8", "aligned_i16", "aligned_i32", "aligned_i64"):
        n = int(op[9:])
        return (lambda d: getattr(d, "fetch_" + op)()), signed_of_bits(rb(n)), n, same
    if op in ("aligned_f16", "aligned_f32", "aligned_f64", "unaligned_f16", "unaligned_f32", "unaligned_f64"):
        w = int(op[-2:])
        raw = int_of_bits(rb(w))
        exp = float_from_raw(w, raw)

        def feq(g, e):
            if not isinstance(g, float):
                return False
            if e != e:
                return g != g
            return struct.pack("<d", g) == struct.pack("<d", e)

        return (lambda d: getattr(d, "fetch_" + op)()), exp, w, feq
    if op == "unaligned_bit":
        return (lambda d: d.fetch_unaligned_bit()), bool(rb(1)[0]), 1, same
    if op in ("unaligned_bytes", "aligned_bytes"):
        n = a["len"]
        exp = bytes_of_bits(rb(n * 8))
        return (lambda d: getattr(d, "fetch_" + op)(n)), exp, n * 8, (lambda g, e: g.dtype == numpy.uint8 and g.tobytes() == e)
    if op in ("unaligned_array_of_bits", "aligned_array_of_bits"):
        n = a["len"]
        exp = rb(n)
        return (lambda d: getattr(d, "fetch_" + op)(n)), exp, n, (lambda g, e: g.dtype == numpy.bool_ and [int(x) for x in g] == e)
    if op in ("unaligned_array_std", "aligned_array_std"):
        dt, n = a["dt"], a["len"]
        name, w = DTYPES[dt]
        meth = "fetch_" + op.split("_")[0] + "_array_of_standard_bit_length_primitives"
        exp = bytes_of_bits(rb(n * w))
        return (lambda d: getattr(d, meth)(getattr(numpy, name), n)), exp, n * w, (
            lambda g, e: g.dtype == numpy.dtype(name) and len(g) == n and g.tobytes() == e)
    if op == "skip_bits":
        n = a["len"]
        return (lambda d: d.skip_bits(n)), None, n, same
    if op == "pad_to_alignment":
        al = a["n"]
        pad = 0
        while (o + pad) % al:
            pad += 1
        return (lambda d: d.pad_to_alignment(al)), None, pad, same
    raise KeyError(op)


def run_des(ns, case: dict):
    numpy = ns["numpy"]
    a = case
    fam = a["fam"]
    o = a["o"]
    data = pattern_bytes(a["pat"], a["size"], a.get("salt", 0))
    ref = bits_of_bytes(data)
    op, exp, nbits, eq = des_op(numpy, a, ref)
    nontrivial = (o % 8 != 0) or (nbits % 8 != 0) or (o + nbits > len(ref))
    cut = a.get("cut")
    frags = [memoryview(data)] if cut is None else [memoryview(data[:cut]), memoryview(data[cut:])]
    try:
        des = ns["Deserializer"].new(frags)
        des.skip_bits(o)
        got = op(des)
        consumed, remaining = des.consumed_bit_length, des.remaining_bit_length
        nxt = des.fetch_unaligned_bit()
    except Exception as e:  # pylint: disable=broad-except
        if is_numpy2_overflow(e):
            BOOK.excl[fam] += 1
            return
        BOOK.count(fam, nontrivial)
        BOOK.fail(case, "raised-" + type(e).__name__, f"{type(e).__name__}: {e}")
        return
    BOOK.count(fam, nontrivial)
    past = o + nbits > len(ref)
    if not eq(got, exp):
        shown = got.tolist() if hasattr(got, "tolist") else got
        BOOK.fail(case, "read-past-end-wrong" if past else "value-wrong", f"data {data.hex() or '-'} offset {o}: got {shown!r}, reference {exp!r}")
        return
    if consumed != o + nbits or remaining != len(ref) - consumed:
        BOOK.fail(case, "bit-length-wrong", f"consumed {consumed} remaining {remaining}, reference {o + nbits} / {len(ref) - o - nbits}")
        return
    enx = bool(ref[o + nbits]) if o + nbits < len(ref) else False
    if nxt is not enx:
        BOOK.fail(case, "next-bit-wrong", f"bit after the field read as {nxt!r}, reference {enx!r}")


def run_zeb(ns, case: dict):
    numpy = ns["numpy"]
    a = case
    data = pattern_bytes(a["pat"], a["size"], a.get("salt", 0))
    cut = a.get("cut")
    frags = [memoryview(data)] if cut is None else [memoryview(data[:cut]), memoryview(data[cut:])]
    zb = ns["ZeroExtendingBuffer"](frags)
    left, right = a["l"], a["r"]
    BOOK.count(a["fam"], right > len(data))
    try:
        if zb.bit_length != len(data) * 8:
            BOOK.fail(case, "bit-length-wrong", f"bit_length {zb.bit_length} for {len(data)} bytes")
        if a["op"] == "get_byte":
            got = zb.get_byte(left)
            exp = data[left] if left < len(data) else 0
            if got != exp or not isinstance(got, int):
                BOOK.fail(case, "read-past-end-wrong" if left >= len(data) else "value-wrong", f"get_byte({left}) = {got!r}, reference {exp}")
        else:
            got = zb.get_unsigned_slice(left, right)
            exp = bytes(data[i] if i < len(data) else 0 for i in range(left, right))
            if got.dtype != numpy.uint8 or got.tobytes() != exp:
                BOOK.fail(case, "read-past-end-wrong" if right > len(data) else "value-wrong",
                          f"get_unsigned_slice({left},{right}) = {got.tobytes().hex()}, reference {exp.hex()}")
            elif right > len(data):
                # the caller owns what it was handed: scribbling over it (where it is writable) must not change what any
                # later read beyond the end of ANY buffer yields ("read bits beyond the buffer end as zero")
                try:
                    got.fill(0xFF)
                except (ValueError, TypeError):
                    pass
                for buf in (zb, ns["ZeroExtendingBuffer"]([memoryview(b"\x5a")])):
                    again = buf.get_unsigned_slice(len(data) + 1, len(data) + 1 + max(1, right - left))
                    if any(again.tobytes()):
                        BOOK.fail(case, "read-past-end-not-zero-after-caller-wrote-to-an-earlier-result",
                                  f"after writing 0xff into the array returned by get_unsigned_slice({left},{right}), a read beyond the end returns {again.tobytes().hex()}")
                        break
    except Exception as e:  # pylint: disable=broad-except
        BOOK.fail(case, "raised-" + type(e).__name__, f"{type(e).__name__}: {e}")


def run_half(ns, case: dict):
    """all 2^16 half codes through add_aligned_f16 / fetch_aligned_f16 (exact), and doubles around the rounding points"""
    a = case
    fam = a["fam"]
    try:
        if a["op"] == "roundtrip":
            h = a["raw"]
            x, nan = half_decode(h)
            des = ns["Deserializer"].new([memoryview(h.to_bytes(2, "little"))])
            got = des.fetch_aligned_f16()
            BOOK.count(fam, (h & 0x7C00) in (0, 0x7C00))
            if (got != got) != nan or (not nan and struct.pack("<d", got) != struct.pack("<d", x)):
                BOOK.fail(case, "nan-not-preserved" if nan else "value-wrong", f"half 0x{h:04x} fetched as {got!r}, exact value {x!r}")
                return
            ser = ns["Serializer"].new(2)
            ser.add_aligned_f16(got)
            back = int.from_bytes(ser.buffer.tobytes(), "little")
            if nan:
                if not ((back & 0x7C00) == 0x7C00 and back & 0x3FF):
                    BOOK.fail(case, "nan-not-preserved", f"NaN half 0x{h:04x} written back as 0x{back:04x}")
            elif back != h:
                BOOK.fail(case, "round-trip-changed", f"half 0x{h:04x} -> {got!r} -> 0x{back:04x}")
        else:
            x = struct.unpack("<d", a["raw"].to_bytes(8, "little"))[0]
            ser = ns["Serializer"].new(3)
            if a["o"]:
                ser.skip_bits(a["o"])
                ser.add_unaligned_f16(x)
                back = int_of_bits(bits_of_bytes(ser.buffer.tobytes())[a["o"] : a["o"] + 16])
            else:
                ser.add_aligned_f16(x)
                back = int.from_bytes(ser.buffer.tobytes(), "little")
            BOOK.count(fam, True)
            clause = half_verdict(x, back)
            if clause:
                BOOK.fail(case, clause, f"double {x!r} stored as half 0x{back:04x}")
    except Exception as e:  # pylint: disable=broad-except
        if is_numpy2_overflow(e):
            BOOK.excl[fam] += 1
            return
        BOOK.fail(case, "raised-" + type(e).__name__, f"{type(e).__name__}: {e}")


RUNNERS = {"ser": run_ser, "des": run_des, "zeb": run_zeb, "f16": run_half}


def run_case(ns, case: dict):
    RUNNERS[case["fam"].split(".")[0]](ns, case)


# ------------------------------------------------------------------------------------------------ the thinned grid
LENS = list(range(1, 41)) + [47, 48, 49, 56, 63, 64]
F32_RAW = [0x00000000, 0x80000000, 0x00000001, 0x00800000, 0x3F800000, 0xBFC00000, 0x7F7FFFFF, 0xFF7FFFFF, 0x7F800000, 0xFF800000,
           0x7FC00000, 0x40490FDB, 0x322BCC77]
F64_RAW = [0x0000000000000000, 0x8000000000000000, 0x0000000000000001, 0x0010000000000000, 0x3FF0000000000000, 0xBFF8000000000000,
           0x7FEFFFFFFFFFFFFF, 0x7FF0000000000000, 0xFFF0000000000000, 0x7FF8000000000000, 0x400921FB54442D18]
F16_RAW = [0x0000, 0x8000, 0x0001, 0x03FF, 0x0400, 0x3C00, 0xBE00, 0x7BFF, 0xFBFF, 0x7C00, 0xFC00, 0x7E00, 0x3555]


def unsigned_values(n: int, salt: int):
    full = (1 << n) - 1
    return [0, full, 0xAAAAAAAAAAAAAAAA & full, 0x5555555555555555 & full, mix64(salt) & full, (mix64(salt ^ 7) & full) | (1 << (n - 1)),
            mix64(salt ^ 9) | (1 << 70)]  # the last one exceeds the range: documented "implicitly truncate"


def signed_values(n: int, salt: int):
    lo, hi = -(1 << (n - 1)), (1 << (n - 1)) - 1
    r = mix64(salt) & ((1 << n) - 1)
    return [0, -1, lo, hi, r - (1 << n) if r >> (n - 1) else r, lo // 3]


def grid(seed: int):
    """deterministic enumeration of all cases (dicts)"""
    for o in range(16):
        for pp in range(3):
            salt = mix64(seed * 1000003 + o * 31 + pp)
            base = {"o": o, "pp": pp, "salt": salt}
            for n in LENS:
                for v in unsigned_values(n, salt ^ n):
                    yield dict(base, fam="ser.unaligned_unsigned", op="unaligned_unsigned", len=n, v=v)
                    if o % 8 == 0:
                        yield dict(base, fam="ser.aligned_unsigned", op="aligned_unsigned", len=n, v=v)
                if n >= 2:
                    for v in signed_values(n, salt ^ n):
                        yield dict(base, fam="ser.unaligned_signed", op="unaligned_signed", len=n, v=v)
                        if o % 8 == 0:
                            yield dict(base, fam="ser.aligned_signed", op="aligned_signed", len=n, v=v)
            if o % 8 == 0:
                for w in (8, 16, 32, 64):
                    for v in unsigned_values(w, salt ^ w)[:6]:
                        yield dict(base, fam=f"ser.aligned_u{w}", op=f"aligned_u{w}", v=v)
                    yield dict(base, fam=f"ser.aligned_u{w}", op=f"aligned_u{w}", v=unsigned_values(w, salt)[6] & ((1 << 72) - 1))
                    for v in signed_values(w, salt ^ w):
                        yield dict(base, fam=f"ser.aligned_i{w}", op=f"aligned_i{w}", v=v)
            for al in ("aligned", "unaligned"):
                if al == "aligned" and o % 8:
                    continue
                for raw in F16_RAW:
                    yield dict(base, fam=f"ser.{al}_f16", op=f"{al}_f16", raw=raw)
                for raw in F32_RAW + [mix64(salt ^ k) & 0xFFFFFFFF for k in range(4)]:
                    yield dict(base, fam=f"ser.{al}_f32", op=f"{al}_f32", raw=raw)
                    yield dict(base, fam=f"ser.{al}_f16", op=f"{al}_f16", raw=raw, srcw=32)
                for raw in F64_RAW + [mix64(salt ^ k) for k in range(4)]:
                    yield dict(base, fam=f"ser.{al}_f64", op=f"{al}_f64", raw=raw)
                for nb in range(0, 6):
                    for pat in (1, 2, 3):
                        yield dict(base, fam=f"ser.{al}_bytes", op=f"{al}_bytes", bytes=list(pattern_bytes(pat, nb, salt)))
                for cnt in list(range(0, 20)) + [31, 32, 33, 40]:
                    for pat in (1, 3):
                        yield dict(base, fam=f"ser.{al}_array_of_bits", op=f"{al}_array_of_bits", bits=bits_of_bytes(pattern_bytes(pat, 5, salt ^ cnt))[:cnt])
                for dt, (_, w) in sorted(DTYPES.items()):
                    for cnt in (0, 1, 3):
                        raws = [mix64(salt ^ (k * 77 + w)) & ((1 << w) - 1) for k in range(cnt)]
                        yield dict(base, fam=f"ser.{al}_array_std", op=f"{al}_array_std", dt=dt, raw=raws)
            for v in (0, 1):
                yield dict(base, fam="ser.unaligned_bit", op="unaligned_bit", v=v)
            for n in (0, 1, 7, 8, 13):
                yield dict(base, fam="ser.skip_bits", op="skip_bits", len=n)
            for al in (8, 16, 32, 64):
                yield dict(base, fam="ser.pad_to_alignment", op="pad_to_alignment", n=al)
    # deserializer: offsets 0..15 (and beyond the end through small sizes), sizes 0..9, patterns, optional fragmentation
    for size in range(0, 10):
        for pat, cut in ((1, None), (2, None), (3, None), (4, size // 2)):
            for o in range(16):
                salt = mix64(seed * 7919 + size * 131 + pat)
                base = {"o": o, "size": size, "pat": pat, "salt": salt, "cut": cut}
                for n in LENS:
                    yield dict(base, fam="des.unaligned_unsigned", op="unaligned_unsigned", len=n)
                    if n >= 2:
                        yield dict(base, fam="des.unaligned_signed", op="unaligned_signed", len=n)
                    if o % 8 == 0:
                        yield dict(base, fam="des.aligned_unsigned", op="aligned_unsigned", len=n)
                        if n >= 2:
                            yield dict(base, fam="des.aligned_signed", op="aligned_signed", len=n)
                for w in (8, 16, 32, 64):
                    if o % 8 == 0:
                        yield dict(base, fam=f"des.aligned_u{w}", op=f"aligned_u{w}")
                        yield dict(base, fam=f"des.aligned_i{w}", op=f"aligned_i{w}")
                for al in ("aligned", "unaligned"):
                    if al == "aligned" and o % 8:
                        continue
                    for w in (16, 32, 64):
                        yield dict(base, fam=f"des.{al}_f{w}", op=f"{al}_f{w}")
                    for nb in range(0, 6):
                        yield dict(base, fam=f"des.{al}_bytes", op=f"{al}_bytes", len=nb)
                    for cnt in list(range(0, 20)) + [31, 32, 33, 40]:
                        yield dict(base, fam=f"des.{al}_array_of_bits", op=f"{al}_array_of_bits", len=cnt)
                    for dt in sorted(DTYPES):
                        for cnt in (0, 1, 3):
                            yield dict(base, fam=f"des.{al}_array_std", op=f"{al}_array_std", dt=dt, len=cnt)
                yield dict(base, fam="des.unaligned_bit", op="unaligned_bit")
                for n in (0, 1, 7, 8, 13):
                    yield dict(base, fam="des.skip_bits", op="skip_bits", len=n)
                for al in (8, 16, 32, 64):
                    yield dict(base, fam="des.pad_to_alignment", op="pad_to_alignment", n=al)
            for left in range(0, size + 4):
                base = {"size": size, "pat": pat, "salt": mix64(seed + size), "cut": cut}
                yield dict(base, fam="zeb.get_byte", op="get_byte", l=left, r=left + 1)
                for right in range(left, size + 5):
                    yield dict(base, fam="zeb.get_unsigned_slice", op="slice", l=left, r=right)
    # binary16: every code exactly; doubles at and next to every 16th value / midpoint / the overflow threshold
    for h in range(0x10000):
        yield {"fam": "f16.roundtrip", "op": "roundtrip", "raw": h}
    pts = []
    for k in list(range(0, 0x7C00, 16)) + [1, 2, 0x3FF, 0x400, 0x7BFE, 0x7BFF]:
        hi = 65536.0 if k == 0x7BFF else HVAL[k + 1]
        for c in (HVAL[k], (HVAL[k] + hi) / 2):
            pts += [c, math.nextafter(c, math.inf), math.nextafter(c, 0.0) if c > 0 else 0.0]
    pts += [65519.99999, 65520.0, 65536.0, 1e5, 1e300, math.inf, math.nan, 5e-324, 2.0 ** -26]
    for i, c in enumerate(pts):
        for sgn in (1.0, -1.0):
            raw = int.from_bytes(struct.pack("<d", math.copysign(c, sgn) if c == c else c), "little")
            yield {"fam": "f16.from_double", "op": "from_double", "raw": raw, "o": 0 if i % 3 else 5}


def load_support(support_dir: str):
    sys.path.insert(0, support_dir)
    import numpy  # pylint: disable=import-outside-toplevel
    import nunavut_support as s  # pylint: disable=import-outside-toplevel,import-error

    return {"numpy": numpy, "Serializer": s.Serializer, "Deserializer": s.Deserializer, "ZeroExtendingBuffer": s.ZeroExtendingBuffer}


def main(argv):
    ns = load_support(argv[1])
    if argv[2] == "grid":
        shard, nshards, seed = int(argv[3]), int(argv[4]), int(argv[5])
        for i, case in enumerate(grid(seed)):
            if i % nshards == shard:
                run_case(ns, case)
    elif argv[2] == "single":
        BOOK.verbose = True
        run_case(ns, json.loads(argv[3]))
    else:
        print("bad arguments", file=sys.stderr)
        return 2
    BOOK.flush()
    return 0


if __name__ == "__main__":
    sys.exit(main(sys.argv))
