"""
C18 driver: exercises the data-object contract of a generated Python package in a fresh interpreter.

usage: c18_driver.py <plan.json> <generated output dir>          (one JSON result line per op, in order)

plan = {"types": [node...], "tops": [top...], "dsdl_roots": [dir...], "ops": [op...]}
  node = {"k":"bool"} | {"k":"int"|"uint","bits":n} | {"k":"float","bits":n} | {"k":"farr","n":k,"e":node}
       | {"k":"varr","cap":k,"e":node} | {"k":"ref","ti":i}                       (reference into plan["types"])
       | {"k":"struct"|"union","module":..,"path":[..],"fields":[[dsdl_name, python_attr, node],...], "id":[full,major,minor]}
  top  = {"module","path","id":[full_name,major,minor],"pkg":package module,"alias":"Name_M"}
  op   = {"op":"assign","ti":i,"fi":j,"base":neutral,"cand":cand}
       | {"op":"useq","ti":i,"ctor":[[fi,cand]...],"steps":[[fi,cand]...]}
       | {"op":"model","scope":"type"|"top","i":idx}
       | {"op":"builtin","ti":i,"value":neutral,"dest":neutral|None}
  cand = {"c":"int","v":n} | {"c":"bool","v":b} | {"c":"float","v":x} | {"c":"np","dt":dtype,"v":x} | {"c":"none"}
       | {"c":"str","v":s} | {"c":"bytes"|"bytearray"|"memoryview","h":hex} | {"c":"list"|"tuple","v":[cand...]}
       | {"c":"nparr","dt":dtype,"v":[...],"shape":[..]?} | {"c":"obj","ti":i,"v":neutral} | {"c":"objarr","v":[cand(obj)...]}
       | {"c":"dict"}
neutral values: bool/int/float, lists, {field: value} for structures, {option: value} for unions (JSON floats incl. NaN/Infinity).

`model_dump` is shared with the check process (which applies it to the freshly parsed model).
Only the generated package, numpy and pydsdl are importable besides the standard library.
"""
import importlib
import json
import os
import sys
import traceback


# ------------------------------------------------------------------------------------------ canonical model dump (shared)
def _cast(t):
    return t.cast_mode.name


def type_dump(t):
    import pydsdl

    if isinstance(t, pydsdl.VoidType):
        return ["void", t.bit_length]
    if isinstance(t, pydsdl.BooleanType):
        return ["bool", t.bit_length, _cast(t)]
    if isinstance(t, pydsdl.UTF8Type):
        return ["utf8", t.bit_length, _cast(t)]
    if isinstance(t, pydsdl.ByteType):
        return ["byte", t.bit_length, _cast(t)]
    if isinstance(t, pydsdl.UnsignedIntegerType):
        return ["uint", t.bit_length, _cast(t), str(t.inclusive_value_range.min), str(t.inclusive_value_range.max)]
    if isinstance(t, pydsdl.SignedIntegerType):
        return ["int", t.bit_length, _cast(t), str(t.inclusive_value_range.min), str(t.inclusive_value_range.max)]
    if isinstance(t, pydsdl.FloatType):
        return ["float", t.bit_length, _cast(t), str(t.inclusive_value_range.min), str(t.inclusive_value_range.max)]
    if isinstance(t, pydsdl.FixedLengthArrayType):
        return ["farr", t.capacity, type_dump(t.element_type)]
    if isinstance(t, pydsdl.VariableLengthArrayType):
        return ["varr", t.capacity, type_dump(t.element_type), t.length_field_type.bit_length]
    if isinstance(t, pydsdl.CompositeType):
        return ["ref", _head(t)]
    return ["unknown", repr(t)]


def _bls(t):
    try:
        b = t.bit_length_set
        return [int(b.min), int(b.max), bool(b.fixed_length), bool(b.is_aligned_at_byte())]
    except TypeError:
        return None


def _head(t):
    import pydsdl

    out = {"class": type(t).__name__, "full_name": t.full_name, "version": [int(t.version.major), int(t.version.minor)], "bit_length_set": _bls(t)}
    if not isinstance(t, pydsdl.ServiceType):
        out["extent"] = int(t.extent)
        out["alignment_requirement"] = int(t.alignment_requirement)
    if isinstance(t, pydsdl.DelimitedType):
        out["inner"] = {"class": type(t.inner_type).__name__, "extent": int(t.inner_type.extent), "bit_length_set": _bls(t.inner_type),
                        "delimiter_header_bits": t.delimiter_header_type.bit_length}
    return out


def _const_value(v):
    nv = getattr(v, "native_value", v)
    return [type(v).__name__, str(nv)]


def model_dump(t):
    """Canonical structural description of a pydsdl composite type (JSON-able)."""
    import pydsdl

    out = {
        "head": _head(t),
        "deprecated": bool(t.deprecated),
        "fixed_port_id": t.fixed_port_id,
        "has_fixed_port_id": bool(t.has_fixed_port_id),
        "has_parent_service": bool(t.has_parent_service),
        "source_file": os.path.basename(str(t.source_file_path)),
        "doc": t.doc,
        "name_components": list(t.name_components),
    }
    if isinstance(t, pydsdl.ServiceType):
        out["request"] = model_dump(t.request_type)
        out["response"] = model_dump(t.response_type)
        return out
    it = t.inner_type
    out["inner_class"] = type(it).__name__
    if isinstance(it, pydsdl.UnionType):
        out["union"] = [it.number_of_variants, it.tag_field_type.bit_length]
    attrs = []
    for a in t.attributes:
        kind = "padding" if isinstance(a, pydsdl.PaddingField) else "const" if isinstance(a, pydsdl.Constant) else "field"
        rec = {"kind": kind, "name": a.name, "type": type_dump(a.data_type), "doc": a.doc}
        if kind == "const":
            rec["value"] = _const_value(a.value)
        attrs.append(rec)
    out["attributes"] = attrs
    out["fields"] = [f.name for f in t.fields]
    out["fields_except_padding"] = [f.name for f in t.fields_except_padding]
    out["constants"] = [c.name for c in t.constants]
    try:
        out["offsets"] = [[f.name, int(o.min), int(o.max)] for f, o in t.iterate_fields_with_offsets()]
    except Exception as e:  # unions: offsets are not defined that way
        out["offsets"] = type(e).__name__
    return out


# ------------------------------------------------------------------------------------------------------------ driver side
PLAN = {}
_CLS = {}


def resolve(module, path):
    key = (module, tuple(path))
    if key not in _CLS:
        obj = importlib.import_module(module)
        for p in path:
            obj = getattr(obj, p)
        _CLS[key] = obj
    return _CLS[key]


def node_of(n):
    return PLAIN_TYPES[n["ti"]] if n["k"] == "ref" else n


PLAIN_TYPES = []


def cls_of(node):
    node = node_of(node)
    return resolve(node["module"], node["path"])


def build(node, v):
    """neutral value -> object graph"""
    node = node_of(node)
    k = node["k"]
    if k in ("bool", "int", "uint", "float"):
        return v
    if k in ("farr", "varr"):
        return [build(node["e"], e) for e in v]
    cls = cls_of(node)
    if k == "union":
        (name, val), = v.items()
        for dname, attr, sub in node["fields"]:
            if dname == name:
                return cls(**{attr: build(sub, val)})
        raise KeyError(name)
    return cls(**{attr: build(sub, v[dname]) for dname, attr, sub in node["fields"]})


def npdt(name):
    import numpy as np

    return np.bool_ if name == "bool" else getattr(np, name)


def mat(c):
    """candidate -> python object"""
    import numpy as np

    k = c["c"]
    if k in ("int", "bool", "float", "str"):
        return c["v"]
    if k == "none":
        return None
    if k == "np":
        return npdt(c["dt"])(c["v"])
    if k == "bytes":
        return bytes.fromhex(c["h"])
    if k == "bytearray":
        return bytearray.fromhex(c["h"])
    if k == "memoryview":
        mv = memoryview(bytes.fromhex(c["h"]))
        if c.get("fmt"):
            return mv.cast(c["fmt"])
        if c.get("shape"):
            return mv.cast("B", c["shape"])
        return mv
    if k == "list":
        return [mat(e) for e in c["v"]]
    if k == "tuple":
        return tuple(mat(e) for e in c["v"])
    if k == "nparr":
        a = np.array(c["v"], dtype=npdt(c["dt"]))
        if c.get("shape"):
            a = a.reshape(c["shape"])
        return a
    if k == "obj":
        return build(PLAIN_TYPES[c["ti"]], c["v"])
    if k == "objarr":
        objs = [mat(e) for e in c["v"]]
        a = np.empty(len(objs), dtype=np.object_)
        for i, o in enumerate(objs):
            a[i] = o
        return a
    if k == "dict":
        return {}
    raise ValueError("bad candidate " + repr(c))


_BY_CLASS = {}


def enc(x, depth=0):
    """observed python value -> JSON description"""
    import numpy as np

    if x is None:
        return None
    if isinstance(x, bool):
        return {"t": "bool", "v": x}
    if isinstance(x, int):
        return {"t": "int", "v": x}
    if isinstance(x, float):
        return {"t": "float", "v": x}
    if isinstance(x, np.ndarray):
        out = {"t": "nd", "dt": str(x.dtype), "nd": int(x.ndim), "n": int(x.size)}
        flat = x.reshape(-1) if x.ndim != 1 else x
        if x.dtype == np.object_:
            out["v"] = [enc(e, depth + 1) for e in flat]
        elif x.dtype == np.bool_:
            out["v"] = [bool(e) for e in flat]
        elif x.dtype.kind in "iu":
            out["v"] = [int(e) for e in flat]
        elif x.dtype.kind == "f":
            out["v"] = [float(e) for e in flat]
        else:
            out["v"] = [repr(e)[:40] for e in flat]
        return out
    if isinstance(x, np.generic):
        v = x.item()
        return {"t": "np." + type(x).__name__, "v": v if isinstance(v, (bool, int, float)) else repr(v)[:40]}
    node = _BY_CLASS.get(type(x))
    if node is not None and depth < 8:
        return {"t": "obj", "ti": node["_ti"], "f": {dname: enc(getattr(x, attr), depth + 1) for dname, attr, _ in node["fields"]}}
    return {"t": "other", "type": type(x).__name__, "r": repr(x)[:60]}


def state(node, obj):
    return {dname: enc(getattr(obj, attr)) for dname, attr, _ in node["fields"]}


def exc_of(e):
    return [type(e).__name__, str(e)[:240].replace("\n", " ")]


def ser_hex(obj):
    import nunavut_support

    try:
        return b"".join(bytes(x) for x in nunavut_support.serialize(obj)).hex()
    except Exception as e:
        return {"exc": exc_of(e)}


def safe_repr(obj):
    try:
        return repr(obj)[:300]
    except Exception as e:
        return {"exc": exc_of(e)}


# ------------------------------------------------------------------------------------------------------------------- ops
def op_assign(op):
    node = PLAIN_TYPES[op["ti"]]
    cls = cls_of(node)
    dname, attr, fnode = node["fields"][op["fi"]]
    out = {}
    # setter on an object holding a valid base value
    if node["k"] == "union":
        obj = build(node, op["base"]) if op.get("base") is not None else cls()
    else:
        obj = cls(**{attr: build(fnode, op["base"])}) if op.get("base") is not None else cls()
    before = state(node, obj)
    try:
        setattr(obj, attr, mat(op["cand"]))
        exc = None
    except Exception as e:
        exc = exc_of(e)
    out["setter"] = {"exc": exc, "before": before, "after": state(node, obj)}
    # constructor
    try:
        obj2 = cls(**{attr: mat(op["cand"])})
        out["ctor"] = {"exc": None, "after": state(node, obj2)}
    except Exception as e:
        out["ctor"] = {"exc": exc_of(e)}
    return out


def op_useq(op):
    node = PLAIN_TYPES[op["ti"]]
    cls = cls_of(node)
    kw = {}
    for fi, cand in op["ctor"]:
        kw[node["fields"][fi][1]] = mat(cand)
    try:
        obj = cls(**kw)
    except Exception as e:
        return {"ctor_exc": exc_of(e), "steps": []}
    out = {"ctor_exc": None, "state": state(node, obj), "repr": safe_repr(obj), "steps": []}
    for fi, cand in op["steps"]:
        attr = node["fields"][fi][1]
        try:
            setattr(obj, attr, mat(cand))
            exc = None
        except Exception as e:
            exc = exc_of(e)
        out["steps"].append({"exc": exc, "state": state(node, obj), "repr": safe_repr(obj)})
    return out


_FRESH = None


def fresh_models():
    """(full_name, major, minor) -> freshly parsed model (services also expose their halves)."""
    global _FRESH
    if _FRESH is None:
        import pydsdl

        _FRESH = {}
        roots = PLAN["dsdl_roots"]
        for i, r in enumerate(roots):
            for t in pydsdl.read_namespace(r, roots[:i], allow_unregulated_fixed_port_id=True):
                _FRESH[(t.full_name, t.version.major, t.version.minor)] = t
                if isinstance(t, pydsdl.ServiceType):
                    for h in (t.request_type, t.response_type):
                        _FRESH[(h.full_name, h.version.major, h.version.minor)] = h
    return _FRESH


def _attempt(fn):
    try:
        return fn()
    except Exception as e:
        return {"exc": exc_of(e)}


def op_model(op):
    import nunavut_support as ns
    import pydsdl

    if op["scope"] == "top":
        top = PLAN["tops"][op["i"]]
        cls = resolve(top["module"], top["path"])
        ident = tuple(top["id"])
        node = None
    else:
        node = PLAIN_TYPES[op["ti"]]
        cls = cls_of(node)
        ident = tuple(node["id"])
        top = None
    m = cls._MODEL_
    out = {"dump": model_dump(m), "model_class": type(m).__name__}
    out["get_model_cls_is"] = _attempt(lambda: ns.get_model(cls) is m)
    out["get_class_is"] = _attempt(lambda: ns.get_class(m) is cls)
    fresh = fresh_models().get(ident)
    out["fresh_found"] = fresh is not None
    if fresh is not None:
        out["eq_fresh"] = _attempt(lambda: bool(m == fresh) and bool(fresh == m))
        out["get_class_fresh_is"] = _attempt(lambda: ns.get_class(fresh) is cls)
        if isinstance(fresh, pydsdl.DelimitedType):
            out["get_class_inner_is"] = _attempt(lambda: ns.get_class(fresh.inner_type) is cls)
    out["extent_bytes"] = _attempt(lambda: ns.get_extent_bytes(cls)) if not isinstance(m, pydsdl.ServiceType) else None
    out["fixed_port_id_attr"] = getattr(cls, "_FIXED_PORT_ID_", None)
    out["get_fixed_port_id"] = _attempt(lambda: ns.get_fixed_port_id(cls))
    out["is_serializable"] = bool(ns.is_serializable(cls))
    out["is_message_type"] = bool(ns.is_message_type(cls))
    out["is_service_type"] = bool(ns.is_service_type(cls))
    if top is not None:
        pkg = importlib.import_module(top["pkg"])
        al = getattr(pkg, top["alias"], None)
        out["alias"] = None if al is None else [al.__module__, al.__qualname__]
        out["reexport_is"] = getattr(pkg, top["path"][0], None) is cls
    if node is not None:
        obj = _attempt(cls)
        if isinstance(obj, dict):
            out["default_ctor"] = obj
        else:
            out["get_model_obj_is"] = _attempt(lambda: ns.get_model(obj) is m)
            out["default_state"] = state(node, obj)
            out["repr"] = safe_repr(obj)
            attrs = []
            for dname, attr, _ in node["fields"]:
                def probe():
                    direct = getattr(obj, attr)
                    via = ns.get_attribute(obj, dname)
                    same = via is direct
                    if direct is not None:
                        ns.set_attribute(obj, dname, direct)
                        same = same and (getattr(obj, attr) is direct or getattr(obj, attr) == direct)
                    return bool(same)

                attrs.append([dname, _attempt(probe)])
            out["attrs"] = attrs
            # constants are class attributes too
            consts = []
            for c in m.constants:
                consts.append([c.name, _attempt(lambda: enc(ns.get_attribute(cls, c.name)))])
            out["consts"] = consts
    return out


_BUILTIN_TYPES = (dict, list, bool, int, float, str)


def bad_types(b, out, path=""):
    if type(b) not in _BUILTIN_TYPES:
        out.append([path, type(b).__name__])
    elif type(b) is dict:
        for k, v in b.items():
            if type(k) is not str:
                out.append([path + "/<key>", type(k).__name__])
            bad_types(v, out, path + "/" + str(k))
    elif type(b) is list:
        for i, v in enumerate(b[:400]):
            bad_types(v, out, path + "/#")
    return out


def op_builtin(op):
    import nunavut_support as ns

    node = PLAIN_TYPES[op["ti"]]
    cls = cls_of(node)
    obj = build(node, op["value"])
    out = {"ser0": ser_hex(obj), "repr": safe_repr(obj)}
    try:
        b = ns.to_builtin(obj)
    except Exception as e:
        out["to_builtin_exc"] = exc_of(e)
        return out
    out["bad_types"] = bad_types(b, [])[:5]
    try:
        text = json.dumps(b)
        out["json_exc"] = None
    except Exception as e:
        text = None
        out["json_exc"] = exc_of(e)
    out["builtin"] = json.loads(text) if text is not None else None
    out["builtin_repr"] = repr(b)[:400]

    def trip(dest, src):
        o2 = ns.update_from_builtin(dest, src)
        if o2 is not dest:
            return {"exc": ["NotSameObject", "update_from_builtin did not return the destination"]}
        r = {"ser": ser_hex(o2)}
        try:
            r["builtin"] = json.loads(json.dumps(ns.to_builtin(o2)))
        except Exception as e:
            r["builtin"] = {"exc": exc_of(e)}
        return r

    out["direct"] = _attempt(lambda: trip(cls(), b))
    if text is not None:
        out["json"] = _attempt(lambda: trip(cls(), json.loads(text)))
    if op.get("dest") is not None:
        out["other"] = _attempt(lambda: trip(build(node, op["dest"]), b))
    # the source form must not have been modified by the update
    try:
        out["source_unmodified"] = json.dumps(b) == text if text is not None else True
    except Exception:
        out["source_unmodified"] = False
    return out


OPS = {"assign": op_assign, "useq": op_useq, "model": op_model, "builtin": op_builtin}


def main():
    import warnings

    warnings.simplefilter("ignore")
    global PLAN
    PLAN = json.load(open(sys.argv[1]))
    sys.path.insert(0, sys.argv[2])
    PLAIN_TYPES.extend(PLAN["types"])
    try:
        import numpy as np  # noqa: F401
        import nunavut_support  # noqa: F401

        for i, n in enumerate(PLAIN_TYPES):
            n["_ti"] = i
            _BY_CLASS[cls_of(n)] = n
    except Exception as e:
        print(json.dumps({"fatal": exc_of(e), "tb": traceback.format_exc()[-1500:]}))
        return 3
    out = sys.stdout
    for op in PLAN["ops"]:
        try:
            res = OPS[op["op"]](op)
        except Exception as e:  # one line per op, always
            res = {"err": exc_of(e), "tb": traceback.format_exc()[-800:]}
        out.write(json.dumps(res) + "\n")
    out.flush()
    return 0


if __name__ == "__main__":
    sys.exit(main())
