// Bounded variable-length array container whose capacity is a TEMPLATE ARGUMENT: exercises the {MAX_SIZE} placeholder of the
// C++ option `variable_array_type_template` (e.g. "vf::fixedvec<{TYPE}, {MAX_SIZE}>").  Storage for exactly N elements; adding
// an element to a full container is a bug of the caller and aborts with a message (the generated codecs check the length prefix
// against the DSDL capacity first, so with the right N they never get there).
#ifndef VF_FIXEDVEC_HPP
#define VF_FIXEDVEC_HPP
#include <cstddef>
#include <cstdio>
#include <cstdlib>
#include <utility>
#include <vector>
namespace vf
{
template <typename T, std::size_t N>
class fixedvec final
{
    std::vector<T> impl_;
    void           room() const
    {
        if (impl_.size() >= N)
        {
            std::fprintf(stderr, "ERROR: vf: element added to a full fixedvec (capacity %zu taken from {MAX_SIZE})\n", N);
            std::abort();
        }
    }

public:
    using value_type      = T;
    using reference       = typename std::vector<T>::reference;
    using const_reference = typename std::vector<T>::const_reference;
    static constexpr std::size_t static_capacity = N;
    fixedvec()                           = default;
    fixedvec(const fixedvec&)            = default;
    fixedvec(fixedvec&&)                 = default;
    fixedvec& operator=(const fixedvec&) = default;
    fixedvec& operator=(fixedvec&&)      = default;
    std::size_t     size() const { return impl_.size(); }
    std::size_t     max_size() const { return N; }
    void            reserve(std::size_t n) { impl_.reserve(n < N ? n : N); }
    void            clear() { impl_.clear(); }
    void            push_back(const T& v) { room(); impl_.push_back(v); }
    void            push_back(T&& v) { room(); impl_.push_back(std::move(v)); }
    void            emplace_back() { room(); impl_.emplace_back(); }
    reference       back() { return impl_.back(); }
    reference       operator[](std::size_t i) { return impl_[i]; }
    const_reference operator[](std::size_t i) const { return impl_[i]; }
    bool            operator==(const fixedvec& o) const { return impl_ == o.impl_; }
};
}  // namespace vf
#endif
