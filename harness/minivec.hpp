// Minimal variable-length array container used to exercise the `variable_array_type_template` option of the C++ target.
// Deliberately a distinct type from std::vector with only the members the generated code is documented to need.
#ifndef VF_MINIVEC_HPP
#define VF_MINIVEC_HPP
#include <cstddef>
#include <utility>
#include <vector>
namespace vf
{
template <typename T>
class minivec final
{
    std::vector<T> impl_;

public:
    using value_type      = T;
    using reference       = typename std::vector<T>::reference;
    using const_reference = typename std::vector<T>::const_reference;
    minivec()                          = default;
    minivec(const minivec&)            = default;
    minivec(minivec&&)                 = default;
    minivec& operator=(const minivec&) = default;
    minivec& operator=(minivec&&)      = default;
    std::size_t     size() const { return impl_.size(); }
    void            reserve(std::size_t n) { impl_.reserve(n); }
    void            clear() { impl_.clear(); }
    void            push_back(const T& v) { impl_.push_back(v); }
    void            push_back(T&& v) { impl_.push_back(std::move(v)); }
    void            emplace_back() { impl_.emplace_back(); }
    reference       back() { return impl_.back(); }
    reference       operator[](std::size_t i) { return impl_[i]; }
    const_reference operator[](std::size_t i) const { return impl_[i]; }
    bool            operator==(const minivec& o) const { return impl_ == o.impl_; }
};
}  // namespace vf
#endif
