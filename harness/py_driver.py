"""
Generic driver for generated Python packages (codec lab, same line protocol as the C / C++ harnesses).

usage: py_driver.py <schema.json> <generated output dir> [commands file]
schema.json: {"types": [node, ...]} with
  node = {"k":"bool"} | {"k":"int"|"uint","bits":n} | {"k":"float","bits":n}
       | {"k":"farr","n":k,"e":node} | {"k":"varr","cap":k,"e":node,"bytes":bool}
       | {"k":"struct"|"union","module":"ns.sub.Foo_1_0","path":["Foo_1_0", "Request"?],"fields":[[attr_name, node],...]}
Only the generated package, numpy and pydsdl are importable besides the standard library.
"""
import importlib
import json
import struct
import sys

M64 = (1 << 64) - 1


def w2d(w):
    return struct.unpack("<d", struct.pack("<Q", w & M64))[0]


def d2w(x):
    return struct.unpack("<Q", struct.pack("<d", float(x)))[0]


def hex_words(h):
    if h == "-" or not h:
        return []
    b = bytes.fromhex(h)
    return [struct.unpack_from("<Q", b, i)[0] for i in range(0, len(b), 8)]


def words_hex(ws):
    return b"".join(struct.pack("<Q", w & M64) for w in ws).hex() or "-"


_CLS = {}


def cls_of(node):
    key = (node["module"], tuple(node["path"]))
    if key not in _CLS:
        obj = importlib.import_module(node["module"])
        for p in node["path"]:
            obj = getattr(obj, p)
        _CLS[key] = obj
    return _CLS[key]


def build(node, ws, pos):
    k = node["k"]
    if k == "bool":
        return bool(ws[pos]), pos + 1
    if k == "float":
        return w2d(ws[pos]), pos + 1
    if k == "int":
        w = ws[pos]
        return (w - (1 << 64) if w >> 63 else w), pos + 1
    if k == "uint":
        return ws[pos], pos + 1
    if k in ("farr", "varr"):
        n = node["n"] if k == "farr" else ws[pos]
        if k == "varr":
            pos += 1
        out = []
        for _ in range(n):
            e, pos = build(node["e"], ws, pos)
            out.append(e)
        return out, pos
    cls = cls_of(node)
    if k == "union":
        tag = ws[pos]
        pos += 1
        name, sub = node["fields"][tag]
        v, pos = build(sub, ws, pos)
        return cls(**{name: v}), pos
    kw = {}
    for name, sub in node["fields"]:
        kw[name], pos = build(sub, ws, pos)
    return cls(**kw), pos


def flat(node, v, out):
    k = node["k"]
    if k == "bool":
        out.append(1 if v else 0)
    elif k == "float":
        out.append(d2w(v))
    elif k in ("int", "uint"):
        out.append(int(v) & M64)
    elif k in ("farr", "varr"):
        if k == "varr":
            out.append(len(v))
        for e in v:
            flat(node["e"], e, out)
    elif k == "union":
        active = [(i, name) for i, (name, _) in enumerate(node["fields"]) if getattr(v, name) is not None]
        if len(active) != 1:
            raise RuntimeError("union object holds %d options" % len(active))
        i, name = active[0]
        out.append(i)
        flat(node["fields"][i][1], getattr(v, name), out)
    else:
        for name, sub in node["fields"]:
            flat(sub, getattr(v, name), out)


def scribble(node, v):
    """
    The caller owns a decoded object: overwrite every array it holds IN PLACE (all bits set) after its value has been reported.
    Whatever a later decode yields must not depend on that (arrays handed out must not alias state that outlives the call).
    """
    k = node["k"]
    if k in ("farr", "varr"):
        if node["e"]["k"] in ("bool", "int", "uint", "float"):
            try:
                if hasattr(v, "fill"):
                    v.fill(1 if node["e"]["k"] == "bool" else -1 if node["e"]["k"] == "int" else 255 if node["e"]["k"] == "uint" else 1.0)
            except (ValueError, TypeError, OverflowError):  # read-only view, or a dtype that refuses the value: nothing to scribble
                pass
        else:
            for e in v:
                scribble(node["e"], e)
    elif k == "union":
        for name, sub in node["fields"]:
            x = getattr(v, name)
            if x is not None:
                scribble(sub, x)
    elif k == "struct":
        for name, sub in node["fields"]:
            scribble(sub, getattr(v, name))


def main():
    schema = json.load(open(sys.argv[1]))["types"]
    sys.path.insert(0, sys.argv[2])
    import nunavut_support

    f = open(sys.argv[3]) if len(sys.argv) > 3 else sys.stdin
    for line in f:
        tok = line.split()
        if not tok:
            continue
        try:
            ti = int(tok[1])
            node = schema[ti]
            if tok[0] == "S":
                try:
                    obj, _ = build(node, hex_words(tok[4]), 0)
                except ValueError as e:
                    print("S -2 0 -", "ValueError-at-construction", str(e)[:80].replace("\n", " "))
                    continue
                frags = nunavut_support.serialize(obj)
                data = b"".join(bytes(x) for x in frags)
                print("S 0 %d %s" % (len(data), data.hex() or "-"))
            elif tok[0] == "D":
                data = b"" if tok[4] == "-" else bytes.fromhex(tok[4])
                obj = nunavut_support.deserialize(cls_of(node), [memoryview(data)])
                if obj is None:
                    print("D -1 0 -")
                else:
                    out = []
                    flat(node, obj, out)
                    print("D 0 0 %s" % words_hex(out))
                    scribble(node, obj)
            elif tok[0] == "M":
                cls = cls_of(node)
                out = ["M", "extent=%d" % cls._EXTENT_BYTES_]
                out.append("fixed_port_id=%d" % cls._FIXED_PORT_ID_ if hasattr(cls, "_FIXED_PORT_ID_") else "fixed_port_id=none")
                if len(node["path"]) == 2:  # request / response: what the enclosing SERVICE class exports
                    svc = getattr(importlib.import_module(node["module"]), node["path"][0])
                    out.append("svc.fixed_port_id=%d" % svc._FIXED_PORT_ID_ if hasattr(svc, "_FIXED_PORT_ID_") else "svc.fixed_port_id=none")
                for name, pyname, kind in node.get("consts", []):
                    v = getattr(cls, pyname)
                    if kind == "b":
                        out.append("const.%s=b:%d" % (name, 1 if v is True else (0 if v is False else 99)))
                    elif kind == "f":
                        out.append("const.%s=f:%s" % (name, float(v).hex()))
                    else:
                        out.append("const.%s=%s:%d" % (name, kind, v))
                print(" ".join(out))
            else:
                print("H bad command")
        except Exception as e:  # one line per command, always
            print("E %s %s" % (type(e).__name__, str(e)[:200].replace("\n", " ")))
        sys.stdout.flush()


if __name__ == "__main__":
    main()
