// Stand-in for CETL's "cetl/pf17/sys/memory_resource.hpp" (the real library is not available offline).
// Provides exactly what Nunavut's `cetl++14-17` language standard names in its options: an allocator template
// `cetl::pf17::pmr::polymorphic_allocator<T>` that is NOT default constructible (allocator_is_default_constructible:
// false) and satisfies the C++14 Allocator requirements.  Every allocation is counted so that the harness can
// report leaks and foreign deallocations without relying on a sanitizer.
#ifndef VF_STANDIN_CETL_PF17_SYS_MEMORY_RESOURCE_HPP
#define VF_STANDIN_CETL_PF17_SYS_MEMORY_RESOURCE_HPP
#include <cstddef>
#include <cstdlib>
#include <new>
#include <memory>
#include <type_traits>

namespace cetl { namespace pf17 { namespace pmr {

class memory_resource
{
public:
    virtual ~memory_resource() = default;
    void* allocate(std::size_t bytes, std::size_t alignment = alignof(std::max_align_t)) { return do_allocate(bytes, alignment); }
    void  deallocate(void* p, std::size_t bytes, std::size_t alignment = alignof(std::max_align_t)) { do_deallocate(p, bytes, alignment); }
    bool  is_equal(const memory_resource& rhs) const noexcept { return do_is_equal(rhs); }
private:
    virtual void* do_allocate(std::size_t bytes, std::size_t alignment) = 0;
    virtual void  do_deallocate(void* p, std::size_t bytes, std::size_t alignment) = 0;
    virtual bool  do_is_equal(const memory_resource& rhs) const noexcept = 0;
};

inline bool operator==(const memory_resource& a, const memory_resource& b) noexcept { return &a == &b || a.is_equal(b); }
inline bool operator!=(const memory_resource& a, const memory_resource& b) noexcept { return !(a == b); }

/// malloc-backed resource that counts what is outstanding.
class counting_resource final : public memory_resource
{
public:
    std::size_t outstanding_blocks = 0;
    std::size_t outstanding_bytes  = 0;
    std::size_t total_allocations  = 0;
private:
    void* do_allocate(std::size_t bytes, std::size_t) override
    {
        void* p = std::malloc(bytes == 0 ? 1 : bytes);
        if (p == nullptr) { std::abort(); }
        outstanding_blocks++; outstanding_bytes += bytes; total_allocations++;
        return p;
    }
    void do_deallocate(void* p, std::size_t bytes, std::size_t) override
    {
        if (outstanding_blocks == 0 || outstanding_bytes < bytes) { std::abort(); }
        outstanding_blocks--; outstanding_bytes -= bytes;
        std::free(p);
    }
    bool do_is_equal(const memory_resource& rhs) const noexcept override { return this == &rhs; }
};

template <class T>
class polymorphic_allocator
{
public:
    using value_type = T;
    // no default constructor on purpose
    polymorphic_allocator(memory_resource* r) noexcept : resource_(r) {}  // NOLINT implicit like std::pmr
    polymorphic_allocator(const polymorphic_allocator&) noexcept = default;
    template <class U> polymorphic_allocator(const polymorphic_allocator<U>& other) noexcept : resource_(other.resource()) {}  // NOLINT
    polymorphic_allocator& operator=(const polymorphic_allocator&) = delete;

    T* allocate(std::size_t n) { return static_cast<T*>(resource_->allocate(n * sizeof(T), alignof(T))); }
    void deallocate(T* p, std::size_t n) { resource_->deallocate(p, n * sizeof(T), alignof(T)); }
    template <class U, class... Args> void construct(U* p, Args&&... args) { ::new (static_cast<void*>(p)) U(std::forward<Args>(args)...); }
    template <class U> void destroy(U* p) { p->~U(); }
    polymorphic_allocator select_on_container_copy_construction() const { return *this; }
    memory_resource* resource() const noexcept { return resource_; }
private:
    memory_resource* resource_;
};

template <>
class polymorphic_allocator<void>
{
public:
    using value_type = void;
    polymorphic_allocator(memory_resource* r) noexcept : resource_(r) {}  // NOLINT
    polymorphic_allocator(const polymorphic_allocator&) noexcept = default;
    template <class U> polymorphic_allocator(const polymorphic_allocator<U>& other) noexcept : resource_(other.resource()) {}  // NOLINT
    polymorphic_allocator& operator=(const polymorphic_allocator&) = delete;
    memory_resource* resource() const noexcept { return resource_; }
    template <class U> struct rebind { using other = polymorphic_allocator<U>; };
private:
    memory_resource* resource_;
};

template <class A, class B> bool operator==(const polymorphic_allocator<A>& a, const polymorphic_allocator<B>& b) noexcept { return *a.resource() == *b.resource(); }
template <class A, class B> bool operator!=(const polymorphic_allocator<A>& a, const polymorphic_allocator<B>& b) noexcept { return !(a == b); }

}}}  // namespace cetl::pf17::pmr
#endif
