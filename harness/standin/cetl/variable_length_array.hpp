// Stand-in for CETL's "cetl/variable_length_array.hpp" (the real library is not available offline).
// A minimal allocator-aware, vector-like container with a run-time maximum size:
//   VariableLengthArray(const allocator_type&), VariableLengthArray(size_type max_size_max, const allocator_type&),
//   VariableLengthArray(std::initializer_list<T>, const allocator_type&), allocator-extended copy / move,
//   reserve / push_back / emplace_back / clear / size / capacity / max_size / operator[] / back / begin / end / data /
//   get_allocator -- the surface used by Nunavut's generated code and by verification/cpp/suite/test_array_cetl++14-17.cpp.
// There is no default constructor: the allocator that goes with it is not default constructible.
#ifndef VF_STANDIN_CETL_VARIABLE_LENGTH_ARRAY_HPP
#define VF_STANDIN_CETL_VARIABLE_LENGTH_ARRAY_HPP
#include <cstddef>
#include <cstdlib>
#include <initializer_list>
#include <limits>
#include <memory>
#include <new>
#include <utility>

namespace cetl {

template <class T, class Allocator>
class VariableLengthArray
{
    using traits = std::allocator_traits<Allocator>;
public:
    using value_type      = T;
    using allocator_type  = Allocator;
    using size_type       = std::size_t;
    using difference_type = std::ptrdiff_t;
    using reference       = T&;
    using const_reference = const T&;
    using pointer         = T*;
    using const_pointer   = const T*;
    using iterator        = T*;
    using const_iterator  = const T*;

    explicit VariableLengthArray(const allocator_type& alloc) noexcept : alloc_(alloc), max_(std::numeric_limits<size_type>::max()) {}
    VariableLengthArray(size_type max_size_max, const allocator_type& alloc) noexcept : alloc_(alloc), max_(max_size_max) {}
    VariableLengthArray(std::initializer_list<T> l, const allocator_type& alloc) : alloc_(alloc), max_(std::numeric_limits<size_type>::max())
    {
        reserve(l.size());
        for (const T& e : l) { push_back(e); }
    }
    VariableLengthArray(const VariableLengthArray& rhs) : alloc_(traits::select_on_container_copy_construction(rhs.alloc_)), max_(rhs.max_) { copy_from(rhs); }
    VariableLengthArray(const VariableLengthArray& rhs, const allocator_type& alloc) : alloc_(alloc), max_(rhs.max_) { copy_from(rhs); }
    VariableLengthArray(VariableLengthArray&& rhs) noexcept : alloc_(rhs.alloc_), max_(rhs.max_), data_(rhs.data_), size_(rhs.size_), cap_(rhs.cap_)
    {
        rhs.data_ = nullptr; rhs.size_ = 0; rhs.cap_ = 0;
    }
    VariableLengthArray(VariableLengthArray&& rhs, const allocator_type& alloc) : alloc_(alloc), max_(rhs.max_)
    {
        if (alloc_ == rhs.alloc_) { data_ = rhs.data_; size_ = rhs.size_; cap_ = rhs.cap_; rhs.data_ = nullptr; rhs.size_ = 0; rhs.cap_ = 0; }
        else { reserve(rhs.size_); for (size_type i = 0; i < rhs.size_; i++) { emplace_back(std::move(rhs.data_[i])); } rhs.clear(); }
    }
    ~VariableLengthArray() { release(); }

    VariableLengthArray& operator=(const VariableLengthArray& rhs)
    {
        if (this != &rhs) { clear(); max_ = rhs.max_; copy_from(rhs); }
        return *this;
    }
    VariableLengthArray& operator=(VariableLengthArray&& rhs)
    {
        if (this == &rhs) { return *this; }
        if (alloc_ == rhs.alloc_) { release(); max_ = rhs.max_; data_ = rhs.data_; size_ = rhs.size_; cap_ = rhs.cap_; rhs.data_ = nullptr; rhs.size_ = 0; rhs.cap_ = 0; }
        else { clear(); max_ = rhs.max_; reserve(rhs.size_); for (size_type i = 0; i < rhs.size_; i++) { emplace_back(std::move(rhs.data_[i])); } rhs.clear(); }
        return *this;
    }

    allocator_type get_allocator() const noexcept { return alloc_; }
    size_type size() const noexcept { return size_; }
    size_type capacity() const noexcept { return cap_; }
    size_type max_size() const noexcept { return max_; }
    bool empty() const noexcept { return size_ == 0; }
    pointer data() noexcept { return data_; }
    const_pointer data() const noexcept { return data_; }
    iterator begin() noexcept { return data_; }
    iterator end() noexcept { return data_ + size_; }
    const_iterator begin() const noexcept { return data_; }
    const_iterator end() const noexcept { return data_ + size_; }
    const_iterator cbegin() const noexcept { return data_; }
    const_iterator cend() const noexcept { return data_ + size_; }
    reference operator[](size_type i) noexcept { return data_[i]; }
    const_reference operator[](size_type i) const noexcept { return data_[i]; }
    reference back() noexcept { return data_[size_ - 1]; }
    const_reference back() const noexcept { return data_[size_ - 1]; }
    reference front() noexcept { return data_[0]; }
    const_reference front() const noexcept { return data_[0]; }

    void reserve(size_type n)
    {
        if (n > max_) { n = max_; }
        if (n <= cap_) { return; }
        T* nd = traits::allocate(alloc_, n);
        for (size_type i = 0; i < size_; i++) { ::new (static_cast<void*>(nd + i)) T(std::move(data_[i])); data_[i].~T(); }
        if (data_ != nullptr) { traits::deallocate(alloc_, data_, cap_); }
        data_ = nd; cap_ = n;
    }
    void clear() noexcept
    {
        for (size_type i = 0; i < size_; i++) { data_[i].~T(); }
        size_ = 0;
    }
    void push_back(const T& v) { emplace_back(v); }
    void push_back(T&& v) { emplace_back(std::move(v)); }
    template <class... Args> void emplace_back(Args&&... args)
    {
        if (size_ >= max_) { std::abort(); }  // CETL throws std::length_error or terminates; generated code must never get here
        if (size_ == cap_) { reserve(cap_ == 0 ? 1 : ((cap_ * 2 > max_) ? max_ : cap_ * 2)); }
        ::new (static_cast<void*>(data_ + size_)) T(std::forward<Args>(args)...);
        size_++;
    }
    void pop_back() noexcept { size_--; data_[size_].~T(); }

private:
    void copy_from(const VariableLengthArray& rhs)
    {
        reserve(rhs.size_);
        for (size_type i = 0; i < rhs.size_; i++) { emplace_back(rhs.data_[i]); }
    }
    void release() noexcept
    {
        clear();
        if (data_ != nullptr) { traits::deallocate(alloc_, data_, cap_); data_ = nullptr; cap_ = 0; }
    }
    Allocator alloc_;
    size_type max_;
    T*        data_ = nullptr;
    size_type size_ = 0;
    size_type cap_  = 0;
};

template <class T, class A> bool operator==(const VariableLengthArray<T, A>& a, const VariableLengthArray<T, A>& b)
{
    if (a.size() != b.size()) { return false; }
    for (std::size_t i = 0; i < a.size(); i++) { if (!(a[i] == b[i])) { return false; } }
    return true;
}
template <class T, class A> bool operator!=(const VariableLengthArray<T, A>& a, const VariableLengthArray<T, A>& b) { return !(a == b); }

}  // namespace cetl
#endif
