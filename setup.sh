#!/bin/sh
# Offline set-up: third-party packages the checks need beside /venv (nothing is fetched from a network).
HERE="$(cd "$(dirname "$0")" && pwd)"
WH=/opt/veriftools/wheels
mkdir -p "$HERE/.deps" "$HERE/evidence" "$HERE/replays"
export PIP_NO_INDEX=1 PIP_DISABLE_PIP_VERSION_CHECK=1
/venv/bin/python -c "import hypothesis" 2>/dev/null || \
  /venv/bin/pip install -q --no-index --find-links "$WH" --target "$HERE/.deps" hypothesis || exit 1
PYTHONPATH="$HERE/.deps" /venv/bin/python -c "import numpy" 2>/dev/null || \
  /venv/bin/pip install -q --no-index --find-links "$WH" --target "$HERE/.deps" numpy || exit 1
PYTHONPATH="$HERE/.deps" /venv/bin/python -c "import atheris" 2>/dev/null || \
  /venv/bin/pip install -q --no-index --find-links "$WH" --target "$HERE/.deps" atheris 2>/dev/null || \
  echo "note: atheris not installed (optional)"
exit 0
