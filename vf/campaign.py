"""
Codec campaigns shared by C01..C05: draw jobs with Hypothesis (universe + option sets + values + byte strings),
execute them in parallel on the lab, hand the raw responses to a property-specific evaluator, and minimise failures.

job = {"universe": IR, "targets": [key...], "cases": [case...]}
case = {"op": "S", "ti": i, "words": hex, "prefill": "00|ff|a5", "buf": int (bytes, absolute), "dom": "range|storage|invalid"}
     | {"op": "D", "ti": i, "cls": "a|b|...", "bytes": hex, "mode": "F|Z|P|V|K", "prior": hex}
"""
from __future__ import annotations

import collections
import concurrent.futures
import itertools
import json
import os
import typing

import hypothesis
from hypothesis import strategies as st

from . import core, dsdlgen, lab, refmodel, valuegen
from .refmodel import inner

C_KEYS = [f"c|{e}|{a}|{o}" for e in ("any", "little", "big") for a in (0, 1) for o in (0, 1)]
# --omit-float-serialization-support: the support header drops its float primitives; everything without floats must be unaffected
C_NOFLOAT_KEYS = [k + "|nofloat" for k in C_KEYS]
CPP_KEYS = [
    f"cpp|{s}|{e}|{a}|{c}"
    for s in ("c++14", "c++17", "c++20", "c++17-pmr")
    for e in ("any", "little", "big")
    for a in (0, 1)
    for c in ("vector", "minivec", "fixedvec")
    # the c++17-pmr shorthand sets the container options as a unit (C13): a user container does not apply there
    if not (s == "c++17-pmr" and c != "vector")
] + [
    # allocator that is not default constructible + container built from (max size, allocator), C++14 built-in variant;
    # compiled against the stand-in for the CETL headers (lab.STANDIN); types hit by the two known C06 findings are skipped
    f"cpp|cetl++14-17|{e}|{a}|cetl"
    for e in ("any", "little", "big")
    for a in (0, 1)
]


def max_ser_bytes(ct) -> int:
    return (inner(ct).bit_length_set.max + 7) // 8


def extent_bytes(ct) -> int:
    return ct.extent // 8


def anchor_universe() -> dict:
    """
    Deterministic completeness anchor: every integer width (int2..64, uint1..64 saturated and truncated) and every float
    width, in an interleaved order so that most fields sit at non-byte-aligned offsets, plus arrays of odd-width elements.
    Random universes cannot be relied upon to hit every width in a quick run.
    """

    def prim(kind, bits, cast="saturated"):
        return {"t": kind, "bits": bits, "cast": cast}

    fields = []
    for b in range(1, 65):
        fields.append(prim("uint", b, "saturated" if b % 2 else "truncated"))
        if b >= 2:
            fields.append(prim("int", b))
        if b % 8 == 3:
            fields.append({"t": "bool"})
        if b % 16 == 5:
            fields.append(prim("float", [16, 32, 64][(b // 16) % 3], "truncated" if b % 32 == 5 else "saturated"))
    fields += [prim("uint", b, "truncated" if b % 2 else "saturated") for b in (3, 7, 9, 13, 17, 31, 33, 47, 63)]
    types = []
    per = 22
    for i in range(0, len(fields), per):
        attrs = [{"k": "field", "type": t, "name": f"f{j}", "doc": None} for j, t in enumerate(fields[i : i + per])]
        types.append({"ns": ["anchor"], "name": f"W{i // per}", "major": 1, "minor": 0, "port_id": None, "kind": "struct", "deprecated": False, "doc": [],
                      "body": {"union": False, "sealed": (i // per) % 2 == 0, "extent_extra": 1, "extent_bits": 4096, "attrs": attrs}})
    arr_attrs = [
        {"k": "field", "type": {"t": "farr", "elem": prim("int", 11), "n": 3}, "name": "a", "doc": None},
        {"k": "field", "type": {"t": "varr", "elem": prim("uint", 5, "truncated"), "cap": 9, "incl": True}, "name": "b", "doc": None},
        {"k": "field", "type": {"t": "varr", "elem": prim("int", 16), "cap": 4, "incl": True}, "name": "c", "doc": None},
        {"k": "field", "type": {"t": "farr", "elem": prim("float", 16), "n": 2}, "name": "d", "doc": None},
        {"k": "field", "type": {"t": "varr", "elem": prim("int", 33), "cap": 3, "incl": True}, "name": "e", "doc": None},
    ]
    types.append({"ns": ["anchor"], "name": "Arr", "major": 1, "minor": 0, "port_id": None, "kind": "struct", "deprecated": False, "doc": [],
                  "body": {"union": False, "sealed": True, "extent_extra": 0, "attrs": arr_attrs}})
    def td(name, attrs, union=False, sealed=True, kind=None, extent_bits=256):
        return {"ns": ["anchor"], "name": name, "major": 1, "minor": 0, "port_id": None, "kind": kind or ("union" if union else "struct"), "deprecated": False, "doc": [],
                "body": {"union": union, "sealed": sealed, "extent_extra": 1, "extent_bits": extent_bits, "attrs": attrs}}

    def fld(name, t):
        return {"k": "field", "type": t, "name": name, "doc": None}

    def ref(name):
        return {"t": "ref", "full": "anchor." + name, "major": 1, "minor": 0}

    types.append(td("Inner", [fld("x", prim("uint", 3)), fld("y", {"t": "varr", "elem": prim("int", 5), "cap": 2, "incl": True})], sealed=False))
    types.append(td("Uni", [fld("a", {"t": "varr", "elem": prim("uint", 8), "cap": 3, "incl": True}), fld("b", {"t": "bool"}), fld("c", prim("float", 16)), fld("d", ref("Inner")), fld("e", {"t": "varr", "elem": ref("Inner"), "cap": 2, "incl": True}),
                             # fixed-size storage whose elements own heap memory (the built-in C++14 variant must destroy it), and a plain one
                             fld("f", {"t": "farr", "elem": ref("Inner"), "n": 2}), fld("g", {"t": "farr", "elem": prim("float", 32), "n": 3})], union=True))
    types.append(td("Outer", [fld("f0", prim("uint", 5)), fld("us", {"t": "varr", "elem": ref("Uni"), "cap": 3, "incl": True}), fld("ins", {"t": "farr", "elem": ref("Inner"), "n": 2}), fld("u", ref("Uni")), fld("bits", {"t": "varr", "elem": {"t": "bool"}, "cap": 11, "incl": True})], sealed=False, extent_bits=8192))
    # the same shapes without members that need a default constructor: usable by flavours whose allocator is not default
    # constructible (unions of primitives / primitive arrays, nested composites and variable-length arrays of composites and unions)
    types.append(td("UniP", [fld("a", prim("uint", 8)), fld("b", {"t": "bool"}), fld("c", prim("float", 16)), fld("g", {"t": "farr", "elem": prim("float", 32), "n": 3}), fld("h", prim("int", 33)),
                              fld("k", {"t": "farr", "elem": {"t": "bool"}, "n": 11})], union=True))
    types.append(td("OuterP", [fld("f0", prim("uint", 5)), fld("ins", {"t": "varr", "elem": ref("Inner"), "cap": 3, "incl": True}), fld("one", ref("Inner")), fld("us", {"t": "varr", "elem": ref("UniP"), "cap": 3, "incl": True}),
                                fld("u", ref("UniP")), fld("bits", {"t": "varr", "elem": {"t": "bool"}, "cap": 11, "incl": True}), fld("w", {"t": "varr", "elem": prim("int", 33), "cap": 2, "incl": True})], sealed=False, extent_bits=8192))
    consts = [
        # the same rational declared with a narrow type BEFORE a wide one and the other way round (1/3 below: float64 then float16)
        ("float", 32, "F32TENTH", "0.1"), ("float", 16, "F16TENTH", "0.1"), ("float", 64, "F64TENTH", "0.1"), ("float", 64, "F64SEVENTH", "1/7"), ("float", 32, "F32SEVENTH", "1/7"),
        ("float", 64, "T64A", "1e-320"), ("float", 64, "T64B", "5e-324"), ("float", 64, "T64C", "2.2250738585072014e-308"), ("float", 64, "T64D", "1.7976931348623157e308"),
        ("float", 64, "T64E", "1/3"), ("float", 32, "T32A", "1e-45"), ("float", 32, "T32B", "340282346638528859811704183484516925440.0"), ("float", 32, "T32C", "16777217.0"),
        ("float", 16, "T16A", "6.0e-8"), ("float", 16, "T16B", "65504.0"), ("float", 16, "T16C", "1/3"),
        ("int", 64, "I64MIN", "-9223372036854775808"), ("int", 64, "I64MAX", "9223372036854775807"), ("uint", 64, "U64MAX", "18446744073709551615"),
        ("int", 33, "I33MIN", "-4294967296"), ("uint", 33, "U33MAX", "8589934591"), ("int", 8, "I8MIN", "-128"), ("uint", 17, "U17", "131071"), ("int", 2, "I2", "-2"),
    ]
    # arrays of every byte-multiple element width (standard widths are bulk-copied on little-endian C builds, 24/40/48/56 bits
    # must not be) and of every float width, fixed and variable, byte-aligned and -- after the bool -- unaligned
    def arrs(prefix, widths):
        out = []
        for i, (k, b) in enumerate(widths):
            el = prim(k, b, "truncated" if k == "uint" and i % 2 else "saturated")
            out.append(fld(f"{prefix}{i}", {"t": "farr", "elem": el, "n": 2 + i % 2} if i % 2 == 0 else {"t": "varr", "elem": el, "cap": 2 + i % 3, "incl": True}))
        return out

    w1 = [("uint", 24), ("int", 40), ("uint", 48), ("int", 56), ("uint", 16), ("int", 32), ("int", 64), ("uint", 8), ("float", 32), ("float", 64), ("float", 16), ("int", 24), ("uint", 40), ("int", 48), ("uint", 56)]
    w2 = [("int", 24), ("uint", 24), ("uint", 40), ("int", 16), ("int", 48), ("uint", 56), ("uint", 8), ("float", 32), ("int", 8), ("float", 16), ("uint", 64), ("float", 64)]
    types.append(td("ArrBytes", arrs("p", w1) + [fld("odd", {"t": "bool"})] + arrs("q", w2), extent_bits=8192))
    # a delimited type with a small extent reachable ONLY through arrays: delimiter headers larger than the extent (valid; the
    # excess is skipped) fit into mutated encodings of the container
    types.append(td("Tiny", [fld("x", prim("uint", 8))], sealed=False, extent_bits=16))
    types.append(td("ArrDel", [fld("v", {"t": "varr", "elem": ref("Tiny"), "cap": 3, "incl": True}), fld("w", {"t": "farr", "elem": ref("Tiny"), "n": 2}), fld("k", prim("uint", 8))]))
    # fixed arrays of sub-byte elements at STATICALLY known offsets whose end (but not every element) is byte-aligned
    types.append(td("SubByte", [fld("a", {"t": "farr", "elem": prim("uint", 4), "n": 2}), fld("b", {"t": "farr", "elem": prim("uint", 2, "truncated"), "n": 4}), fld("c", {"t": "farr", "elem": prim("uint", 3), "n": 8}),
                                fld("d", prim("uint", 4)), fld("e", {"t": "farr", "elem": prim("uint", 4), "n": 3}), fld("f", {"t": "farr", "elem": prim("uint", 1), "n": 8}),
                                fld("g", {"t": "farr", "elem": prim("uint", 7, "truncated"), "n": 8}), fld("h", {"t": "farr", "elem": prim("int", 4), "n": 2}), fld("i", {"t": "farr", "elem": prim("uint", 6), "n": 4})]))
    # a delimited type whose @extent is exactly its maximum size, as LAST member of a sealed container whose other parts can be
    # filled to the brim (buffers sized to the maximum are then used completely); empty composites as last member / element
    types.append(td("TightInner", [fld("x", {"t": "varr", "elem": prim("uint", 8), "cap": 4, "incl": True})], sealed=False, extent_bits=40))
    types.append(td("TightOuter", [fld("a", {"t": "varr", "elem": prim("uint", 8), "cap": 4, "incl": True}), fld("b", ref("TightInner"))]))
    types.append(td("TightArr", [fld("k", prim("uint", 8)), fld("bs", {"t": "farr", "elem": ref("TightInner"), "n": 2})]))
    # nothing but padding: the serializer has no field to write, yet its size bound and its buffer check are the same as ever
    types.append(td("PadOnly", [{"k": "void", "bits": 16}, {"k": "void", "bits": 3}]))
    types.append(td("PadOnlyD", [{"k": "void", "bits": 7}, {"k": "void", "bits": 64}], sealed=False, extent_bits=128))
    types.append(td("TailPad", [fld("x", prim("uint", 8)), fld("p", ref("PadOnly")), fld("y", prim("uint", 8)), fld("ps", {"t": "farr", "elem": ref("PadOnly"), "n": 2}), fld("d", ref("PadOnlyD")), fld("z", prim("uint", 8))]))
    # offsets with the same minimum and maximum, one a set of whole bytes, the other not (the aligned one is generated first):
    # whether the members behind them may be accessed with the byte-aligned primitives differs
    types.append(td("AlignedFirst", [fld("v", {"t": "varr", "elem": prim("uint", 8), "cap": 2, "incl": True}), fld("x", prim("uint", 24)), fld("f", prim("float", 32)), fld("a", {"t": "farr", "elem": prim("uint", 16), "n": 2})]))
    types.append(td("AlignedSecond", [fld("v", {"t": "varr", "elem": {"t": "bool"}, "cap": 16, "incl": True}), fld("x", prim("uint", 24)), fld("f", prim("float", 32)), fld("a", {"t": "farr", "elem": prim("uint", 16), "n": 2})]))
    types.append(td("Nil", []))
    types.append(td("NilD", [], sealed=False, extent_bits=0))
    types.append(td("TailNil", [fld("x", prim("uint", 8)), fld("e", ref("Nil"))]))
    types.append(td("TailNilArr", [fld("x", prim("uint", 8)), fld("es", {"t": "farr", "elem": ref("Nil"), "n": 2})]))
    types.append(td("TailNilD", [fld("x", prim("uint", 8)), fld("d", ref("NilD"))]))
    types.append(td("TailNilVar", [fld("x", prim("uint", 8)), fld("ds", {"t": "varr", "elem": ref("NilD"), "cap": 2, "incl": True})]))
    # bit-packed arrays whose length is not a multiple of 8, starting inside a byte (truncated inputs end inside them)
    types.append(td("BitArr", [fld("a", prim("uint", 5)), fld("f", {"t": "farr", "elem": {"t": "bool"}, "n": 10}), fld("b", prim("uint", 3)), fld("g", {"t": "varr", "elem": {"t": "bool"}, "cap": 20, "incl": True}),
                               fld("h", {"t": "farr", "elem": {"t": "bool"}, "n": 13}), fld("i", {"t": "farr", "elem": prim("uint", 4), "n": 2}), fld("j", {"t": "farr", "elem": prim("uint", 2), "n": 4})]))
    # array length prefixes of 8 and 16 bits at the capacity boundary (255 / 256), byte-aligned and not
    types.append(td("LenPrefix", [fld("a", {"t": "varr", "elem": prim("uint", 8), "cap": 256, "incl": True}), fld("b", {"t": "varr", "elem": {"t": "bool"}, "cap": 255, "incl": True}),
                                  fld("c", {"t": "varr", "elem": prim("int", 16), "cap": 257, "incl": True}), fld("d", {"t": "varr", "elem": prim("uint", 7, "truncated"), "cap": 255, "incl": True})]))
    # fixed port-ID 0 is a valid port-ID (message and service)
    types.append(dict(td("PortZero", [fld("x", prim("uint", 8))]), port_id=0))
    types.append({"ns": ["anchor"], "name": "SvcZero", "major": 1, "minor": 0, "port_id": 0, "kind": "service", "deprecated": False, "doc": [],
                  "body": {"request": {"union": False, "sealed": True, "extent_extra": 1, "attrs": [fld("q", prim("uint", 7))]},
                           "response": {"union": True, "sealed": True, "extent_extra": 1, "attrs": [fld("a", prim("int", 9)), fld("b", {"t": "bool"})]}}})
    cattrs = [{"k": "const", "type": prim(k, b), "name": n, "value": v} for k, b, n, v in consts]
    cattrs += [{"k": "const", "type": {"t": "bool"}, "name": "BT", "value": "true"}, {"k": "const", "type": {"t": "bool"}, "name": "BF", "value": "false"}, fld("v", prim("uint", 8))]
    types.append(td("Consts", cattrs))
    return {"roots": [{"name": "anchor", "types": types}]}


@st.composite
def job_strategy(draw, spec: dict, fixed_universe: typing.Optional[dict] = None) -> dict:
    u = fixed_universe or draw(dsdlgen.universe(profile="plain", max_types=spec.get("max_types", 5), max_roots=spec.get("max_roots", 2), **spec.get("gen_opts", {})))
    L = lab.Lab(u)
    try:
        ctypes = L.ctypes
        n_c, n_cpp = spec.get("n_c", 2), spec.get("n_cpp", 2)
        c_pool = [k for k in C_KEYS if spec.get("c_filter", lambda k: True)(k)]
        cpp_pool = [k for k in CPP_KEYS if spec.get("cpp_filter", lambda k: True)(k) and k.split("|")[1] not in lab.ALLOC_STDS]
        alloc_pool = [k for k in CPP_KEYS if spec.get("cpp_filter", lambda k: True)(k) and k.split("|")[1] in lab.ALLOC_STDS]
        targets = []
        if n_c:
            targets += draw(st.lists(st.sampled_from(c_pool), min_size=n_c, max_size=n_c, unique=True))
        if n_cpp:
            targets += draw(st.lists(st.sampled_from(cpp_pool), min_size=n_cpp, max_size=n_cpp, unique=True))
            # universes with at least one float-free type: sometimes also with float support omitted (C or C++)
            if fixed_universe is None and len(L.float_excluded()) < len(ctypes) and draw(st.integers(0, 2)) == 0:
                targets.append(draw(st.sampled_from(C_NOFLOAT_KEYS + [k + "|nofloat" for k in cpp_pool])))
            # every other universe is also built for the flavour without a default-constructible allocator (if at least one of
            # its types compiles there)
            if alloc_pool and fixed_universe is None and draw(st.booleans()) and len(L.alloc_excluded()) < len(ctypes):
                targets.append(draw(st.sampled_from(alloc_pool)))
        if fixed_universe is not None:
            # the anchor is always run on the flavours whose code differs structurally
            for k in ("cpp|c++17-pmr|any|0|vector", "cpp|c++14|little|1|vector", "cpp|cetl++14-17|any|1|cetl", "cpp|c++20|big|0|fixedvec", "c|little|1|0", "c|any|0|0", "c|little|0|0|nofloat", "cpp|c++17|any|0|vector|nofloat"):
                if k.split("|")[0] == "c" and not n_c or k.split("|")[0] == "cpp" and not n_cpp:
                    continue
                if k not in targets and spec.get("c_filter" if k.startswith("c|") else "cpp_filter", lambda k: True)(k):
                    targets.append(k)
        if spec.get("py", True):
            targets.append("py")
        cases: typing.List[dict] = []
        overrides: typing.Dict[str, int] = {}
        for ti, ct in enumerate(ctypes):
            if spec.get("only_ti") is not None and ti != spec["only_ti"]:
                continue
            mx = max_ser_bytes(ct)
            for k in range(spec.get("n_values", 0)):
                dom = draw(st.sampled_from(spec.get("domains", ["range", "range", "storage", "storage", "invalid", "pyarr"])))
                # "pyarr": everything in range except unsigned array elements, which range over their storage type -- the one
                # class of out-of-range objects that can also be built in Python (array setters check lengths only)
                v = draw(valuegen.value_strategy(ct, storage=dom not in ("range", "pyarr"), invalid=dom == "invalid", elem_storage=dom == "pyarr"))
                if dom == "invalid" and not valuegen.is_invalid(ct, v):
                    dom = "storage"
                buf = mx + draw(st.sampled_from(spec.get("buf_extra", [0, 0, 1, 64])))
                cases.append({"op": "S", "ti": ti, "words": valuegen.words_hex(valuegen.to_words(ct, v)), "prefill": draw(st.sampled_from(["00", "ff", "a5"])), "buf": buf, "dom": dom})
            if spec.get("meta"):
                cases.append({"op": "M", "ti": ti})
            if spec.get("n_small_buf", 0):
                v = draw(valuegen.value_strategy(ct, storage=False))
                w = valuegen.words_hex(valuegen.to_words(ct, v))
                sizes = sorted({0, 1, mx // 2, max(0, mx - 2), max(0, mx - 1), mx, mx + 1} if mx > 12 else set(range(0, mx + 2)))
                for b in sizes[: spec["n_small_buf"]] if mx > 12 else sizes:
                    cases.append({"op": "S", "ti": ti, "words": w, "prefill": "a5", "buf": b, "dom": "range", "small": b < mx})
            if spec.get("n_byte_batches", 0):
                batch = draw(valuegen.bytes_cases(ct, spec["n_byte_batches"]))
                seen = set()
                for cls, b in batch:
                    if (cls[0], b) in seen:
                        continue
                    seen.add((cls[0], b))
                    cases.append({"op": "D", "ti": ti, "cls": cls, "bytes": b.hex() or "-", "mode": "F", "prior": "-"})
            if spec.get("prior_states", 0):
                # same byte string decoded into destinations with different prior state: fresh, zeroed, poisoned, pre-loaded
                # value, and the object left behind by the previous decode ("K" = kept object, a running history)
                for _ in range(spec["prior_states"]):
                    v1 = draw(valuegen.value_strategy(ct, storage=False))
                    v2 = draw(valuegen.value_strategy(ct, storage=False))
                    b1 = refmodel.serialize(ct, v1)[0]
                    b2 = refmodel.serialize(ct, v2)[0]
                    cut = draw(st.integers(0, len(b2)))
                    prior = valuegen.words_hex(valuegen.to_words(ct, v1))
                    strings = [b2.hex() or "-", b2[:cut].hex() or "-", b1.hex() or "-"]
                    if len(b2) <= 16:
                        # short encodings: EVERY truncation point meets every prior state (zero extension inside a bit-packed
                        # or unaligned member depends on exactly where the buffer ends)
                        strings += [b2[:c].hex() or "-" for c in range(len(b2)) if c != cut]
                    for h in strings:
                        for mode in ("F", "Z", "P", "V"):
                            cases.append({"op": "D", "ti": ti, "cls": "prior", "bytes": h, "mode": mode, "prior": prior if mode == "V" else "-"})
                    # a running history on one kept object: every decode must equal the fresh decode of the same bytes
                    for h in (strings[0], strings[2], strings[1], strings[0], strings[1]):
                        cases.append({"op": "D", "ti": ti, "cls": "prior", "bytes": h, "mode": "K", "prior": "-"})
            if spec.get("cap_override") and any(k.startswith("c|") and k.endswith("|1") for k in targets):
                t_ = inner(ct)
                import pydsdl as _p

                for f in t_.fields_except_padding:
                    if isinstance(f.data_type, _p.VariableLengthArrayType) and f.data_type.capacity > 1:
                        from .emit_c import c_type_name

                        k_ = draw(st.integers(1, f.data_type.capacity - 1))
                        overrides[f"{c_type_name(t_)}_{f.name}_ARRAY_CAPACITY_"] = k_
        return {"universe": u, "targets": targets, "cases": cases, "features": dsdlgen.features(u), "cap_overrides": overrides}
    finally:
        L.close()


def draw_jobs(ctx: core.Ctx, n: int, spec: dict, seed_offset: int = 0) -> typing.List[dict]:
    jobs: typing.List[dict] = []

    @hypothesis.seed(ctx.seed * 1000003 + seed_offset)
    @core.hsettings(n)
    @hypothesis.given(job_strategy(spec))
    def collect(job):
        jobs.append(job)

    collect()
    if spec.get("anchor", True):
        anchor: typing.List[dict] = []

        # one Hypothesis run per anchor type (a single example covering all ~200 fields of the anchor would exceed Hypothesis'
        # entropy budget); the first generated example of each run is the minimal one (all zeros), so the cases of all
        # examples are merged into one job
        au = anchor_universe()
        L = lab.Lab(au)
        n_ct = len(L.ctypes)
        L.close()
        aspec = dict(spec, n_values=min(6, max(1, spec.get("n_values", 0) // 4)) if spec.get("n_values") else 0, prior_states=min(1, spec.get("prior_states", 0)), n_byte_batches=min(1, spec.get("n_byte_batches", 0)))
        for ti in range(n_ct):

            @hypothesis.seed(ctx.seed * 1000003 + seed_offset + 77 + ti)
            @core.hsettings(4)
            @hypothesis.given(job_strategy(dict(aspec, only_ti=ti), fixed_universe=au))
            def collect_anchor(job):
                anchor.append(job)

            collect_anchor()
        merged = anchor[-1]
        merged["cases"] = list(merged["cases"])
        seen = {json.dumps(c, sort_keys=True) for c in merged["cases"]}
        for j in anchor[:-1]:
            for c in j["cases"]:
                k = json.dumps(c, sort_keys=True)
                if k not in seen:
                    seen.add(k)
                    merged["cases"].append(c)
            for t in j["targets"]:
                if t not in merged["targets"] and len(merged["targets"]) < 12:
                    merged["targets"].insert(0, t)
            merged["cap_overrides"] = dict(j.get("cap_overrides", {}), **merged.get("cap_overrides", {}))
        jobs = [merged] + jobs
    return jobs


def command_for(case: dict, key: str, reduced: bool = False) -> typing.Optional[str]:
    """The command line a target receives for a case, or None if the case does not apply to that target."""
    lang = key.split("|")[0]
    if case["op"] == "M":
        return f"M {case['ti']}"
    if case["op"] == "S":
        if lang == "py" and case["dom"] not in ("range", "pyarr"):
            return None
        if lang == "cpp" and case["dom"] == "invalid" and case.get("bad_tag"):
            return None
        if case.get("small") and reduced:
            # documented (--enable-override-variable-array-capacity): "This option will disable serialization buffer
            # checks" once a capacity is overridden -- an undersized buffer is then the caller's responsibility
            return None
        return f"S {case['ti']} {case['prefill']} {case['buf']} {case['words']}"
    mode = case["mode"]
    if lang == "py" and mode != "F":
        return None
    if lang == "cpp" and mode in ("P", "Z"):
        return None
    return f"D {case['ti']} {mode} {case['prior']} {case['bytes']}"


class Executed:
    def __init__(self, job: dict, L: lab.Lab, responses: typing.Dict[str, typing.List[typing.Optional[dict]]], errors: typing.Dict[str, str]):
        self.job = job
        self.lab = L
        self.responses = responses  # key -> one entry per case (None if not applicable)
        self.errors = errors  # key -> harness/build error text


def _mark_bad_tags(job: dict, L: lab.Lab):
    for c in job["cases"]:
        if c["op"] == "S" and c["dom"] == "invalid":
            ct = L.ctypes[c["ti"]]
            v, _ = valuegen.from_words(ct, valuegen.hex_words(c["words"]))
            c["bad_tag"] = _has_bad_tag(ct, v)


def _has_bad_tag(t, v) -> bool:
    import pydsdl

    if isinstance(t, pydsdl.PrimitiveType):
        return False
    if isinstance(t, pydsdl.ArrayType):
        return any(_has_bad_tag(t.element_type, e) for e in v)
    t = inner(t)
    if isinstance(t, pydsdl.UnionType):
        (name, val), = v.items()
        if name == "__tag__":
            return True
        f = [f for f in t.fields if f.name == name][0]
        return _has_bad_tag(f.data_type, val)
    return any(_has_bad_tag(f.data_type, v[f.name]) for f in t.fields_except_padding)


def execute(jobs: typing.List[dict], sanitize: bool = True, workers: int = 16, cap_overrides_fn=None) -> typing.List[Executed]:
    labs = []
    for job in jobs:
        L = lab.Lab(job["universe"], sanitize=sanitize)
        _mark_bad_tags(job, L)
        labs.append(L)

    def run_one(ji: int, key: str):
        job, L = jobs[ji], labs[ji]
        idx, cmds = [], []
        # containers that enforce a maximum size: the allocator flavour's (run-time maximum) and fixedvec (capacity = {MAX_SIZE})
        alloc_flavour = key.startswith("cpp|") and (key.split("|")[1] in lab.ALLOC_STDS or key.split("|")[4:5] == ["fixedvec"])
        excluded = L.skipped(key)
        for ci, c in enumerate(job["cases"]):
            if c["ti"] in excluded or (alloc_flavour and c["op"] == "S" and c["dom"] == "invalid"):
                # types that are not part of this key's harness (known C06 findings of the allocator flavour; types with floats
                # when float support is omitted); objects holding more elements than the capacity cannot be built at all in the
                # allocator flavour: its container enforces its run-time maximum
                continue
            cmd = command_for(c, key, reduced=bool(key.startswith("c|") and key.endswith("|1") and job.get("cap_overrides") and cap_overrides_fn))
            if cmd is not None:
                idx.append(ci)
                cmds.append(cmd)
        ov = cap_overrides_fn(job, L, key) if cap_overrides_fn else None
        try:
            res = L.run(key, cmds, ov) if cmds else []
        except lab.LabError as e:
            return ji, key, None, str(e)
        out: typing.List[typing.Optional[dict]] = [None] * len(job["cases"])
        for ci, r in zip(idx, res):
            out[ci] = r
        return ji, key, out, None

    tasks = [(ji, key) for ji, job in enumerate(jobs) for key in job["targets"]]
    results: typing.List[Executed] = [Executed(job, L, {}, {}) for job, L in zip(jobs, labs)]
    with concurrent.futures.ThreadPoolExecutor(max_workers=workers) as ex:
        for ji, key, out, err in ex.map(lambda t: run_one(*t), tasks):
            if err is not None:
                results[ji].errors[key] = err
            else:
                results[ji].responses[key] = out
    return results


def close_all(executed: typing.List[Executed]):
    for e in executed:
        e.lab.close()


def _ir_ctype_order(u: dict) -> typing.List[typing.Tuple[str, str]]:
    """(typedef key, half) in the order lab.Lab enumerates codec types: per root, sorted by (full name, version)."""
    out = []
    for r in u["roots"]:
        tds = sorted(r["types"], key=lambda td: (".".join(td["ns"] + [td["name"]]), (td["major"], td["minor"])))
        for td in tds:
            k = ".".join(td["ns"] + [td["name"]]) + f".{td['major']}.{td['minor']}"
            out += [(k, "Request"), (k, "Response")] if td["kind"] == "service" else [(k, "")]
    return out


def prune_universe(u: dict, ti: int) -> typing.Tuple[dict, int]:
    """Drop every type outside the dependency closure of codec type #ti; returns (pruned universe, new index)."""
    order = _ir_ctype_order(u)
    key, half = order[ti]
    tds = {".".join(td["ns"] + [td["name"]]) + f".{td['major']}.{td['minor']}": td for r in u["roots"] for td in r["types"]}
    keep: typing.Set[str] = set()
    todo = [key]
    while todo:
        k = todo.pop()
        if k in keep:
            continue
        keep.add(k)
        todo += [d for d in dsdlgen._refs_in(tds[k]["body"]) if d in tds]
    roots = []
    for r in u["roots"]:
        ts = [td for td in r["types"] if ".".join(td["ns"] + [td["name"]]) + f".{td['major']}.{td['minor']}" in keep]
        if ts:
            roots.append({"name": r["name"], "types": ts})
    pruned = {"roots": roots}
    return pruned, _ir_ctype_order(pruned).index((key, half))


def single_case_job(job: dict, ci: int, keys: typing.List[str]) -> dict:
    """
    Replay unit: the failing case (plus its history predecessors for kept-object cases) on the universe pruned to the
    dependency closure of the failing type.
    """
    case = job["cases"][ci]
    cases = [case]
    if case.get("mode") == "K":
        cases = [c for c in job["cases"][: ci + 1] if c.get("mode") == "K" and c["ti"] == case["ti"]]
    try:
        pruned, new_ti = prune_universe(job["universe"], case["ti"])
        cases = [dict(c, ti=new_ti) for c in cases]
        u = pruned
    except Exception:  # keep the full universe if the IR ordering assumption does not hold
        u = job["universe"]
    return {"universe": u, "targets": keys, "cases": cases, "cap_overrides": job.get("cap_overrides", {})}


def option_coverage(jobs: typing.List[dict]) -> dict:
    singles: typing.Counter[str] = collections.Counter()
    pairs: typing.Set[typing.Tuple[str, str]] = set()
    for j in jobs:
        for k in j["targets"]:
            p = k.split("|")
            vals = [f"{p[0]}.{i}={x}" for i, x in enumerate(p[1:])]
            for v in vals:
                singles[v] += 1
            for a, b in itertools.combinations(vals, 2):
                pairs.add((a, b))
    return {"option_values": dict(singles), "option_value_pairs_covered": len(pairs)}


# ---------------------------------------------------------------------------------------------------------------------
# property driver shared by c01..c05
# ---------------------------------------------------------------------------------------------------------------------
def run_property(ctx: core.Ctx, spec: dict, n_jobs: int, evaluator, sanitize: bool = True, batch: int = 8, cap_overrides_fn=None):
    """
    Draw n_jobs jobs, execute them in batches (bounded disk use), evaluate; failures are recorded with ctx.fail using a
    single-case replay job as reproduction.
    """
    jobs = draw_jobs(ctx, n_jobs, spec)
    ctx.extra.update(option_coverage(jobs))
    feat: typing.Counter[str] = collections.Counter()
    for j in jobs:
        for f in j["features"]:
            feat["u." + f] += 1
    for k, v in feat.items():
        ctx.hist[k] += v
    ctx.extra["universes"] = len(jobs)
    ctx.extra["types"] = 0
    build_errors: typing.List[str] = []
    n_targets = 0
    for i in range(0, len(jobs), batch):
        executed = execute(jobs[i : i + batch], sanitize=sanitize, cap_overrides_fn=cap_overrides_fn)
        try:
            for ex in executed:
                ctx.extra["types"] += len(ex.lab.ctypes)
                n_targets += len(ex.job["targets"])
                for key, err in ex.errors.items():
                    build_errors.append(f"{key}: {err[:1500]}")
                    ctx.event("target_build_or_generation_error")

                def collect(sig, what, ex_, ci, keys):
                    ctx.fail(sig, what, single_case_job(ex_.job, ci, keys))

                evaluator(ctx, ex, collect)
        finally:
            close_all(executed)
    from . import codec_eval

    if codec_eval.NUMPY2:
        ctx.extra["excluded_numpy2_incompatibilities"] = dict(codec_eval.NUMPY2)
        ctx.assumptions.append("generated Python documents numpy~=1.24; NumPy-2 (NEP 50) OverflowErrors on python-int + numpy-scalar arithmetic are counted and excluded")
    if build_errors:
        ctx.extra["build_errors_sample"] = build_errors[:3]
        if len(build_errors) > max(1, n_targets // 10):
            raise core.HarnessError(f"{len(build_errors)}/{n_targets} targets failed to generate/build: {build_errors[0]}")


def replay_property(ctx: core.Ctx, job: dict, evaluator, sanitize: bool = True, cap_overrides_fn=None):
    executed = execute([job], sanitize=sanitize, cap_overrides_fn=cap_overrides_fn)
    out: typing.List[typing.Tuple[str, str]] = []
    try:
        for ex in executed:
            for key, err in ex.errors.items():
                raise core.HarnessError(f"{key}: {err}")
            evaluator(ctx, ex, lambda sig, what, ex_, ci, keys: out.append((sig, what)))
    finally:
        close_all(executed)
    return out
