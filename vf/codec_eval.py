"""Evaluators for the codec-lab properties C01..C04 over campaign.Executed records."""
from __future__ import annotations

import collections
import math
import re
import typing

import pydsdl

from . import campaign, core, lab, refmodel, valuegen
from .refmodel import inner

DOCUMENTED_ERRORS = {-2, -3, -10, -11, -12}
NUMPY2: typing.Counter[str] = collections.Counter()
_NUMPY2_RE = re.compile(r"^E OverflowError Python integer -?\d+ out of bounds for u?int\d+")


def numpy2_incompat(line: str) -> bool:
    """
    Generated Python code documents `numpy ~= 1.24` (verification/python/generated_code_requirements.txt); only NumPy 2.x
    exists in this sandbox.  NEP-50 promotion makes `python_int + numpy_scalar` raise OverflowError where 1.x promoted.
    Those cases are an unmet environment assumption, not a codec error: counted, excluded from the verdict.
    """
    if _NUMPY2_RE.match(line):
        NUMPY2["numpy2_nep50_overflow"] += 1
        return True
    return False
ERR_CODE = {refmodel.BAD_ARRAY_LENGTH: -10, refmodel.BAD_UNION_TAG: -11, refmodel.BAD_DELIMITER_HEADER: -12}


def discriminate(failed: typing.List[str], passed: typing.List[str]) -> str:
    """Option values common to all failing target keys of one language and absent from all passing ones."""
    if not failed:
        return ""
    langs = sorted({k.split("|")[0] for k in failed})
    out = []
    for lang in langs:
        f = [k.split("|") for k in failed if k.split("|")[0] == lang]
        p = [k.split("|") for k in passed if k.split("|")[0] == lang]
        if lang == "py":
            out.append("py")
            continue
        names = ["endian", "asserts", "override"] if lang == "c" else ["std", "endian", "asserts", "container"]
        dis = []
        for i, n in enumerate(names, start=1):
            fv = {x[i] for x in f}
            pv = {x[i] for x in p}
            if len(fv) == 1 and not (fv & pv) and p:
                dis.append(f"{n}={next(iter(fv))}")
        out.append(lang + ("[" + ",".join(dis) + "]" if dis else ""))
    return "+".join(out)


def type_is_interesting(ct) -> bool:
    t = inner(ct)
    off = 0
    if isinstance(t, pydsdl.UnionType):
        return True
    for f in t.fields:
        dt = f.data_type
        if not isinstance(dt, (pydsdl.PrimitiveType, pydsdl.VoidType)):
            return True
        if off % 8:
            return True
        off += dt.bit_length
    return False


def seg_at(segs, bit: int) -> str:
    for kind, off, n, info in segs:
        if off <= bit < off + n:
            return kind
    return "beyond-end"


def first_diff_bit(a: bytes, b: bytes) -> int:
    for i in range(min(len(a), len(b))):
        if a[i] != b[i]:
            x = a[i] ^ b[i]
            return i * 8 + (x & -x).bit_length() - 1
    return min(len(a), len(b)) * 8


def field_kinds(ct, v) -> typing.Set[str]:
    return valuegen.value_features(ct, v)


# ----------------------------------------------------------------------------------------------------------------- C01
def eval_c01(ctx: core.Ctx, ex: campaign.Executed, collect_fail):
    job, L = ex.job, ex.lab
    for ci, case in enumerate(job["cases"]):
        if case["op"] != "S":
            continue
        ct = L.ctypes[case["ti"]]
        v, _ = valuegen.from_words(ct, valuegen.hex_words(case["words"]))
        invalid = valuegen.is_invalid(ct, v)
        segs: list = []
        exp: typing.Optional[bytes] = None
        if not invalid:
            exp, segs = refmodel.serialize(ct, v)
            msg = refmodel.cross_check_serialize(ct, v)
            if msg:
                raise core.HarnessError(f"reference model self-check failed for {ct}: {msg}")
        inexact = (not invalid) and refmodel.has_inexact_float(ct, v)
        feats = field_kinds(ct, v)
        verdicts: typing.Dict[str, typing.Optional[str]] = {}
        for key, resp in ex.responses.items():
            r = resp[ci]
            if r is None:
                continue
            verdicts[key] = judge_S(ct, v, invalid, exp, segs, inexact, r, case)
        failed = [k for k, m in verdicts.items() if m]
        passed = [k for k, m in verdicts.items() if not m]
        nontrivial = type_is_interesting(ct) and (invalid or any(exp or b""))
        for key in verdicts:
            ctx.case(
                ("c01", str(ct), case["words"], key, case["prefill"], case["buf"]),
                nontrivial,
                sample={"type": str(ct), "value": _short(v), "target": key, "prefill": case["prefill"], "expected": (exp.hex() if exp is not None else "error")[:64]},
                classes=["dom." + case["dom"], "lang." + key.split("|")[0], "prefill." + case["prefill"]] + sorted(feats) + (["inexact_float_case"] if inexact else []),
            )
        if failed:
            kinds = sorted({verdicts[k].split(":")[0] for k in failed})  # type: ignore
            sig = f"C01|{discriminate(failed, passed)}|{'+'.join(kinds)}"
            collect_fail(sig, f"type {ct} value {_short(v)} prefill {case['prefill']}: " + "; ".join(f"{k}: {verdicts[k]}" for k in failed[:3]), ex, ci, failed)


def judge_S(ct, v, invalid, exp, segs, inexact, r, case) -> typing.Optional[str]:
    if "crash" in r:
        return f"crash:{r['crash'][:160]}"
    line = r["line"]
    if line.startswith("A "):
        return f"assertion-fired:{line[:120]}"
    if numpy2_incompat(line):
        return None
    if line.startswith("E "):
        return f"exception:{line[:160]}"
    if line.startswith("H "):
        raise core.HarnessError(f"harness protocol error: {line}")
    s = lab.parse_S(line)
    if "bad" in s:
        raise core.HarnessError(f"unparsable response {line!r}")
    if s.get("oversize"):
        return "reported-size-exceeds-buffer:"
    if invalid:
        if s["rc"] == 0:
            return f"unrepresentable-value-accepted:{s['bytes'].hex()[:40]}"
        if s["rc"] not in DOCUMENTED_ERRORS:
            return f"undocumented-error-code:{s['rc']}"
        return None
    if s["rc"] != 0:
        return f"valid-value-rejected:rc={s['rc']} {s.get('note', '')}"
    got = s["bytes"]
    if got == exp:
        return None
    if inexact:
        # faithful rounding tolerance: decode what was produced, each float must be a neighbour of the exact value,
        # everything else exact, and the bytes must be the canonical encoding of that decoded value
        try:
            dec, _ = refmodel.deserialize(ct, got)
            if len(got) == len(exp) and refmodel.values_faithful(ct, v, dec) and refmodel.serialize(ct, dec)[0] == got:
                return None
        except refmodel.RefError:
            pass
    if len(got) != len(exp):
        return f"wrong-size:{len(got)} != {len(exp)}"
    bit = first_diff_bit(got, exp)
    kind = seg_at(segs, bit)
    return f"wrong-bits-in-{kind}:bit {bit}, got {got.hex()[:48]} expected {exp.hex()[:48]}"


# ----------------------------------------------------------------------------------------------------------------- C02
def eval_c02(ctx: core.Ctx, ex: campaign.Executed, collect_fail):
    job, L = ex.job, ex.lab
    for ci, case in enumerate(job["cases"]):
        if case["op"] != "D" or case["mode"] != "F":
            continue
        ct = L.ctypes[case["ti"]]
        data = b"" if case["bytes"] == "-" else bytes.fromhex(case["bytes"])
        msg = refmodel.cross_check_deserialize(ct, data)
        if msg:
            raise core.HarnessError(f"reference model self-check failed for {ct}: {msg}")
        try:
            ev, econs = refmodel.deserialize(ct, data)
            eerr = None
        except refmodel.RefError as e:
            ev, econs, eerr = None, 0, e.kind
        verdicts: typing.Dict[str, typing.Optional[str]] = {}
        for key, resp in ex.responses.items():
            r = resp[ci]
            if r is None:
                continue
            verdicts[key] = judge_D(ct, data, ev, econs, eerr, r, key)
        failed = [k for k, m in verdicts.items() if m]
        passed = [k for k, m in verdicts.items() if not m]
        cls = case["cls"]
        nontrivial = cls[0] != "a" or _has_nested_var(ct)
        for key in verdicts:
            ctx.case(
                ("c02", str(ct), case["bytes"], key),
                nontrivial,
                sample={"type": str(ct), "bytes": case["bytes"][:64], "class": cls, "target": key, "expected": eerr or _short(ev)},
                classes=["bytes." + cls, "lang." + key.split("|")[0], "expect." + (eerr or "value")],
            )
        if failed:
            kinds = sorted({verdicts[k].split(":")[0] for k in failed})  # type: ignore
            sig = f"C02|{discriminate(failed, passed)}|{'+'.join(kinds)}"
            collect_fail(sig, f"type {ct} bytes {case['bytes'][:80]} (class {cls}), reference: {eerr or _short(ev)} consumed {econs}: " + "; ".join(f"{k}: {verdicts[k]}" for k in failed[:3]), ex, ci, failed)


def _has_nested_var(ct) -> bool:
    t = inner(ct)
    return any(isinstance(f.data_type, (pydsdl.VariableLengthArrayType, pydsdl.DelimitedType)) for f in t.fields_except_padding)


def decode_words(ct, words_hex: str):
    ws = valuegen.hex_words(words_hex)
    if 0xBADC0DE0BADC0DE0 in ws:
        return None
    v, pos = valuegen.from_words(ct, ws)
    if pos != len(ws):
        raise core.HarnessError("word stream length mismatch")
    return v


def judge_D(ct, data, ev, econs, eerr, r, key) -> typing.Optional[str]:
    if "crash" in r:
        return f"crash:{r['crash'][:160]}"
    line = r["line"]
    if line.startswith("A "):
        return f"assertion-fired:{line[:120]}"
    if numpy2_incompat(line):
        return None
    if line.startswith("E "):
        return f"exception:{line[:160]}"
    if line.startswith("H "):
        raise core.HarnessError(f"harness protocol error: {line}")
    d = lab.parse_D(line)
    if "bad" in d:
        raise core.HarnessError(f"unparsable response {line!r}")
    lang = key.split("|")[0]
    if eerr is not None:
        if d["rc"] == 0:
            return f"invalid-representation-accepted[{eerr}]:decoded {d['words'][:48]}"
        if lang != "py" and d["rc"] != ERR_CODE[eerr]:
            return f"wrong-error-kind[{eerr}]:rc={d['rc']}"
        return None
    if d["rc"] != 0:
        return f"valid-representation-rejected:rc={d['rc']}"
    got = decode_words(ct, d["words"])
    if got is None:
        return "count-exceeds-storage:"
    if not refmodel.values_equal(ct, got, ev):
        return f"wrong-value:got {_short(got)} expected {_short(ev)}"
    if lang != "py":
        if d["consumed"] > len(data):
            return f"consumed-exceeds-supplied:{d['consumed']} > {len(data)}"
        if d["consumed"] != econs:
            return f"wrong-consumed-size:{d['consumed']} != {econs}"
    return None


def _short(v, n: int = 160) -> str:
    s = repr(v)
    return s if len(s) <= n else s[:n] + "..."
