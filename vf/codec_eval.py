"""Evaluators for the codec-lab properties C01..C04 over campaign.Executed records."""
from __future__ import annotations

import collections
import math
import re
import typing

import pydsdl

from . import campaign, core, lab, refmodel, valuegen
from .refmodel import inner

DOCUMENTED_ERRORS = {-2, -3, -10, -11, -12}
NUMPY2: typing.Counter[str] = collections.Counter()
_NUMPY2_RE = re.compile(r"^E OverflowError (Python integer -?\d+ out of bounds for u?int\d+|Python int too large to convert to C long)")


def exc_kind(line: str) -> str:
    """'E <Type> <message>' -> stable discriminator: exception type + message with numbers and type names masked."""
    p = line.split(" ", 2)
    msg = p[2] if len(p) > 2 else ""
    msg = re.sub(r"[A-Za-z_][\w]*(\.[A-Za-z_][\w]*)+(\.\d+\.\d+)?", "<T>", msg)
    msg = re.sub(r"-?\d+", "<n>", msg)
    return f"exception[{p[1]} {' '.join(msg.split()[:4])}]"


def numpy2_incompat(line: str) -> bool:
    """
    Generated Python code documents `numpy ~= 1.24` (verification/python/generated_code_requirements.txt); only NumPy 2.x
    exists in this sandbox.  NEP-50 promotion makes `python_int + numpy_scalar` raise OverflowError where 1.x promoted.
    Those cases are an unmet environment assumption, not a codec error: counted, excluded from the verdict.
    """
    if _NUMPY2_RE.match(line):
        NUMPY2["numpy2_nep50_overflow"] += 1
        return True
    return False
ERR_CODE = {refmodel.BAD_ARRAY_LENGTH: -10, refmodel.BAD_UNION_TAG: -11, refmodel.BAD_DELIMITER_HEADER: -12}


def discriminate(failed: typing.List[str], passed: typing.List[str]) -> str:
    """Option values common to all failing target keys of one language and absent from all passing ones."""
    if not failed:
        return ""
    langs = sorted({k.split("|")[0] for k in failed})
    out = []
    for lang in langs:
        f = [k.split("|") for k in failed if k.split("|")[0] == lang]
        p = [k.split("|") for k in passed if k.split("|")[0] == lang]
        if lang == "py":
            out.append("py")
            continue
        names = ["endian", "asserts", "override"] if lang == "c" else ["std", "endian", "asserts", "container"]
        dis = []
        for i, n in enumerate(names, start=1):
            fv = {x[i] for x in f}
            pv = {x[i] for x in p}
            if len(fv) == 1 and not (fv & pv) and p:
                dis.append(f"{n}={next(iter(fv))}")
        out.append(lang + ("[" + ",".join(dis) + "]" if dis else ""))
    return "+".join(out)


def type_is_interesting(ct) -> bool:
    t = inner(ct)
    off = 0
    if isinstance(t, pydsdl.UnionType):
        return True
    for f in t.fields:
        dt = f.data_type
        if not isinstance(dt, (pydsdl.PrimitiveType, pydsdl.VoidType)):
            return True
        if off % 8:
            return True
        off += dt.bit_length
    return False


def seg_at(segs, bit: int) -> str:
    for kind, off, n, info in segs:
        if off <= bit < off + n:
            return kind
    return "beyond-end"


def first_diff_bit(a: bytes, b: bytes) -> int:
    for i in range(min(len(a), len(b))):
        if a[i] != b[i]:
            x = a[i] ^ b[i]
            return i * 8 + (x & -x).bit_length() - 1
    return min(len(a), len(b)) * 8


def field_kinds(ct, v) -> typing.Set[str]:
    return valuegen.value_features(ct, v)


# ----------------------------------------------------------------------------------------------------------------- C01
def eval_c01(ctx: core.Ctx, ex: campaign.Executed, collect_fail):
    job, L = ex.job, ex.lab
    for ci, case in enumerate(job["cases"]):
        if case["op"] != "S":
            continue
        ct = L.ctypes[case["ti"]]
        v, _ = valuegen.from_words(ct, valuegen.hex_words(case["words"]))
        invalid = valuegen.is_invalid(ct, v)
        segs: list = []
        exp: typing.Optional[bytes] = None
        if not invalid:
            exp, segs = refmodel.serialize(ct, v)
            msg = refmodel.cross_check_serialize(ct, v)
            if msg:
                raise core.HarnessError(f"reference model self-check failed for {ct}: {msg}")
        inexact = (not invalid) and refmodel.has_inexact_float(ct, v)
        feats = field_kinds(ct, v)
        verdicts: typing.Dict[str, typing.Optional[str]] = {}
        for key, resp in ex.responses.items():
            r = resp[ci]
            if r is None:
                continue
            verdicts[key] = judge_S(ct, v, invalid, exp, segs, inexact, r, case)
        failed = [k for k, m in verdicts.items() if m]
        passed = [k for k, m in verdicts.items() if not m]
        nontrivial = type_is_interesting(ct) and (invalid or any(exp or b""))
        for key in verdicts:
            ctx.case(
                ("c01", str(ct), case["words"], key, case["prefill"], case["buf"]),
                nontrivial,
                sample={"type": str(ct), "value": _short(v), "target": key, "prefill": case["prefill"], "expected": (exp.hex() if exp is not None else "error")[:64]},
                classes=["dom." + case["dom"], "lang." + key.split("|")[0], "prefill." + case["prefill"]] + sorted(feats) + (["inexact_float_case"] if inexact else []),
            )
        if failed:
            kinds = sorted({verdicts[k].split(":")[0] for k in failed})  # type: ignore
            sig = f"C01|{discriminate(failed, passed)}|{'+'.join(kinds)}"
            collect_fail(sig, f"type {ct} value {_short(v)} prefill {case['prefill']}: " + "; ".join(f"{k}: {verdicts[k]}" for k in failed[:3]), ex, ci, failed)


def judge_S(ct, v, invalid, exp, segs, inexact, r, case) -> typing.Optional[str]:
    if "crash" in r:
        return f"crash:{r['crash'][:160]}"
    line = r["line"]
    if line.startswith("A "):
        return f"assertion-fired:{line[:120]}"
    if numpy2_incompat(line):
        return None
    if line.startswith("E "):
        return f"{exc_kind(line)}:{line[:160]}"
    if line.startswith("H "):
        raise core.HarnessError(f"harness protocol error: {line}")
    s = lab.parse_S(line)
    if "bad" in s:
        raise core.HarnessError(f"unparsable response {line!r}")
    if s.get("oversize"):
        return "reported-size-exceeds-buffer:"
    if invalid:
        if s["rc"] == 0:
            return f"unrepresentable-value-accepted:{s['bytes'].hex()[:40]}"
        if s["rc"] not in DOCUMENTED_ERRORS:
            return f"undocumented-error-code:{s['rc']}"
        return None
    if s["rc"] != 0:
        return f"valid-value-rejected:rc={s['rc']} {s.get('note', '')}"
    got = s["bytes"]
    if got == exp:
        return None
    if inexact:
        # faithful rounding tolerance: decode what was produced, each float must be a neighbour of the exact value,
        # everything else exact, and the bytes must be the canonical encoding of that decoded value
        try:
            dec, _ = refmodel.deserialize(ct, got)
            if len(got) == len(exp) and refmodel.values_faithful(ct, v, dec) and refmodel.serialize(ct, dec)[0] == got:
                return None
        except refmodel.RefError:
            pass
    if len(got) != len(exp):
        return f"wrong-size:{len(got)} != {len(exp)}"
    bit = first_diff_bit(got, exp)
    kind = seg_at(segs, bit)
    return f"wrong-bits-in-{kind}:bit {bit}, got {got.hex()[:48]} expected {exp.hex()[:48]}"


# ----------------------------------------------------------------------------------------------------------------- C02
def eval_c02(ctx: core.Ctx, ex: campaign.Executed, collect_fail):
    job, L = ex.job, ex.lab
    for ci, case in enumerate(job["cases"]):
        if case["op"] != "D" or case["mode"] != "F":
            continue
        ct = L.ctypes[case["ti"]]
        data = b"" if case["bytes"] == "-" else bytes.fromhex(case["bytes"])
        msg = refmodel.cross_check_deserialize(ct, data)
        if msg:
            raise core.HarnessError(f"reference model self-check failed for {ct}: {msg}")
        try:
            ev, econs = refmodel.deserialize(ct, data)
            eerr = None
        except refmodel.RefError as e:
            ev, econs, eerr = None, 0, e.kind
        verdicts: typing.Dict[str, typing.Optional[str]] = {}
        for key, resp in ex.responses.items():
            r = resp[ci]
            if r is None:
                continue
            verdicts[key] = judge_D(ct, data, ev, econs, eerr, r, key)
        failed = [k for k, m in verdicts.items() if m]
        passed = [k for k, m in verdicts.items() if not m]
        cls = case["cls"]
        nontrivial = cls[0] != "a" or _has_nested_var(ct)
        for key in verdicts:
            ctx.case(
                ("c02", str(ct), case["bytes"], key),
                nontrivial,
                sample={"type": str(ct), "bytes": case["bytes"][:64], "class": cls, "target": key, "expected": eerr or _short(ev)},
                classes=["bytes." + cls, "lang." + key.split("|")[0], "expect." + (eerr or "value")],
            )
        if failed:
            kinds = sorted({verdicts[k].split(":")[0] for k in failed})  # type: ignore
            sig = f"C02|{discriminate(failed, passed)}|{'+'.join(kinds)}"
            collect_fail(sig, f"type {ct} bytes {case['bytes'][:80]} (class {cls}), reference: {eerr or _short(ev)} consumed {econs}: " + "; ".join(f"{k}: {verdicts[k]}" for k in failed[:3]), ex, ci, failed)


def _has_nested_var(ct) -> bool:
    t = inner(ct)
    return any(isinstance(f.data_type, (pydsdl.VariableLengthArrayType, pydsdl.DelimitedType)) for f in t.fields_except_padding)


def decode_words(ct, words_hex: str):
    if words_hex == "!COUNT":
        return None
    ws = valuegen.hex_words(words_hex)
    v, pos = valuegen.from_words(ct, ws)
    if pos != len(ws):
        raise core.HarnessError("word stream length mismatch")
    return v


def judge_D(ct, data, ev, econs, eerr, r, key) -> typing.Optional[str]:
    if "crash" in r:
        return f"crash:{r['crash'][:160]}"
    line = r["line"]
    if line.startswith("A "):
        return f"assertion-fired:{line[:120]}"
    if numpy2_incompat(line):
        return None
    if line.startswith("E "):
        return f"{exc_kind(line)}:{line[:160]}"
    if line.startswith("H "):
        raise core.HarnessError(f"harness protocol error: {line}")
    d = lab.parse_D(line)
    if "bad" in d:
        raise core.HarnessError(f"unparsable response {line!r}")
    lang = key.split("|")[0]
    if eerr is not None:
        if d["rc"] == 0:
            return f"invalid-representation-accepted[{eerr}]:decoded {d['words'][:48]}"
        if lang != "py" and d["rc"] != ERR_CODE[eerr]:
            return f"wrong-error-kind[{eerr}]:rc={d['rc']}"
        return None
    if d["rc"] != 0:
        return f"valid-representation-rejected:rc={d['rc']}"
    got = decode_words(ct, d["words"])
    if got is None:
        return "count-exceeds-storage:"
    if not refmodel.values_equal(ct, got, ev):
        return f"wrong-value:got {_short(got)} expected {_short(ev)}"
    if lang != "py":
        if d["consumed"] > len(data):
            return f"consumed-exceeds-supplied:{d['consumed']} > {len(data)}"
        if d["consumed"] != econs:
            return f"wrong-consumed-size:{d['consumed']} != {econs}"
    return None


def _short(v, n: int = 160) -> str:
    s = repr(v)
    return s if len(s) <= n else s[:n] + "..."


# ----------------------------------------------------------------------------------------------------------------- C04
def eval_c04(ctx: core.Ctx, ex: campaign.Executed, collect_fail):
    """
    (i) no sanitizer report / crash / leak / assertion; (ii) return code is success or a documented error;
    (iii) a decode's (rc, consumed, value) is identical for every prior state of the destination (fresh, zeroed, poisoned,
    pre-loaded with another value, object kept from earlier decodes); (iv) reduced-capacity builds never report more
    elements than they have storage for.
    """
    job, L = ex.job, ex.lab
    fresh: typing.Dict[typing.Tuple[str, int, str], str] = {}
    for key, resp in ex.responses.items():
        if key.startswith("py"):
            continue
        for ci, case in enumerate(job["cases"]):
            r = resp[ci]
            if r is None or case["op"] != "D" or case["mode"] != "F":
                continue
            if "line" in r:
                fresh[(key, case["ti"], case["bytes"])] = r["line"]
    for ci, case in enumerate(job["cases"]):
        ct = L.ctypes[case["ti"]]
        verdicts: typing.Dict[str, typing.Optional[str]] = {}
        for key, resp in ex.responses.items():
            if key.startswith("py"):
                continue
            r = resp[ci]
            if r is None:
                continue
            reduced = key.startswith("c|") and key.endswith("|1") and bool(job.get("cap_overrides"))
            m = None
            if "crash" in r:
                m = "crash:" + _san_kind(r["crash"]) + " " + r["crash"][:200]
            elif "exit_failure" in r:
                m = "exit-failure:" + _san_kind(r["exit_failure"]["stderr"]) + " " + r["exit_failure"]["stderr"][:200]
            else:
                line = r["line"]
                if line.startswith("A "):
                    m = f"assertion-fired:{line[:120]}"
                elif line.startswith("H "):
                    raise core.HarnessError(f"harness protocol error: {line}")
                else:
                    p = line.split()
                    rc = int(p[1])
                    if rc != 0 and rc not in DOCUMENTED_ERRORS:
                        m = f"undocumented-return-code:{rc}"
                    elif p[0] == "S" and len(p) > 3 and p[3] == "OVERSIZE":
                        m = "reported-size-exceeds-buffer:"
                    elif p[0] == "D" and rc == 0 and int(p[2]) > (0 if case["bytes"] == "-" else len(case["bytes"]) // 2):
                        m = f"consumed-exceeds-supplied:{p[2]}"
                    elif p[0] == "D" and rc == 0 and p[3] == "!COUNT":
                        m = "count-exceeds-storage:decoded object claims more elements than its (reduced) capacity"
                    elif p[0] == "D" and case["mode"] != "F":
                        f = fresh.get((key, case["ti"], case["bytes"]))
                        if f is not None and not _same_decode(ct, f, line):
                            m = f"prior-state-influence[{case['mode']}]:fresh {f[:90]} vs {line[:90]}"
            verdicts[key] = m
            mode = case.get("mode", "-")
            nontrivial = (
                (case["op"] == "D" and mode != "F" and _has_var_or_union(ct))
                or (case["op"] == "D" and (0 if case["bytes"] == "-" else len(case["bytes"]) // 2) < (inner(ct).bit_length_set.min + 7) // 8)
                or (case["op"] == "S" and case["dom"] == "invalid")
                or reduced
            )
            ctx.case(
                ("c04", str(ct), key, case.get("words"), case.get("bytes"), mode, case.get("buf"), case.get("prior")),
                nontrivial,
                sample={"type": str(ct), "target": key, "op": case["op"], "mode": mode, "input": (case.get("bytes") or case.get("words"))[:48]},
                classes=["op." + case["op"], "mode." + mode, "lang." + key.split("|")[0]] + (["reduced_capacity_build"] if reduced else []) + (["dom." + case["dom"]] if case["op"] == "S" else ["bytes." + case["cls"]]),
            )
        # one failure record per (root-cause class, kind): reduced-capacity builds are classified by whether the input really
        # carries an array longer than the reduced capacity (then it is the capacity-override defect) or not (something else)
        by_kind: typing.Dict[str, typing.List[str]] = collections.defaultdict(list)
        for k, m in verdicts.items():
            if not m:
                continue
            kind = m.split(":")[0]
            if kind in ("crash", "exit-failure"):
                kind += _san_kind(m)
            if k.startswith("c|") and k.endswith("|1") and job.get("cap_overrides"):
                over = _exceeds_reduced(L, job, case)
                kind = "reduced-capacity-build|" + ("array-longer-than-reduced-capacity|" if over else "within-reduced-capacity|") + kind
            by_kind[kind].append(k)
        passed = [k for k, m in verdicts.items() if not m]
        for kind, failed in by_kind.items():
            lang = discriminate(failed, passed) if not kind.startswith("reduced-capacity-build") else "c"
            sig = f"C04|{lang}|{kind}"
            collect_fail(sig, f"type {ct} case {_short(case, 200)}: " + "; ".join(f"{k}: {verdicts[k]}" for k in failed[:3]), ex, ci, failed)


def _exceeds_reduced(L, job, case) -> bool:
    """Does the input carry (anywhere) a variable-length array longer than the reduced capacity of its field?"""
    from .emit_c import c_type_name

    ct = L.ctypes[case["ti"]]
    ov = job.get("cap_overrides") or {}
    try:
        if case["op"] == "S":
            v, _ = valuegen.from_words(ct, valuegen.hex_words(case["words"]))
        else:
            v, _ = refmodel.deserialize(ct, b"" if case["bytes"] == "-" else bytes.fromhex(case["bytes"]))
    except refmodel.RefError:
        return True  # the reference rejects on the way; the bytes may still carry an over-long array before the error

    def walk(t, val) -> bool:
        if isinstance(t, pydsdl.PrimitiveType):
            return False
        if isinstance(t, pydsdl.ArrayType):
            return any(walk(t.element_type, e) for e in val)
        t = inner(t)
        if isinstance(t, pydsdl.UnionType):
            (name, x), = val.items()
            if name == "__tag__":
                return False
            fs = [f for f in t.fields if f.name == name]
        else:
            fs = list(t.fields_except_padding)
        for f in fs:
            x = val[f.name]
            k = ov.get(f"{c_type_name(t)}_{f.name}_ARRAY_CAPACITY_")
            if k is not None and isinstance(f.data_type, pydsdl.VariableLengthArrayType) and len(x) > k:
                return True
            if walk(f.data_type, x):
                return True
        return False

    return walk(ct, v)


def _san_kind(text: str) -> str:
    for k in ("heap-buffer-overflow", "stack-buffer-overflow", "heap-use-after-free", "SEGV", "detected memory leaks", "runtime error", "attempting double-free", "alloc-dealloc-mismatch", "ASSERT"):
        if k in text:
            return "[" + k.replace(" ", "-") + "]"
    return "[other]"


def _same_decode(ct, a: str, b: str) -> bool:
    pa, pb = a.split(), b.split()
    if pa[1] != pb[1] or pa[2] != pb[2]:
        return False
    if pa[1] != "0":
        return True
    if pa[3] == pb[3]:
        return True
    va, vb = decode_words(ct, pa[3]), decode_words(ct, pb[3])
    return va is not None and vb is not None and refmodel.values_equal(ct, va, vb)


def _has_var_or_union(ct) -> bool:
    t = inner(ct)
    if isinstance(t, pydsdl.UnionType):
        return True

    def walk(dt) -> bool:
        if isinstance(dt, pydsdl.VariableLengthArrayType):
            return True
        if isinstance(dt, pydsdl.ArrayType):
            return walk(dt.element_type)
        if isinstance(dt, pydsdl.CompositeType):
            return _has_var_or_union(dt)
        return False

    return any(walk(f.data_type) for f in t.fields_except_padding)


# ----------------------------------------------------------------------------------------------------------------- C03
def eval_c03_cross(ctx: core.Ctx, ex: campaign.Executed, collect_fail):
    """Cross-target / cross-option agreement -- no reference codec involved."""
    job, L = ex.job, ex.lab
    for ci, case in enumerate(job["cases"]):
        ct = L.ctypes[case["ti"]]
        outs: typing.Dict[str, typing.Any] = {}
        for key, resp in ex.responses.items():
            r = resp[ci]
            if r is None:
                continue
            if "crash" in r:
                outs[key] = ("crash",)
                continue
            line = r["line"]
            if numpy2_incompat(line):
                continue
            if line.startswith("A "):
                outs[key] = ("assert", line[:100])
            elif line.startswith("E "):
                outs[key] = (exc_kind(line), line[:100])
            elif line.startswith("H "):
                raise core.HarnessError(line)
            elif case["op"] == "S":
                s = lab.parse_S(line)
                outs[key] = ("ok", s["bytes"]) if s["rc"] == 0 and not s.get("oversize") else ("error",)
            else:
                d = lab.parse_D(line)
                outs[key] = ("ok", d["words"]) if d["rc"] == 0 else ("error",)
        if len(outs) < 2:
            continue
        v = None
        special = False
        if case["op"] == "S":
            v, _ = valuegen.from_words(ct, valuegen.hex_words(case["words"]))
            feats = valuegen.value_features(ct, v)
            # the specification fixes neither NaN payloads nor the rounding direction of inexact floats: such values are
            # compared within one language only (C and C++ share the conversion routine)
            special = bool(feats & {"v.nan", "v.inexact_float"})
        groups: typing.Dict[str, typing.List[str]] = collections.defaultdict(list)
        for key, o in outs.items():
            if o[0] == "ok" and case["op"] == "D":
                val = decode_words(ct, o[1])
                rep = "ok:" + repr(_canon(ct, val))
            elif o[0] == "ok":
                rep = "ok:" + o[1].hex()
            else:
                rep = o[0]
            groups[rep].append(key)
        families = [["c", "cpp"], ["py"]] if special else [["c", "cpp", "py"]]
        n_opt_sets = len({k for k in outs if k.startswith("c|")}) >= 2 or len({k for k in outs if k.startswith("cpp|")}) >= 2
        nontrivial = len({k.split("|")[0] for k in outs}) >= 2 and n_opt_sets and any(g.startswith("ok:") and g.strip("ok:0") for g in groups)
        ctx.case(
            ("c03x", str(ct), case.get("words"), case.get("bytes"), sorted(outs)),
            nontrivial,
            sample={"type": str(ct), "op": case["op"], "input": (case.get("bytes") or case.get("words"))[:48], "targets": sorted(outs), "agreed_outcome": next(iter(groups))[:60]},
            classes=["x.op." + case["op"], "x.targets=%d" % len(outs)] + (["x.special_float_within_language_only"] if special else []),
        )
        for fam in families:
            sub = {rep: [k for k in keys if k.split("|")[0] in fam] for rep, keys in groups.items()}
            sub = {rep: keys for rep, keys in sub.items() if keys}
            if len(sub) > 1:
                # minority outcome = suspect; describe the split
                ordered = sorted(sub.items(), key=lambda kv: -len(kv[1]))
                minority = [k for _, keys in ordered[1:] for k in keys]
                majority = ordered[0][1]
                kinds = "+".join(sorted({rep.split(":")[0] for rep in sub}))
                sig = f"C03|cross|{case['op']}|{discriminate(minority, majority)}|{kinds}"
                what = f"type {ct} {case['op']} input {(case.get('bytes') or case.get('words'))[:80]}: " + " VS ".join(f"{keys}: {rep[:100]}" for rep, keys in ordered)
                collect_fail(sig, what, ex, ci, sorted(outs))
        for key, o in outs.items():
            if o[0] == "assert":
                collect_fail(f"C03|assertion-fired|{key.split('|')[0]}", f"type {ct}: {o[1]} on {_short(case, 160)}", ex, ci, [key])


def _canon(t, v):
    """Canonical comparable form (NaN-ness only, -0.0 kept)."""
    if isinstance(t, pydsdl.FloatType):
        return "nan" if math.isnan(v) else repr(v)
    if isinstance(t, pydsdl.PrimitiveType):
        return int(v)
    if isinstance(t, pydsdl.ArrayType):
        return [_canon(t.element_type, e) for e in v]
    t = inner(t)
    if isinstance(t, pydsdl.UnionType):
        (name, val), = v.items()
        if name == "__tag__":
            return {"__tag__": val}
        f = [f for f in t.fields if f.name == name][0]
        return {name: _canon(f.data_type, val)}
    return {f.name: _canon(f.data_type, v[f.name]) for f in t.fields_except_padding}
