"""
Common machinery: check context (counters, failures, evidence), known-findings matching, replay files,
and the collect-then-shrink Hypothesis driver shared by the in-process properties.

Exit protocol (see DESIGN.md §2): 0 held / 1 VIOLATION / 2 harness error or inconclusive.
"""
from __future__ import annotations

import collections
import hashlib
import json
import os
import pathlib
import sys
import time
import traceback
import typing

VERIF = pathlib.Path(__file__).resolve().parent.parent
REPO = pathlib.Path(os.environ.get("VERIF_REPO", "/repo"))
EVIDENCE_DIR = pathlib.Path(os.environ.get("VF_EVIDENCE_DIR", VERIF / "evidence"))
REPLAY_DIR = pathlib.Path(os.environ.get("VF_REPLAY_DIR", VERIF / "replays"))
FINDINGS_FILE = VERIF / "known_findings.json"


class HarnessError(Exception):
    """Something in the machinery (not in nunavut) went wrong: exit 2, never a violation."""


def jhash(obj: typing.Any) -> str:
    return hashlib.sha256(json.dumps(obj, sort_keys=True, default=repr).encode()).hexdigest()[:16]


def load_known() -> typing.List[dict]:
    if not FINDINGS_FILE.exists():
        return []
    return json.loads(FINDINGS_FILE.read_text())["findings"]


class Ctx:
    def __init__(self, prop: str, tier: str, seed: int, level: str = "exploration"):
        self.prop = prop
        self.tier = tier
        self.seed = seed
        self.level = level
        self.quick = tier == "quick"
        self.t0 = time.time()
        self.evaluations = 0
        self._nontrivial: typing.Set[str] = set()
        self.samples: typing.List[typing.Any] = []
        self.max_samples = 8
        self.hist: typing.Counter[str] = collections.Counter()
        self.failures: "collections.OrderedDict[str, dict]" = collections.OrderedDict()
        self.assumptions: typing.List[str] = []
        self.rule = ""
        self.extra: typing.Dict[str, typing.Any] = {}
        self.counting = True
        self.exhaustive: typing.Optional[bool] = None
        self.known = [k for k in load_known() if k.get("property") == prop]
        self.known_sigs = {k["signature"]: k for k in self.known if k.get("status") == "known"}
        self.excluded_known: typing.Counter[str] = collections.Counter()
        self.minimums: typing.Dict[str, int] = {}

    # ------------------------------------------------------------------ counting
    def case(self, key: typing.Any, nontrivial: bool, sample: typing.Any = None, classes: typing.Iterable[str] = ()):
        if not self.counting:
            return
        self.evaluations += 1
        for c in classes:
            self.hist[c] += 1
        if nontrivial:
            h = key if isinstance(key, str) and len(key) == 16 else jhash(key)
            if h not in self._nontrivial:
                self._nontrivial.add(h)
                if sample is not None and len(self.samples) < self.max_samples:
                    # spread the samples: take every new one until full
                    self.samples.append(sample)

    def bulk(self, evaluations: int, nontrivial_keys: typing.Iterable[str] = (), classes: typing.Mapping[str, int] = {}):
        """Merge counters from a worker process."""
        if not self.counting:
            return
        self.evaluations += evaluations
        self._nontrivial.update(nontrivial_keys)
        for k, v in classes.items():
            self.hist[k] += v

    def event(self, name: str, n: int = 1):
        if self.counting:
            self.hist[name] += n

    def require(self, cls: str, minimum: int):
        """Generator completeness: class `cls` must have been hit at least `minimum` times."""
        self.minimums[cls] = minimum

    def is_known(self, signature: str) -> bool:
        return signature in self.known_sigs

    # ------------------------------------------------------------------ failures
    def fail(self, signature: str, what: str, replay: typing.Any):
        if not self.counting:
            return
        if signature in self.known_sigs:
            self.excluded_known[signature] += 1
        ent = self.failures.get(signature)
        if ent is None:
            self.failures[signature] = {"what": what, "replay": replay, "count": 1}
        else:
            ent["count"] += 1
            # keep the smallest reproduction seen
            try:
                if len(json.dumps(replay, default=repr)) < len(json.dumps(ent["replay"], default=repr)):
                    ent["replay"] = replay
                    ent["what"] = what
            except Exception:  # pragma: no cover
                pass

    def set_min_replay(self, signature: str, what: str, replay: typing.Any):
        if signature in self.failures:
            self.failures[signature]["replay"] = replay
            self.failures[signature]["what"] = what

    # ------------------------------------------------------------------ finish
    def finish(self, harness_error: typing.Optional[str] = None) -> int:
        REPLAY_DIR.mkdir(parents=True, exist_ok=True)
        EVIDENCE_DIR.mkdir(parents=True, exist_ok=True)
        violations = 0
        known_hit = []
        viol_list = []
        for sig, ent in self.failures.items():
            if sig in self.known_sigs:
                known_hit.append(sig)
                print(f"KNOWN-FINDING: property={self.prop} {self.known_sigs[sig].get('what', ent['what'])} [{sig}] (x{ent['count']})")
                continue
            violations += 1
            path = REPLAY_DIR / f"{self.prop}-{jhash(sig)}.json"
            path.write_text(
                json.dumps(
                    {"property": self.prop, "signature": sig, "what": ent["what"], "case": ent["replay"], "seed": self.seed},
                    indent=1,
                    default=repr,
                )
            )
            viol_list.append({"signature": sig, "what": ent["what"][:400], "count": ent["count"], "replay": str(path)})
            print(f"VIOLATION property={self.prop} replay={path}")
            print(f"  signature: {sig}\n  what: {ent['what'][:2000]}")
        short = []
        for cls, m in self.minimums.items():
            if self.hist.get(cls, 0) < m:
                short.append(f"{cls}: {self.hist.get(cls, 0)} < {m}")
        if short and harness_error is None and violations == 0:
            harness_error = "generator completeness minimums not met: " + "; ".join(short)
        cov = {
            "evaluations": int(self.evaluations),
            "distinct_nontrivial": len(self._nontrivial),
            "rule": self.rule,
            "samples": self.samples[: self.max_samples] or ["<none>"],
            "classes": dict(sorted(self.hist.items())),
            "known_findings_hit": known_hit,
            "excluded_known": dict(self.excluded_known),
            "failure_buckets": {s: e["count"] for s, e in self.failures.items()},
            "violations_detail": viol_list,
        }
        if self.exhaustive is not None:
            cov["exhaustive"] = self.exhaustive
        cov.update(self.extra)
        if harness_error:
            cov["harness_error"] = harness_error[:2000]
        ev = {
            "property_id": self.prop,
            "tier": self.tier,
            "seed": self.seed,
            "level": self.level,
            "coverage": cov,
            "assumptions": self.assumptions,
            "wall_s": round(time.time() - self.t0, 2),
            "violations": violations,
        }
        (EVIDENCE_DIR / f"{self.prop}.json").write_text(json.dumps(ev, indent=1, default=repr) + "\n")
        print(
            f"[{self.prop}] tier={self.tier} seed={self.seed} evaluations={self.evaluations} "
            f"distinct_nontrivial={len(self._nontrivial)} violations={violations} known={len(known_hit)} "
            f"wall={ev['wall_s']}s"
        )
        if violations:
            return 1
        if harness_error:
            print(f"HARNESS-ERROR property={self.prop}: {harness_error}", file=sys.stderr)
            return 2
        return 0


# ---------------------------------------------------------------------------------------------------------------------
# Hypothesis driver: collect all failing signatures during generation, then shrink one per unknown signature.
# ---------------------------------------------------------------------------------------------------------------------

MAX_SHRINKS = 3
SHRINK_DEADLINE_S = 600  # no new shrink is started after this much wall time (a budget, never a verdict)

CheckFn = typing.Callable[[typing.Any], typing.List[typing.Tuple[str, str]]]


def hsettings(max_examples: int, shrink: bool = False, **kw):
    from hypothesis import HealthCheck, Phase, settings

    phases = [Phase.generate] + ([Phase.shrink] if shrink else [])
    return settings(
        max_examples=max_examples,
        database=None,
        deadline=None,
        derandomize=False,
        report_multiple_bugs=False,
        suppress_health_check=list(HealthCheck),
        phases=phases,
        print_blob=False,
        **kw,
    )


def explore(
    ctx: Ctx,
    strategy,
    check: CheckFn,
    max_examples: int,
    to_json: typing.Callable[[typing.Any], typing.Any] = lambda c: c,
    shrink_budget: int = 300,
    seed_offset: int = 0,
):
    """
    Run `check(case)` on `max_examples` generated cases.  `check` returns a list of (signature, what) for every
    oracle disagreement (it never raises for those) and calls ctx.case() itself.  Afterwards every signature that is not
    a listed known finding is shrunk with Hypothesis' shrinker (same seed, test fails only on that signature).
    """
    import hypothesis
    from hypothesis import given

    seed = ctx.seed * 1000003 + seed_offset

    @hypothesis.seed(seed)
    @hsettings(max_examples)
    @given(strategy)
    def collect(case):
        for sig, what in check(case):
            ctx.fail(sig, what, to_json(case))

    collect()

    if os.environ.get("VF_NO_SHRINK"):
        return
    for sig in [s for s in ctx.failures if not ctx.is_known(s)][:MAX_SHRINKS]:
        if time.time() - ctx.t0 > SHRINK_DEADLINE_S:
            break  # keep the unshrunk (smallest seen) reproduction
        last: dict = {}
        find = _make_find(strategy, check, to_json, sig, last, seed, max_examples + shrink_budget)
        ctx.counting = False
        try:
            find()
        except AssertionError:
            pass
        except Exception:  # Flaky etc. -- keep the unshrunk reproduction
            traceback.print_exc()
        finally:
            ctx.counting = True
        if "case" in last:
            ctx.set_min_replay(sig, last["what"], last["case"])


def _make_find(strategy, check, to_json, sig, last, seed, budget):
    import hypothesis
    from hypothesis import given

    @hypothesis.seed(seed)
    @hsettings(budget, shrink=True)
    @given(strategy)
    def find(case):
        for s, what in check(case):
            if s == sig:
                last["case"] = to_json(case)
                last["what"] = what
                raise AssertionError(sig)

    return find


def run_replay(ctx: Ctx, path: str, replay_fn: typing.Callable[[typing.Any], typing.List[typing.Tuple[str, str]]]) -> int:
    doc = json.loads(pathlib.Path(path).read_text())
    res = replay_fn(doc["case"])
    if res:
        for sig, what in res:
            print(f"VIOLATION property={ctx.prop} replay={path}\n  signature: {sig}\n  what: {what[:2000]}")
        return 1
    print(f"[{ctx.prop}] replay {path}: property held")
    return 0
