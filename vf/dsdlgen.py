"""
DSDL universe generator (DESIGN.md §3.1).

A *universe* is a JSON-able IR:
  {"roots": [{"name": "rootns", "types": [TypeDef, ...]}, ...]}          (types in dependency order; root j may refer to roots < j)
TypeDef:
  {"ns": ["rootns", "sub"], "name": "Foo", "major": 1, "minor": 0, "port_id": None|int, "kind": "struct"|"union"|"service",
   "deprecated": bool, "doc": [str...], "body": Body}      (service: "body": {"request": Body, "response": Body})
Body:  {"union": bool, "sealed": bool, "extent_extra": k (bytes added to the max size, used when not sealed), "attrs": [Attr...]}
Attr:  {"k": "field", "type": T, "name": str, "doc": str|None} | {"k": "void", "bits": n}
       | {"k": "const", "type": T(prim), "name": str, "value": "<dsdl expression>"}
T:     {"t": "bool"} | {"t": "uint"|"int", "bits": n, "cast": "saturated"|"truncated"} | {"t": "float", "bits": 16|32|64, "cast": ..}
       | {"t": "byte"} | {"t": "utf8"}   (only as array elements)
       | {"t": "ref", "full": "rootns.sub.Foo", "major": M, "minor": m}
       | {"t": "farr", "elem": T, "n": k} | {"t": "varr", "elem": T, "cap": k, "incl": bool}

Everything is drawn through Hypothesis; names come from weighted pools so that reserved words of the target languages are
frequent when the profile asks for them.  Sets in which two names of one scope fold onto one identifier (case, leading or
trailing underscores) are excluded by construction.
"""
from __future__ import annotations

import pathlib
import typing

from hypothesis import strategies as st

# --------------------------------------------------------------------------------------------------------------- names
PLAIN_FIELDS = ["a", "b", "c", "x", "y", "foo", "bar", "baz", "speed", "value_1", "temp_k", "flags", "data", "len_", "idx", "m1", "q", "w"]
PLAIN_TYPES = ["A", "B", "C", "D", "Foo", "Bar", "Baz", "Msg", "Node", "Rec", "Item", "Pt", "Vec"]
PLAIN_NS = ["alpha", "beta", "gamma", "delta", "sub", "msgs", "x1", "pkg"]

C_KEYWORDS = ["register", "for", "while", "switch", "case", "default", "static", "extern", "volatile", "restrict", "inline",
              "struct", "union", "enum", "typedef", "sizeof", "goto", "return", "double", "long", "short", "char", "signed",
              "unsigned", "auto", "break", "continue", "do", "else", "if"]
CPP_KEYWORDS = ["class", "namespace", "template", "typename", "this", "new", "delete", "operator", "private", "public",
                "protected", "virtual", "friend", "try", "catch", "throw", "using", "constexpr", "nullptr", "and", "or", "not",
                "xor", "bitand", "export", "mutable", "explicit", "noexcept", "decltype", "alignas", "concept", "requires",
                "co_await", "char8_t"]
PY_KEYWORDS = ["def", "None", "True", "False", "lambda", "pass", "import", "from", "as", "with", "yield", "global", "nonlocal",
               "assert", "async", "await", "del", "elif", "except", "finally", "in", "is", "raise", "print", "id", "list",
               "dict", "type", "object", "len", "str", "bytes", "range", "self", "property", "super", "min", "max", "map"]
RESERVED_PATTERNS = ["_Bool", "_Upper", "__x", "x__y", "_", "__", "EINVAL", "ERANGE", "SIGTERM", "SIG_IGN", "strcat", "memcpy_x",
                     "uint8_t", "int_fast8_t", "atomic_x", "memory_order_x", "FE_ALL", "LC_ALL", "INT8_MAX", "UINT8_C", "PRIx",
                     "mtx_x", "isalpha", "toupper", "wcsx", "E2BIG", "stdin_t", "size_t", "ptrdiff_t"]
TEMPLATE_INTERNAL = ["count", "elements", "value", "union_value", "allocator", "buffer", "obj", "serialize", "deserialize",
                     "std", "out_obj", "offset_bits", "capacity_bytes", "inout_buffer_size_bytes", "result", "self_",
                     "_tag_", "tag", "index", "size", "begin", "end", "first", "second", "VariantType", "_traits_",
                     "nunavut", "cetl", "numpy", "np", "pydsdl", "in_buffer", "out_buffer", "i", "err", "rc"]
STDLIB_MACROS = ["NULL", "errno", "assert", "EOF", "stdin", "stdout", "bool", "true", "false", "offsetof", "INFINITY", "NAN",
                 "CHAR_BIT", "static_assert", "complex", "I", "noreturn", "alignof"]

NAME_CLASSES = {
    "plain": None,
    "c_kw": C_KEYWORDS,
    "cpp_kw": CPP_KEYWORDS,
    "py_kw": PY_KEYWORDS,
    "pattern": RESERVED_PATTERNS,
    "internal": TEMPLATE_INTERNAL,
    "macro": STDLIB_MACROS,
}

PROFILES = {
    # weights of the name classes (plain, c_kw, cpp_kw, py_kw, pattern, internal, macro)
    "plain": (1, 0, 0, 0, 0, 0, 0),
    "mixed": (12, 2, 2, 2, 2, 1, 0),
    "adversarial": (6, 4, 4, 4, 4, 3, 1),
    # adversarial without the stdlib-macro class (C06 runs that class as a separate, exhaustive sub-campaign so that it
    # cannot mask keyword / reserved-pattern findings)
    "adversarial_nomacro": (6, 4, 4, 4, 4, 3, 0),
}


def _dsdl_name_ok(name: str) -> bool:
    from pydsdl._serializable._name import check_name

    try:
        check_name(name)
        return True
    except Exception:
        return False


_VALID_CACHE: typing.Dict[str, typing.List[str]] = {}


def _pool(cls: str) -> typing.List[str]:
    if cls not in _VALID_CACHE:
        _VALID_CACHE[cls] = [n for n in NAME_CLASSES[cls] if _dsdl_name_ok(n)]
    return _VALID_CACHE[cls]


def fold(name: str) -> str:
    return name.strip("_").lower() or "_"


def name_class_of(name: str) -> str:
    for cls in ("macro", "c_kw", "cpp_kw", "py_kw", "pattern", "internal"):
        if name in NAME_CLASSES[cls]:
            return cls
    return "plain"


@st.composite
def draw_name(draw, used: typing.Set[str], plain: typing.List[str], profile: str, capitalize: bool = False) -> str:
    weights = PROFILES[profile]
    classes = list(NAME_CLASSES)
    choices = [c for c, w in zip(classes, weights) for _ in range(w)]
    for _ in range(8):
        cls = draw(st.sampled_from(choices))
        if cls == "plain":
            cand = draw(st.sampled_from(plain))
            if fold(cand) in used:
                cand = cand + str(draw(st.integers(0, 99)))
        else:
            cand = draw(st.sampled_from(_pool(cls)))
        if fold(cand) not in used and _dsdl_name_ok(cand):
            used.add(fold(cand))
            return cand
    # construction fallback: always fresh
    i = len(used)
    while True:
        cand = f"{plain[0]}{i}"
        if fold(cand) not in used:
            used.add(fold(cand))
            return cand
        i += 1


# --------------------------------------------------------------------------------------------------------------- types
VARR_CAPS_PRIM = [1, 2, 3, 7, 8, 9, 15, 255, 256, 300]
VARR_CAPS_COMP = [1, 2, 3, 5]
FARR_N_PRIM = [1, 2, 3, 7, 8, 9, 17, 64]
FARR_N_COMP = [1, 2, 3]


@st.composite
def prim_type(draw, allow_bool=True) -> dict:
    k = draw(st.sampled_from(["uint", "uint", "int", "float", "bool"] if allow_bool else ["uint", "uint", "int", "float"]))
    if k == "bool":
        return {"t": "bool"}
    if k == "uint":
        bits = draw(st.one_of(st.sampled_from([1, 2, 3, 7, 8, 9, 15, 16, 17, 24, 31, 32, 33, 48, 63, 64]), st.integers(1, 64)))
        return {"t": "uint", "bits": bits, "cast": draw(st.sampled_from(["saturated", "truncated"]))}
    if k == "int":
        bits = draw(st.one_of(st.sampled_from([2, 3, 7, 8, 9, 15, 16, 17, 31, 32, 33, 63, 64]), st.integers(2, 64)))
        return {"t": "int", "bits": bits, "cast": "saturated"}
    return {"t": "float", "bits": draw(st.sampled_from([16, 32, 64])), "cast": draw(st.sampled_from(["saturated", "truncated"]))}


def max_bits(t: dict, known: typing.Dict[str, dict]) -> int:
    k = t["t"]
    if k == "bool":
        return 1
    if k in ("uint", "int", "float"):
        return t["bits"]
    if k in ("byte", "utf8"):
        return 8
    if k == "ref":
        return known[f"{t['full']}.{t['major']}.{t['minor']}"]["max_bits"] + 7 + 32
    if k == "farr":
        return t["n"] * (max_bits(t["elem"], known) + 7)
    if k == "varr":
        return t["cap"] * (max_bits(t["elem"], known) + 7) + 32
    raise ValueError(k)


@st.composite
def field_type(draw, refs: typing.List[dict], known, budget_bits: int, allow_arrays=True) -> dict:
    kinds = ["prim"] * 5
    if allow_arrays:
        kinds += ["farr", "varr", "varr", "bytes", "utf8"]
    if refs:
        kinds += ["ref", "ref"]
        if allow_arrays:
            kinds += ["farr_ref", "varr_ref"]
    kind = draw(st.sampled_from(kinds))
    if kind == "prim":
        return draw(prim_type())
    if kind == "bytes":
        if draw(st.booleans()):
            return {"t": "farr", "elem": {"t": "byte"}, "n": draw(st.sampled_from([1, 3, 8, 16]))}
        return {"t": "varr", "elem": {"t": "byte"}, "cap": draw(st.sampled_from([1, 7, 16, 255, 256])), "incl": True}
    if kind == "utf8":
        incl = draw(st.booleans())
        return {"t": "varr", "elem": {"t": "utf8"}, "cap": draw(st.sampled_from([1, 5, 16, 255, 256])) + (0 if incl else 1), "incl": incl}
    if kind in ("farr", "varr"):
        elem = draw(prim_type())
        eb = max_bits(elem, known)
        if kind == "farr":
            ns = [n for n in FARR_N_PRIM if n * eb <= budget_bits] or [1]
            return {"t": "farr", "elem": elem, "n": draw(st.sampled_from(ns))}
        caps = [c for c in VARR_CAPS_PRIM if c * eb <= budget_bits] or [1]
        incl = draw(st.booleans())
        cap = draw(st.sampled_from(caps))
        if not incl:
            cap = cap + 1  # T[<cap+1] has capacity cap
        return {"t": "varr", "elem": elem, "cap": cap, "incl": incl}
    ref = draw(st.sampled_from(refs))
    rt = {"t": "ref", "full": ref["full"], "major": ref["major"], "minor": ref["minor"]}
    if kind == "ref":
        return rt
    eb = max_bits(rt, known)
    if kind == "farr_ref":
        ns = [n for n in FARR_N_COMP if n * eb <= budget_bits] or [1]
        return {"t": "farr", "elem": rt, "n": draw(st.sampled_from(ns))}
    caps = [c for c in VARR_CAPS_COMP if c * eb <= budget_bits] or [1]
    return {"t": "varr", "elem": rt, "cap": draw(st.sampled_from(caps)), "incl": True}


def _p(t, bits=None, cast="saturated"):
    return {"t": t} if bits is None else {"t": t, "bits": bits, "cast": cast}


# maximally wide field types (used only with the additive `wide_pct` option): 64-bit primitives, capacities at and beyond the
# 8/16/32-bit length-prefix boundaries, large fixed arrays
WIDE_TYPES = [
    _p("uint", 64), _p("uint", 64, "truncated"), _p("int", 64), _p("float", 64), _p("float", 64, "truncated"), _p("uint", 63), _p("int", 63),
    {"t": "varr", "elem": {"t": "byte"}, "cap": 65535, "incl": True},
    {"t": "varr", "elem": {"t": "byte"}, "cap": 65536, "incl": True},
    {"t": "varr", "elem": {"t": "utf8"}, "cap": 65536, "incl": False},
    {"t": "varr", "elem": _p("bool"), "cap": 65536, "incl": True},
    {"t": "varr", "elem": _p("uint", 64), "cap": 256, "incl": True},
    {"t": "varr", "elem": _p("int", 64), "cap": 70000, "incl": True},
    {"t": "varr", "elem": _p("float", 64), "cap": 255, "incl": True},
    {"t": "farr", "elem": _p("uint", 64), "n": 1000},
    {"t": "farr", "elem": _p("bool"), "n": 4099},
    {"t": "farr", "elem": _p("float", 16), "n": 257},
    {"t": "farr", "elem": _p("uint", 1), "n": 65537},
]

FLOAT_CONSTS = {
    16: ["0.0", "1.0", "-1.5", "65504.0", "-65504.0", "1/3", "6.0e-8", "0.1", "1e-3", "3/2"],
    32: ["0.0", "1.0", "-1.5", "340282346638528859811704183484516925440.0", "-340282346638528859811704183484516925440.0", "1/3", "1e-45", "0.1", "16777217.0", "1e-30", "123456.789"],
    64: ["0.0", "1.0", "-1.5", "1.7976931348623157e308", "-1.7976931348623157e308", "1/3", "5e-324", "1e-320", "0.1",
         "3.141592653589793", "1e300", "-1e-300", "9007199254740993.0", "2.2250738585072014e-308"],
}


@st.composite
def const_attr(draw, used_names, profile) -> dict:
    t = draw(prim_type())
    name = draw(draw_name(used_names, ["X", "MAX", "MIN_V", "K1", "LIMIT", "C0", "RATE"], profile))
    if t["t"] == "bool":
        val = draw(st.sampled_from(["true", "false"]))
    elif t["t"] == "uint":
        hi = (1 << t["bits"]) - 1
        val = str(draw(st.sampled_from([0, 1, hi, hi - 1 if hi > 1 else 0, hi // 2])))
        if t["bits"] >= 8 and draw(st.integers(0, 5)) == 0:
            val = draw(st.sampled_from((["'a'", "'~'", "'\\n'"] if t["bits"] == 8 else []) + ["0x7F", "0b101", "2**3 + 1"]))
    elif t["t"] == "int":
        hi = (1 << (t["bits"] - 1)) - 1
        lo = -(1 << (t["bits"] - 1))
        val = str(draw(st.sampled_from([0, 1, -1, hi, lo, lo + 1, hi - 1])))
    else:
        val = draw(st.sampled_from(FLOAT_CONSTS[t["bits"]]))
    return {"k": "const", "type": t, "name": name, "value": val}


DOC_ATOMS = ["plain text", "a < b && c > d", "<b>bold</b>", "</pre><script>alert(1)</script>", "&amp; &lt;", '"quoted" \'single\'',
             "-->", "<!-- x", "*/ end", "/* open", "\\ backslash \\n", "{{ jinja }} {% x %}", "tab\there", "trailing  ", "%s %d", "backslash then blanks \\  ",
             "``code``", ":ref:`x`", "@param x", "#define X", "https://example.com/?a=1&b=2", "  indented", "$ dollars", "~!@^"]


@st.composite
def doc_lines(draw, mode: str) -> typing.List[str]:
    if mode == "none" or (mode == "some" and draw(st.integers(0, 2)) > 0):
        return []
    n = draw(st.integers(1, 3))
    return [" ".join(draw(st.lists(st.sampled_from(DOC_ATOMS), min_size=1, max_size=3))) for _ in range(n)]


@st.composite
def body(draw, refs, known, profile: str, opts: dict, union: typing.Optional[bool] = None) -> dict:
    is_union = draw(st.integers(0, 3)) == 0 if union is None else union
    used: typing.Set[str] = set()
    attrs: typing.List[dict] = []
    budget = opts.get("max_type_bits", 12000)
    n_fields = draw(st.integers(2, 6)) if is_union else draw(st.integers(0, opts.get("max_fields", 7)))
    if not is_union and n_fields == 0 and draw(st.integers(0, 2)) > 0:
        n_fields = 1
    # additive options (absent -> no extra draws, behaviour unchanged): empty_pct / wide_pct = percentage of bodies that are
    # forced empty (structures only) / built from maximally wide field types
    if not is_union and opts.get("empty_pct") and draw(st.integers(0, 99)) < opts["empty_pct"]:
        n_fields = 0
    wide = bool(opts.get("wide_pct")) and draw(st.integers(0, 99)) < opts["wide_pct"]
    if wide:
        budget = opts.get("wide_max_type_bits", 40_000_000)
    spent = 0
    for _ in range(n_fields):
        if not is_union and opts.get("voids", True) and draw(st.integers(0, 4)) == 0:
            attrs.append({"k": "void", "bits": draw(st.sampled_from([1, 2, 3, 5, 7, 8, 9, 13, 16, 31, 32, 33, 63, 64]))})
        t = draw(st.sampled_from(WIDE_TYPES)) if wide else draw(field_type(refs, known, max(64, (budget - spent) // 2)))
        spent += max_bits(t, known)
        d = draw(doc_lines(opts.get("attr_docs", "none")))
        attrs.append({"k": "field", "type": t, "name": draw(draw_name(used, PLAIN_FIELDS, profile)), "doc": d[0] if d else None})
        if spent > budget:
            break
    if is_union and len([a for a in attrs if a["k"] == "field"]) < 2:
        attrs.append({"k": "field", "type": {"t": "uint", "bits": 8, "cast": "saturated"}, "name": draw(draw_name(used, PLAIN_FIELDS, profile)), "doc": None})
        if len([a for a in attrs if a["k"] == "field"]) < 2:
            attrs.append({"k": "field", "type": {"t": "bool"}, "name": draw(draw_name(used, PLAIN_FIELDS, profile)), "doc": None})
    if not is_union and opts.get("voids", True) and draw(st.integers(0, 5)) == 0:
        attrs.append({"k": "void", "bits": draw(st.sampled_from([1, 3, 7, 8, 12, 64]))})
    for _ in range(draw(st.integers(0, opts.get("max_consts", 2)))):
        pos = draw(st.integers(0, len(attrs)))
        attrs.insert(pos, draw(const_attr(used, profile)))
    sealed = draw(st.booleans())
    out = {"union": is_union, "sealed": sealed, "extent_extra": draw(st.sampled_from([0, 1, 7, 64])), "attrs": attrs}
    if not sealed and (wide or body_max_bits(out, known) > 512):
        # an `_offset_` expression makes the front end expand the bit length set numerically (intractable for huge arrays):
        # wide bodies carry an explicit numeric extent instead
        out["extent_bits"] = ((body_max_bits(out, known) + 7) // 8 + out["extent_extra"]) * 8
    return out


def body_max_bits(b: dict, known) -> int:
    fields = [a for a in b["attrs"] if a["k"] != "const"]
    if b["union"]:
        return 64 + max([(max_bits(a["type"], known) + 7) for a in fields if a["k"] == "field"] or [0])
    return sum((a["bits"] if a["k"] == "void" else max_bits(a["type"], known) + 7) for a in fields)


@st.composite
def universe(draw, profile: str = "mixed", **opts) -> dict:
    """
    opts: max_types (6), max_roots (2), services (True), port_ids (True), docs ("none"|"some"|"all"), attr_docs, voids,
          max_fields, max_consts, max_type_bits, multi_version (True), deprecated (True), max_depth (4)
    """
    n_roots = draw(st.integers(1, opts.get("max_roots", 2)))
    known: typing.Dict[str, dict] = {}
    refs: typing.List[dict] = []
    roots = []
    root_names: typing.Set[str] = set()
    used_ports: typing.Set[typing.Tuple[str, int]] = set()
    for _ in range(n_roots):
        rname = draw(draw_name(root_names, ["rootns", "reg", "vendor", "uavx"], profile))
        n_types = draw(st.integers(1, opts.get("max_types", 6)))
        types: typing.List[dict] = []
        ns_children: typing.Dict[tuple, typing.Set[str]] = {}
        ns_pool: typing.List[typing.List[str]] = [[rname]]
        for _ in range(n_types):
            # namespace: reuse an existing one or extend one (possibly by two levels -> empty intermediate namespace)
            base = draw(st.sampled_from(ns_pool))
            ns = list(base)
            ext = draw(st.sampled_from([0, 0, 0, 1, 1, 2]))
            while ext > 0 and len(ns) < opts.get("max_depth", 4):
                comp = draw(draw_name(ns_children.setdefault(tuple(ns), set()), PLAIN_NS, profile))
                ns = ns + [comp]
                ext -= 1
            if ns not in ns_pool:
                ns_pool.append(ns)
            scope = ns_children.setdefault(tuple(ns), set())
            # multi-version of an existing short name in this namespace?
            same_ns = [t for t in types if t["ns"] == ns and t["kind"] != "service"]
            if same_ns and opts.get("multi_version", True) and draw(st.integers(0, 4)) == 0:
                prev = draw(st.sampled_from(same_ns))
                name = prev["name"]
                majors = {t["major"] for t in types if t["ns"] == ns and t["name"] == name}
                # minor versions under one major must be bit-compatible (front-end rule): new versions get a new major
                major = draw(st.sampled_from([m for m in (0, 1, 2, 3, 7, 255) if m not in majors] or [max(majors) + 1]))
                minor = draw(st.integers(1 if major == 0 else 0, 3))
            else:
                name = draw(draw_name(scope, PLAIN_TYPES, profile))
                major, minor = draw(st.sampled_from([(1, 0), (1, 0), (0, 1), (2, 3), (255, 255), (1, 1)]))
            kind = "service" if opts.get("services", True) and draw(st.integers(0, 6)) == 0 else "struct"
            local_refs = [r for r in refs]
            if kind == "service":
                bd = {"request": draw(body(local_refs, known, profile, opts)), "response": draw(body(local_refs, known, profile, opts))}
                mb = 0
            else:
                b = draw(body(local_refs, known, profile, opts))
                bd = b
                kind = "union" if b["union"] else "struct"
                mb = body_max_bits(b, known) + b["extent_extra"] * 8
            port = None
            if opts.get("port_ids", True) and draw(st.integers(0, 5)) == 0:
                port = draw(st.integers(0, 511 if kind == "service" else 8191))
                # one port id per (kind class); keep unique to avoid collisions the front end rejects
                if ("svc" if kind == "service" else "msg", port) in used_ports:
                    port = None
                else:
                    used_ports.add(("svc" if kind == "service" else "msg", port))
            dep_names = {f"{r['full']}.{r['major']}.{r['minor']}" for r in refs if r["deprecated"]}
            uses_deprecated = any(k in dep_names for k in _refs_in(bd))
            td = {
                "ns": ns, "name": name, "major": major, "minor": minor, "port_id": port, "kind": kind,
                # front-end rule: a type that depends on a deprecated type must itself be deprecated
                "deprecated": uses_deprecated or (opts.get("deprecated", True) and draw(st.integers(0, 7)) == 0),
                "doc": draw(doc_lines(opts.get("docs", "none"))),
                "body": bd,
            }
            types.append(td)
            if kind != "service":
                full = ".".join(ns + [name])
                known[f"{full}.{major}.{minor}"] = {"max_bits": mb}
                if mb <= opts.get("max_ref_bits", 3000):
                    refs.append({"full": full, "major": major, "minor": minor, "deprecated": td["deprecated"]})
        roots.append({"name": rname, "types": types})
    return {"roots": roots}


def _refs_in(bd) -> typing.Set[str]:
    out: typing.Set[str] = set()

    def walk(t):
        if t["t"] == "ref":
            out.add(f"{t['full']}.{t['major']}.{t['minor']}")
        elif t["t"] in ("farr", "varr"):
            walk(t["elem"])

    for b in ([bd] if "attrs" in bd else [bd["request"], bd["response"]]):
        for a in b["attrs"]:
            if a["k"] == "field":
                walk(a["type"])
    return out


# ----------------------------------------------------------------------------------------------------------- rendering
def type_text(t: dict) -> str:
    k = t["t"]
    if k == "bool":
        return "bool"
    if k in ("uint", "int", "float"):
        return f"{t['cast']} {k}{t['bits']}"
    if k in ("byte", "utf8"):
        return k
    if k == "ref":
        return f"{t['full']}.{t['major']}.{t['minor']}"
    if k == "farr":
        return f"{type_text(t['elem'])}[{t['n']}]"
    if k == "varr":
        return f"{type_text(t['elem'])}[{'<=' if t['incl'] else '<'}{t['cap']}]"
    raise ValueError(k)


def body_text(b: dict, deprecated: bool, doc: typing.List[str]) -> str:
    lines = []
    for d in doc:
        lines.append("# " + d)
    if doc:
        lines.append("")
    if deprecated:
        lines.append("@deprecated")
    if b["union"]:
        lines.append("@union")
    for a in b["attrs"]:
        if a["k"] == "void":
            # (additive, C20) void and constant attributes may carry an optional "doc" line like fields do
            lines.append(f"void{a['bits']}" + (f"  # {a['doc']}" if a.get("doc") else ""))
        elif a["k"] == "const":
            lines.append(f"{type_text(a['type'])} {a['name']} = {a['value']}" + (f"  # {a['doc']}" if a.get("doc") else ""))
        else:
            lines.append(f"{type_text(a['type'])} {a['name']}" + (f"  # {a['doc']}" if a.get("doc") else ""))
    if b["sealed"]:
        lines.append("@sealed")
    elif "extent_bits" in b:
        lines.append(f"@extent {b['extent_bits']}")
    else:
        lines.append(f"@extent _offset_.max + (8 - _offset_.max % 8) % 8 + {b['extent_extra'] * 8}" if b["attrs"] and any(a["k"] != "const" for a in b["attrs"]) else f"@extent {b['extent_extra'] * 8}")
    return "\n".join(lines) + "\n"


def typedef_text(td: dict) -> str:
    if td["kind"] == "service":
        return body_text(td["body"]["request"], td["deprecated"], td["doc"]) + "---\n" + body_text(td["body"]["response"], False, td.get("response_doc") or [])
    return body_text(td["body"], td["deprecated"], td["doc"])


def typedef_relpath(td: dict) -> str:
    stem = f"{td['name']}.{td['major']}.{td['minor']}.dsdl"
    if td["port_id"] is not None:
        stem = f"{td['port_id']}.{stem}"
    return "/".join(td["ns"] + [stem])


def files_of(u: dict) -> typing.Dict[str, str]:
    out = {}
    for r in u["roots"]:
        for td in r["types"]:
            out[typedef_relpath(td)] = typedef_text(td)
    return out


def materialise(u: dict, directory: pathlib.Path) -> typing.List[pathlib.Path]:
    """Writes the universe; returns the root namespace directories in order."""
    directory = pathlib.Path(directory)
    for rel, text in files_of(u).items():
        p = directory / rel
        p.parent.mkdir(parents=True, exist_ok=True)
        p.write_text(text)
    return [directory / r["name"] for r in u["roots"]]


def read(u: dict, directory: pathlib.Path):
    """Parse with the real front end. Returns {root name: [CompositeType]}; raises on front-end rejection."""
    import pydsdl

    roots = [pathlib.Path(directory) / r["name"] for r in u["roots"]]
    out = {}
    for i, r in enumerate(roots):
        out[u["roots"][i]["name"]] = pydsdl.read_namespace(str(r), [str(x) for x in roots[:i]], allow_unregulated_fixed_port_id=True)
    return out


def features(u: dict) -> typing.List[str]:
    f: typing.Set[str] = set()
    if len(u["roots"]) > 1:
        f.add("multi_root")
    seen_names: typing.Dict[str, int] = {}
    for r in u["roots"]:
        nss = {tuple(t["ns"]) for t in r["types"]}
        for ns in nss:
            for d in range(2, len(ns)):
                if tuple(ns[:d]) not in nss:
                    f.add("empty_intermediate_ns")
        for td in r["types"]:
            key = ".".join(td["ns"] + [td["name"]])
            seen_names[key] = seen_names.get(key, 0) + 1
            f.add("kind." + td["kind"])
            if td["port_id"] is not None:
                f.add("port_id")
            if td["deprecated"]:
                f.add("deprecated")
            for n in td["ns"] + [td["name"]]:
                c = name_class_of(n)
                if c != "plain":
                    f.add("typename." + c)
            bodies = [td["body"]] if td["kind"] != "service" else [td["body"]["request"], td["body"]["response"]]
            for b in bodies:
                f.add("sealed" if b["sealed"] else "delimited")
                pos_unaligned = False
                for a in b["attrs"]:
                    if a["k"] == "void":
                        f.add("void")
                        if a["bits"] % 8:
                            f.add("void.unaligned")
                    elif a["k"] == "const":
                        f.add("const." + a["type"]["t"])
                    else:
                        c = name_class_of(a["name"])
                        if c != "plain":
                            f.add("fieldname." + c)
                        t = a["type"]
                        f.add("field." + t["t"])
                        if t["t"] in ("farr", "varr"):
                            f.add(f"{t['t']}.of." + t["elem"]["t"])
                        if t["t"] in ("uint", "int") and t["bits"] % 8:
                            f.add("int.nonstd_width")
                        if t["t"] in ("uint", "float") and t.get("cast") == "truncated":
                            f.add("cast.truncated")
    if any(v > 1 for v in seen_names.values()):
        f.add("multi_version")
    return sorted(f)
