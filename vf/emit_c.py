"""C harness emitter for the codec lab (DESIGN.md §3.4): load/dump per type over the positional word stream + command loop."""
from __future__ import annotations

import typing

import pydsdl

from .refmodel import inner
from .valuegen import storage_bits

PRELUDE = r"""
#include <stdio.h>
#include <stdlib.h>
#include <string.h>
#include <stdint.h>
#include <stdbool.h>
#include <inttypes.h>
#ifdef VF_ASSERTS
#define NUNAVUT_ASSERT(x) do { if (!(x)) { printf("A ASSERT %s line %d\n", #x, __LINE__); fflush(stdout); abort(); } } while (0)
#endif
@INCLUDES@

typedef struct { const uint64_t* w; size_t n; size_t pos; } In;
typedef struct { uint64_t* w; size_t n; size_t cap; } Out;
static int g_count_exceeds_storage = 0;
static uint64_t in_next(In* in) { if (in->pos >= in->n) { printf("H stream underrun\n"); fflush(stdout); exit(3); } return in->w[in->pos++]; }
static void out_put(Out* o, uint64_t v) { if (o->n == o->cap) { o->cap = o->cap ? o->cap * 2 : 64; o->w = (uint64_t*) realloc(o->w, o->cap * 8); } o->w[o->n++] = v; }
static double w2d(uint64_t w) { double d; memcpy(&d, &w, 8); return d; }
static uint64_t d2w(double d) { uint64_t w; memcpy(&w, &d, 8); return w; }
static int hexval(int c) { return (c >= '0' && c <= '9') ? c - '0' : (c >= 'a' && c <= 'f') ? c - 'a' + 10 : -1; }
/* exact-size heap copy of a hex string ("-" = empty): sanitizers see every byte outside */
static uint8_t* hex_bytes(const char* h, size_t* n) {
    size_t len = (h[0] == '-') ? 0 : strlen(h) / 2;
    uint8_t* b = (uint8_t*) malloc(len);
    for (size_t i = 0; i < len; i++) b[i] = (uint8_t) (hexval(h[2 * i]) * 16 + hexval(h[2 * i + 1]));
    *n = len; return b;
}
static uint64_t* hex_words(const char* h, size_t* n) {
    size_t nb; uint8_t* b = hex_bytes(h, &nb);
    uint64_t* w = (uint64_t*) malloc(nb ? nb : 1);
    for (size_t i = 0; i < nb / 8; i++) { uint64_t v = 0; for (int k = 7; k >= 0; k--) v = (v << 8) | b[i * 8 + (size_t) k]; w[i] = v; }
    free(b); *n = nb / 8; return w;
}
static void print_hex(const uint8_t* b, size_t n) { if (!n) { printf("-"); return; } for (size_t i = 0; i < n; i++) printf("%02x", b[i]); }
static void print_words(const Out* o) { if (!o->n) { printf("-"); return; } for (size_t i = 0; i < o->n; i++) for (int k = 0; k < 8; k++) printf("%02x", (unsigned) ((o->w[i] >> (8 * k)) & 0xff)); }
"""

MAIN = r"""
int main(int argc, char** argv) {
    FILE* f = argc > 1 ? fopen(argv[1], "r") : stdin;
    size_t cap = 1 << 22;
    char* line = (char*) malloc(cap);
    while (fgets(line, (int) cap, f)) {
        char* tok[6]; int nt = 0;
        for (char* p = strtok(line, " \n"); p && nt < 6; p = strtok(NULL, " \n")) tok[nt++] = p;
        if (nt == 0) continue;
        int ti = nt > 1 ? atoi(tok[1]) : -1;
        if (tok[0][0] == 'S' && nt == 5) {
            do_S(ti, (int) strtol(tok[2], NULL, 16), (size_t) strtoull(tok[3], NULL, 10), tok[4]);
        } else if (tok[0][0] == 'D' && nt == 5) {
            do_D(ti, tok[2][0], tok[3], tok[4]);
        } else if (tok[0][0] == 'M' && nt == 2) {
            do_M(ti);
        } else { printf("H bad command\n"); }
        fflush(stdout);
    }
    free(line);
    @FREEKEEP@
    return 0;
}
"""


def c_type_name(t: pydsdl.CompositeType) -> str:
    t = inner(t)
    return "_".join(t.full_name.split(".")) + f"_{t.version.major}_{t.version.minor}"


def header_path(t: pydsdl.CompositeType) -> str:
    t = inner(t)
    # service request/response live in the service's header
    comps = t.full_name.split(".")
    if isinstance(t.parent_service, pydsdl.ServiceType) if hasattr(t, "parent_service") else False:
        comps = comps[:-1]
    return "/".join(comps[:-1] + [f"{comps[-1]}_{t.version.major}_{t.version.minor}.h"])


def _stype(t) -> str:
    if isinstance(t, pydsdl.BooleanType):
        return "bool"
    if isinstance(t, pydsdl.FloatType):
        return "double" if t.bit_length == 64 else "float"
    if isinstance(t, pydsdl.SignedIntegerType):
        return f"int{storage_bits(t)}_t"
    return f"uint{storage_bits(t)}_t"


def service_of(t, tops):
    """The ServiceType a request / response type belongs to (this PyDSDL has no parent_service attribute)."""
    t = inner(t)
    for x in tops or []:
        if isinstance(x, pydsdl.ServiceType) and x.version == t.version and t.full_name.rsplit(".", 1)[0] == x.full_name:
            return x
    return None


class CEmitter:
    def __init__(self, ctypes: typing.List[pydsdl.CompositeType], tops=None, skip: typing.Optional[typing.Set[int]] = None):
        """skip: indices of codec types that are left out of this harness (their case numbers stay reserved)."""
        self.ctypes = ctypes
        self.tops = tops
        self.skip = skip or set()
        self.n = 0

    def tmp(self) -> str:
        self.n += 1
        return f"i{self.n}"

    # -------------------------------------------------------------------------------------------------- load
    def load_scalar(self, t, lv: str) -> str:
        if isinstance(t, pydsdl.BooleanType):
            return f"{lv} = in_next(in) != 0;"
        if isinstance(t, pydsdl.FloatType):
            return f"{lv} = ({_stype(t)}) w2d(in_next(in));"
        if isinstance(t, pydsdl.SignedIntegerType):
            return f"{lv} = ({_stype(t)}) (int64_t) in_next(in);"
        if isinstance(t, pydsdl.PrimitiveType):
            return f"{lv} = ({_stype(t)}) in_next(in);"
        return f"load_{c_type_name(t)}(in, &{lv});"

    def load_field(self, owner: str, t, name: str, ref: str) -> typing.List[str]:
        """ref = 'obj->' prefix"""
        L = []
        if isinstance(t, pydsdl.ArrayType):
            et = t.element_type
            i = self.tmp()
            isbool = isinstance(et, pydsdl.BooleanType)
            if isinstance(t, pydsdl.FixedLengthArrayType):
                if isbool:
                    L.append(f"memset({ref}{name}_bitpacked_, 0, sizeof({ref}{name}_bitpacked_));")
                    L.append(f"for (size_t {i} = 0; {i} < {t.capacity}U; {i}++) if (in_next(in)) {ref}{name}_bitpacked_[{i} / 8U] |= (uint8_t) (1U << ({i} % 8U));")
                else:
                    L.append(f"for (size_t {i} = 0; {i} < {t.capacity}U; {i}++) {{ {self.load_scalar(et, f'{ref}{name}[{i}]')} }}")
            else:
                cap = f"{owner}_{name}_ARRAY_CAPACITY_"
                L.append(f"{{ size_t n_ = (size_t) in_next(in); {ref}{name}.count = n_;")
                if isbool:
                    L.append(f"  memset({ref}{name}.bitpacked, 0, sizeof({ref}{name}.bitpacked));")
                    L.append(f"  for (size_t {i} = 0; {i} < n_; {i}++) {{ uint64_t b_ = in_next(in); if (b_ && {i} < {cap}) {ref}{name}.bitpacked[{i} / 8U] |= (uint8_t) (1U << ({i} % 8U)); }} }}")
                else:
                    ctype = _stype(et) if isinstance(et, pydsdl.PrimitiveType) else c_type_name(et)
                    L.append(f"  for (size_t {i} = 0; {i} < n_; {i}++) {{ if ({i} < {cap}) {{ {self.load_scalar(et, f'{ref}{name}.elements[{i}]')} }} else {{ {ctype} skip_; memset(&skip_, 0, sizeof(skip_)); {self.load_scalar(et, 'skip_')} (void) skip_; }} }} }}")
        else:
            L.append(self.load_scalar(t, f"{ref}{name}"))
        return L

    # -------------------------------------------------------------------------------------------------- dump
    def dump_scalar(self, t, rv: str) -> str:
        if isinstance(t, pydsdl.BooleanType):
            return f"out_put(o, {rv} ? 1U : 0U);"
        if isinstance(t, pydsdl.FloatType):
            return f"out_put(o, d2w((double) {rv}));"
        if isinstance(t, pydsdl.SignedIntegerType):
            return f"out_put(o, (uint64_t) (int64_t) {rv});"
        if isinstance(t, pydsdl.PrimitiveType):
            return f"out_put(o, (uint64_t) {rv});"
        return f"dump_{c_type_name(t)}(o, &{rv});"

    def dump_field(self, owner: str, t, name: str, ref: str) -> typing.List[str]:
        L = []
        if isinstance(t, pydsdl.ArrayType):
            et = t.element_type
            i = self.tmp()
            isbool = isinstance(et, pydsdl.BooleanType)
            if isinstance(t, pydsdl.FixedLengthArrayType):
                if isbool:
                    L.append(f"for (size_t {i} = 0; {i} < {t.capacity}U; {i}++) out_put(o, ({ref}{name}_bitpacked_[{i} / 8U] >> ({i} % 8U)) & 1U);")
                else:
                    L.append(f"for (size_t {i} = 0; {i} < {t.capacity}U; {i}++) {{ {self.dump_scalar(et, f'{ref}{name}[{i}]')} }}")
            else:
                cap = f"{owner}_{name}_ARRAY_CAPACITY_"
                # a count above the storage capacity is reported as such (never read past the array): marker word + count
                # (bit-packed arrays physically hold a multiple of 8 elements: the bound is the storage, not the nominal capacity)
                bound = f"(sizeof({ref}{name}.bitpacked) * 8U)" if isbool else cap
                L.append(f"if ({ref}{name}.count > {bound}) {{ g_count_exceeds_storage = 1; }} else {{")
                L.append(f"  out_put(o, (uint64_t) {ref}{name}.count);")
                if isbool:
                    L.append(f"  for (size_t {i} = 0; {i} < {ref}{name}.count; {i}++) out_put(o, ({ref}{name}.bitpacked[{i} / 8U] >> ({i} % 8U)) & 1U); }}")
                else:
                    L.append(f"  for (size_t {i} = 0; {i} < {ref}{name}.count; {i}++) {{ {self.dump_scalar(et, f'{ref}{name}.elements[{i}]')} }} }}")
        else:
            L.append(self.dump_scalar(t, f"{ref}{name}"))
        return L

    # -------------------------------------------------------------------------------------------------- per type
    def type_functions(self, ct) -> str:
        t = inner(ct)
        n = c_type_name(t)
        L = [f"static void load_{n}(In* in, {n}* obj) {{", "  (void) in; (void) obj;"]
        D = [f"static void dump_{n}(Out* o, const {n}* obj) {{", "  (void) o; (void) obj;"]
        if isinstance(t, pydsdl.UnionType):
            L.append("  uint64_t tag_ = in_next(in); obj->_tag_ = (" + _stype(t.tag_field_type) + ") tag_;")
            D.append("  out_put(o, (uint64_t) obj->_tag_);")
            for k, f in enumerate(t.fields):
                L.append(f"  if (tag_ == {k}U) {{ " + " ".join(self.load_field(n, f.data_type, f.name, "obj->")) + " }")
                D.append(f"  if (obj->_tag_ == {k}U) {{ " + " ".join(self.dump_field(n, f.data_type, f.name, "obj->")) + " }")
        else:
            for f in t.fields_except_padding:
                L += ["  " + x for x in self.load_field(n, f.data_type, f.name, "obj->")]
                D += ["  " + x for x in self.dump_field(n, f.data_type, f.name, "obj->")]
        L.append("}")
        D.append("}")
        return "\n".join(L + D)

    def emit(self, include_paths: typing.List[str]) -> str:
        out = [PRELUDE.replace("@INCLUDES@", "\n".join(f'#include "{p}"' for p in include_paths))]
        live = [(k, c_type_name(t)) for k, t in enumerate(self.ctypes) if k not in self.skip]
        names = [n for _, n in live]
        for n in names:
            out.append(f"static void load_{n}(In* in, {n}* obj); static void dump_{n}(Out* o, const {n}* obj); static {n}* keep_{n} = NULL;")
        for k, ct in enumerate(self.ctypes):
            if k not in self.skip:
                out.append(self.type_functions(ct))
        # S
        out.append("static void do_S(int ti, int prefill, size_t bufsize, const char* words_hex) {\n  size_t nw; uint64_t* w = hex_words(words_hex, &nw); In in = { w, nw, 0 };\n  uint8_t* buf = (uint8_t*) malloc(bufsize); memset(buf, prefill, bufsize); size_t size = bufsize; int rc = 99;\n  switch (ti) {")
        for k, n in live:
            out.append(f"  case {k}: {{ {n}* obj = ({n}*) malloc(sizeof({n})); memset(obj, 0, sizeof({n})); load_{n}(&in, obj); rc = {n}_serialize_(obj, buf, &size); free(obj); break; }}")
        out.append('  default: break; }\n  if (rc == 0 && size > bufsize) { printf("S %d %zu OVERSIZE", rc, size); } else { printf("S %d %zu ", rc, rc == 0 ? size : 0); print_hex(buf, rc == 0 ? size : 0); }\n  printf("\\n"); free(buf); free(w);\n}')
        # D
        out.append("static void do_D(int ti, char mode, const char* prior_hex, const char* bytes_hex) {\n  size_t nb; uint8_t* b = hex_bytes(bytes_hex, &nb); size_t nw; uint64_t* w = hex_words(prior_hex, &nw); In in = { w, nw, 0 };\n  Out o = { NULL, 0, 0 }; size_t size = nb; int rc = 99;\n  /* the empty representation is also passed as (NULL, 0), which the API documents as valid: for every prior state but the fresh one */\n  const uint8_t* bp = (nb == 0 && mode != 'F') ? NULL : b;\n  switch (ti) {")
        for k, n in live:
            out.append(
                f"  case {k}: {{ {n}* obj; if (mode == 'K') {{ if (!keep_{n}) {{ keep_{n} = ({n}*) malloc(sizeof({n})); {n}_initialize_(keep_{n}); }} obj = keep_{n}; }}"
                f" else {{ obj = ({n}*) malloc(sizeof({n})); if (mode == 'P') memset(obj, 0xA5, sizeof({n})); else if (mode == 'Z') memset(obj, 0, sizeof({n})); else {n}_initialize_(obj); if (mode == 'V') load_{n}(&in, obj); }}"
                f" rc = {n}_deserialize_(obj, bp, &size); if (rc == 0) dump_{n}(&o, obj); if (mode != 'K') free(obj); break; }}"
            )
        out.append('  default: break; }\n  printf("D %d %zu ", rc, rc == 0 ? size : 0); if (g_count_exceeds_storage) { printf("!COUNT"); g_count_exceeds_storage = 0; } else { print_words(&o); } printf("\\n"); free(o.w); free(b); free(w);\n}')
        # M (metadata) -- filled by emit_meta
        out.append(self.emit_meta())
        free_keep = " ".join(f"free(keep_{n});" for n in names)
        out.append(MAIN.replace("@FREEKEEP@", free_keep))
        return "\n".join(out)

    def emit_meta(self) -> str:
        L = ["static void do_M(int ti) {\n  switch (ti) {"]
        for k, ct in enumerate(self.ctypes):
            if k in self.skip:
                continue
            t = inner(ct)
            n = c_type_name(t)
            L.append(f"  case {k}: {{")
            L.append(f'    printf("M extent=%zu bufsize=%zu sizeof=%zu", (size_t) {n}_EXTENT_BYTES_, (size_t) {n}_SERIALIZATION_BUFFER_SIZE_BYTES_, sizeof({n}));')
            L.append(f'    printf(" full_name=%s full_name_and_version=%s", {n}_FULL_NAME_, {n}_FULL_NAME_AND_VERSION_);')
            if not t.has_parent_service:
                L.append(f'    printf(" has_fixed_port_id=%d", (int) {n}_HAS_FIXED_PORT_ID_);')
            if t.has_fixed_port_id and not t.has_parent_service:
                L.append(f'    printf(" fixed_port_id=%llu", (unsigned long long) {n}_FIXED_PORT_ID_);')
            svc = service_of(t, self.tops) if t.has_parent_service else None
            if svc is not None:
                # what the SERVICE exports (its request / response types have no port-ID of their own in the DSDL model)
                sn = "_".join(svc.full_name.split(".")) + f"_{t.version.major}_{t.version.minor}"
                L.append(f'    printf(" svc.has_fixed_port_id=%d svc.full_name_and_version=%s", (int) {sn}_HAS_FIXED_PORT_ID_, {sn}_FULL_NAME_AND_VERSION_);')
                if svc.has_fixed_port_id:
                    L.append(f'#ifdef {sn}_FIXED_PORT_ID_')
                    L.append(f'    printf(" svc.fixed_port_id=%llu", (unsigned long long) {sn}_FIXED_PORT_ID_);')
                    L.append('#else')
                    L.append('    printf(" svc.fixed_port_id=none");')
                    L.append('#endif')
            if isinstance(t, pydsdl.UnionType):
                L.append(f'    printf(" union_option_count=%llu", (unsigned long long) {n}_UNION_OPTION_COUNT_);')
            for f in t.fields_except_padding:
                if isinstance(f.data_type, pydsdl.ArrayType):
                    L.append(f'    printf(" cap.{f.name}=%llu varlen.{f.name}=%d", (unsigned long long) {n}_{f.name}_ARRAY_CAPACITY_, (int) {n}_{f.name}_ARRAY_IS_VARIABLE_LENGTH_);')
            for c in t.constants:
                dt = c.data_type
                if isinstance(dt, pydsdl.BooleanType):
                    L.append(f'    printf(" const.{c.name}=b:%d", (int) ({n}_{c.name}));')
                elif isinstance(dt, pydsdl.FloatType):
                    L.append(f'    printf(" const.{c.name}=f:%a", (double) ({n}_{c.name}));')
                elif isinstance(dt, pydsdl.SignedIntegerType):
                    L.append(f'    printf(" const.{c.name}=i:%lld", (long long) ({n}_{c.name}));')
                else:
                    L.append(f'    printf(" const.{c.name}=u:%llu", (unsigned long long) ({n}_{c.name}));')
            L.append('    printf("\\n"); break; }')
        L.append('  default: printf("H bad type\\n"); break; }\n}')
        return "\n".join(L)
