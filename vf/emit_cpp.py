"""C++ harness emitter for the codec lab: generic templates + member-wise overloads per composite, same wire protocol as C."""
from __future__ import annotations

import typing

import pydsdl

from .refmodel import inner

PRELUDE = r"""
#include <cstdio>
#include <cstdlib>
#include <cstring>
#include <cstdint>
#include <array>
#include <bitset>
#include <vector>
#include <string>
#include <type_traits>
#include <memory>
#if __cplusplus >= 201703L
#include <variant>
#include <memory_resource>
#endif
#ifdef VF_ASSERTS
#define NUNAVUT_ASSERT(x) do { if (!(x)) { std::printf("A ASSERT %s line %d\n", #x, __LINE__); std::fflush(stdout); std::abort(); } } while (0)
#endif
@INCLUDES@
template <class...> struct vf_voider { using type = void; };
template <class T, class = void> struct vf_has_allocator_type : std::false_type {};
template <class T> struct vf_has_allocator_type<T, typename vf_voider<typename T::allocator_type>::type> : std::true_type {};
@RESOURCE@

struct In { std::vector<std::uint64_t> w; std::size_t pos = 0;
  std::uint64_t next() { if (pos >= w.size()) { std::printf("H stream underrun\n"); std::fflush(stdout); std::exit(3); } return w[pos++]; } };
struct Out { std::vector<std::uint64_t> w; void put(std::uint64_t v) { w.push_back(v); } };
static double w2d(std::uint64_t w) { double d; std::memcpy(&d, &w, 8); return d; }
static std::uint64_t d2w(double d) { std::uint64_t w; std::memcpy(&w, &d, 8); return w; }
static int hexval(int c) { return (c >= '0' && c <= '9') ? c - '0' : (c >= 'a' && c <= 'f') ? c - 'a' + 10 : -1; }
static std::uint8_t* hex_bytes(const char* h, std::size_t* n) {
    std::size_t len = (h[0] == '-') ? 0 : std::strlen(h) / 2;
    std::uint8_t* b = static_cast<std::uint8_t*>(std::malloc(len));
    for (std::size_t i = 0; i < len; i++) b[i] = static_cast<std::uint8_t>(hexval(h[2 * i]) * 16 + hexval(h[2 * i + 1]));
    *n = len; return b;
}
static void hex_words(const char* h, In& in) {
    std::size_t nb; std::uint8_t* b = hex_bytes(h, &nb);
    for (std::size_t i = 0; i < nb / 8; i++) { std::uint64_t v = 0; for (int k = 7; k >= 0; k--) v = (v << 8) | b[i * 8 + static_cast<std::size_t>(k)]; in.w.push_back(v); }
    std::free(b);
}
static void print_hex(const std::uint8_t* b, std::size_t n) { if (!n) { std::printf("-"); return; } for (std::size_t i = 0; i < n; i++) std::printf("%02x", b[i]); }
static void print_words(const Out& o) { if (o.w.empty()) { std::printf("-"); return; } for (auto v : o.w) for (int k = 0; k < 8; k++) std::printf("%02x", static_cast<unsigned>((v >> (8 * k)) & 0xff)); }

// forward declarations of the composite overloads (so that the generic templates below can see them)
@FORWARDS@

inline void load(In& in, bool& x) { x = in.next() != 0; }
inline void load(In& in, float& x) { x = static_cast<float>(w2d(in.next())); }
inline void load(In& in, double& x) { x = w2d(in.next()); }
template <class T> typename std::enable_if<std::is_integral<T>::value && std::is_signed<T>::value>::type load(In& in, T& x) { x = static_cast<T>(static_cast<std::int64_t>(in.next())); }
template <class T> typename std::enable_if<std::is_integral<T>::value && std::is_unsigned<T>::value>::type load(In& in, T& x) { x = static_cast<T>(in.next()); }
template <class T, std::size_t N> void load(In& in, std::array<T, N>& a) { for (auto& e : a) load(in, e); }
template <std::size_t N> void load(In& in, std::bitset<N>& b) { for (std::size_t i = 0; i < N; i++) b[i] = in.next() != 0; }
template <class A> void load(In& in, std::vector<bool, A>& v) { std::size_t n = static_cast<std::size_t>(in.next()); v.clear(); for (std::size_t i = 0; i < n; i++) v.push_back(in.next() != 0); }
template <class T, class A> void load(In& in, std::vector<T, A>& v) { std::size_t n = static_cast<std::size_t>(in.next()); v.clear(); for (std::size_t i = 0; i < n; i++) { v.emplace_back(); load(in, v.back()); } }

inline void dump(Out& o, const bool& x) { o.put(x ? 1U : 0U); }
inline void dump(Out& o, const float& x) { o.put(d2w(static_cast<double>(x))); }
inline void dump(Out& o, const double& x) { o.put(d2w(x)); }
template <class T> typename std::enable_if<std::is_integral<T>::value && std::is_signed<T>::value>::type dump(Out& o, const T& x) { o.put(static_cast<std::uint64_t>(static_cast<std::int64_t>(x))); }
template <class T> typename std::enable_if<std::is_integral<T>::value && std::is_unsigned<T>::value>::type dump(Out& o, const T& x) { o.put(static_cast<std::uint64_t>(x)); }
template <class T, std::size_t N> void dump(Out& o, const std::array<T, N>& a) { for (const auto& e : a) dump(o, e); }
template <std::size_t N> void dump(Out& o, const std::bitset<N>& b) { for (std::size_t i = 0; i < N; i++) o.put(b[i] ? 1U : 0U); }
template <class A> void dump(Out& o, const std::vector<bool, A>& v) { o.put(v.size()); for (std::size_t i = 0; i < v.size(); i++) o.put(v[i] ? 1U : 0U); }
template <class T, class A> void dump(Out& o, const std::vector<T, A>& v) { o.put(v.size()); for (const auto& e : v) dump(o, e); }
@EXTRA@
"""

MAIN = r"""
int main(int argc, char** argv) {
    FILE* f = argc > 1 ? std::fopen(argv[1], "r") : stdin;
    std::size_t cap = 1 << 22;
    char* line = static_cast<char*>(std::malloc(cap));
    while (std::fgets(line, static_cast<int>(cap), f)) {
        char* tok[6]; int nt = 0;
        for (char* p = std::strtok(line, " \n"); p && nt < 6; p = std::strtok(nullptr, " \n")) tok[nt++] = p;
        if (nt == 0) continue;
        int ti = nt > 1 ? std::atoi(tok[1]) : -1;
        if (tok[0][0] == 'S' && nt == 5) do_S(ti, static_cast<int>(std::strtol(tok[2], nullptr, 16)), static_cast<std::size_t>(std::strtoull(tok[3], nullptr, 10)), tok[4]);
        else if (tok[0][0] == 'D' && nt == 5) do_D(ti, tok[2][0], tok[3], tok[4]);
        else if (tok[0][0] == 'M' && nt == 2) do_M(ti);
        else std::printf("H bad command\n");
        std::fflush(stdout);
    }
    std::free(line);
    keep_reset();
    return 0;
}
"""


def cpp_type_name(t) -> str:
    t = inner(t)
    comps = t.full_name.split(".")
    return "::".join(comps[:-1] + [f"{comps[-1]}_{t.version.major}_{t.version.minor}"])


def ident(t) -> str:
    return cpp_type_name(t).replace("::", "_")


class CppEmitter:
    def __init__(self, ctypes: typing.List[pydsdl.CompositeType], tops=None, alloc: bool = False, skip: typing.Optional[typing.Set[int]] = None):
        """
        alloc: the flavour's allocator is not default constructible -- every object is built from an allocator on the
        harness' counting memory resource.  skip: indices of codec types that are left out of this harness.
        """
        self.ctypes = ctypes
        self.tops = tops
        self.alloc = alloc
        self.skip = skip or set()

    def new_expr(self, n: str) -> str:
        return f"new {n}({n}::allocator_type(&vf_resource))" if self.alloc else f"new {n}()"

    def type_functions(self, ct) -> str:
        t = inner(ct)
        n = cpp_type_name(t)
        L = [f"inline void load(In& in, {n}& o) {{ (void) in; (void) o;"]
        D = [f"inline void dump(Out& out, const {n}& o) {{ (void) out; (void) o;"]
        if isinstance(t, pydsdl.UnionType):
            L.append("  std::uint64_t tag = in.next(); switch (tag) {")
            D.append("  out.put(static_cast<std::uint64_t>(o.union_value.index()));")
            for k, f in enumerate(t.fields):
                L.append(f"    case {k}: load(in, o.set_{f.name}()); break;")
                D.append(f"  if (o.is_{f.name}()) dump(out, *o.get_{f.name}_if());")
            L.append('    default: std::printf("H invalid tag for C++ object\\n"); std::fflush(stdout); std::exit(3); }')
        else:
            for f in t.fields_except_padding:
                L.append(f"  load(in, o.{f.name});")
                D.append(f"  dump(out, o.{f.name});")
        L.append("}")
        D.append("}")
        return "\n".join(L + D)

    def emit(self, include_paths: typing.List[str], extra_containers: str = "") -> str:
        names = [cpp_type_name(t) for i, t in enumerate(self.ctypes) if i not in self.skip]
        fwd = "\n".join(f"inline void load(In& in, {n}& o); inline void dump(Out& out, const {n}& o);" for n in names)
        out = [PRELUDE.replace("@INCLUDES@", "\n".join(f'#include "{p}"' for p in include_paths)).replace("@FORWARDS@", fwd).replace("@EXTRA@", extra_containers)
               .replace("@RESOURCE@", "static cetl::pf17::pmr::counting_resource vf_resource;" if self.alloc else "")]
        live = [(k, ct) for k, ct in enumerate(self.ctypes) if k not in self.skip]
        for _, ct in live:
            out.append(self.type_functions(ct))
        for _, ct in live:
            out.append(f"static std::unique_ptr<{cpp_type_name(ct)}> keep_{ident(ct)};")
        out.append("static void keep_reset() { " + " ".join(f"keep_{ident(ct)}.reset();" for _, ct in live) + " }")
        # S
        out.append("static void do_S(int ti, int prefill, std::size_t bufsize, const char* words_hex) {\n  In in; hex_words(words_hex, in);\n  std::uint8_t* buf = static_cast<std::uint8_t*>(std::malloc(bufsize)); std::memset(buf, prefill, bufsize); int rc = 99; std::size_t size = 0;\n  switch (ti) {")
        for k, ct in live:
            n = cpp_type_name(ct)
            out.append(
                f"  case {k}: {{ std::unique_ptr<{n}> obj({self.new_expr(n)}); load(in, *obj); auto r = serialize(*obj, nunavut::support::bitspan(buf, bufsize));"
                f" if (r) {{ rc = 0; size = r.value(); }} else {{ rc = -static_cast<int>(r.error()); }} break; }}"
            )
        out.append('  default: break; }\n  if (rc == 0 && size > bufsize) { std::printf("S %d %zu OVERSIZE", rc, size); } else { std::printf("S %d %zu ", rc, rc == 0 ? size : 0); print_hex(buf, rc == 0 ? size : 0); }\n  std::printf("\\n"); std::free(buf);\n}')
        # D
        out.append("static void do_D(int ti, char mode, const char* prior_hex, const char* bytes_hex) {\n  std::size_t nb; std::uint8_t* b = hex_bytes(bytes_hex, &nb); In in; hex_words(prior_hex, in); Out o; int rc = 99; std::size_t size = 0;\n  switch (ti) {")
        for k, ct in live:
            n = cpp_type_name(ct)
            i = ident(ct)
            out.append(
                f"  case {k}: {{ std::unique_ptr<{n}> fresh; {n}* obj; if (mode == 'K') {{ if (!keep_{i}) keep_{i}.reset({self.new_expr(n)}); obj = keep_{i}.get(); }}"
                f" else {{ fresh.reset({self.new_expr(n)}); obj = fresh.get(); if (mode == 'V') load(in, *obj); }}"
                f" auto r = deserialize(*obj, nunavut::support::const_bitspan(b, nb)); if (r) {{ rc = 0; size = r.value(); dump(o, *obj); }} else {{ rc = -static_cast<int>(r.error()); }} break; }}"
            )
        out.append('  default: break; }\n  std::printf("D %d %zu ", rc, rc == 0 ? size : 0); print_words(o); std::printf("\\n"); std::free(b);\n}')
        out.append(self.emit_meta())
        out.append(MAIN)
        return "\n".join(out)

    def emit_meta(self) -> str:
        L = [
            "// prints fixed_port_id=<value> if the traits have a FixedPortId member, fixed_port_id=none otherwise",
            "template <class Tr> static auto vf_print_port_id(int) -> decltype(static_cast<void>(Tr::FixedPortId)) { std::printf(\" fixed_port_id=%llu\", static_cast<unsigned long long>(Tr::FixedPortId)); }",
            "template <class Tr> static void vf_print_port_id(long) { std::printf(\" fixed_port_id=none\"); }",
            "static void do_M(int ti) {\n  switch (ti) {",
        ]
        for k, ct in enumerate(self.ctypes):
            if k in self.skip:
                continue
            t = inner(ct)
            n = cpp_type_name(t)
            L.append(f"  case {k}: {{")
            L.append(f'    std::printf("M extent=%zu bufsize=%zu sizeof=%zu", static_cast<std::size_t>({n}::_traits_::ExtentBytes), static_cast<std::size_t>({n}::_traits_::SerializationBufferSizeBytes), sizeof({n}));')
            L.append(f'    std::printf(" has_fixed_port_id=%d is_service=%d", static_cast<int>({n}::_traits_::HasFixedPortID), static_cast<int>({n}::_traits_::IsServiceType));')
            if t.has_fixed_port_id and not t.has_parent_service:
                L.append(f'    std::printf(" fixed_port_id=%llu", static_cast<unsigned long long>({n}::_traits_::FixedPortId));')
            from .emit_c import service_of

            svc = service_of(t, self.tops) if t.has_parent_service else None
            if svc is not None and svc.has_fixed_port_id:
                # C++ exports a service's port-ID through the traits of its request and response types only
                L.append(f'    vf_print_port_id<{n}::_traits_>(0);')
            if isinstance(t, pydsdl.UnionType):
                L.append(f'    std::printf(" union_option_count=%zu", static_cast<std::size_t>({n}::VariantType::MAX_INDEX));')
            for c in t.constants:
                dt = c.data_type
                if isinstance(dt, pydsdl.BooleanType):
                    L.append(f'    std::printf(" const.{c.name}=b:%d", static_cast<int>({n}::{c.name}));')
                elif isinstance(dt, pydsdl.FloatType):
                    L.append(f'    std::printf(" const.{c.name}=f:%a", static_cast<double>({n}::{c.name}));')
                elif isinstance(dt, pydsdl.SignedIntegerType):
                    L.append(f'    std::printf(" const.{c.name}=i:%lld", static_cast<long long>({n}::{c.name}));')
                else:
                    L.append(f'    std::printf(" const.{c.name}=u:%llu", static_cast<unsigned long long>({n}::{c.name}));')
            L.append('    std::printf("\\n"); break; }')
        L.append('  default: std::printf("H bad type\\n"); break; }\n}')
        return "\n".join(L)
