#!/venv/bin/python
"""
Coverage-guided fuzz target for C15 (atheris / libFuzzer), used by the thorough tier of ./check C15 as an extra campaign:

    python -m vf.fuzz_c15 <out-dir> <runs> <seed>

The bytes are decoded into a structured case (text over the C15 alphabet, cut points, processor list) so that the fuzzer
reaches the line-buffer logic instead of dying in decoding; the SAME oracle as the Hypothesis check (vf.props.c15.reference)
sits inside the target.  A disagreement is written to <out-dir>/failure-<n>.json and the campaign CONTINUES (failures are
bucketed by signature, at most one file per signature), so a shallow defect does not hide what lies behind it.
The campaign is bounded by -runs, never by wall clock; results are reported by the caller through ctx (a fuzzer finding is
re-run through the plain replay path before it is reported).
"""
import json
import os
import pathlib
import sys


def decode(data: bytes):
    """bytes -> {"text", "cuts", "pps"}: byte 0 = processor list selector, byte 1 = number of cuts, then cuts, then text."""
    from vf.props import c15

    if len(data) < 2:
        return None
    specs = [[], [["trim"]], [["limit", 0]], [["limit", 1]], [["limit", 2]], [["trim"], ["limit", 1]], [["limit", 1], ["trim"]], [["trim"], ["limit", 0]], [["limit", 3], ["trim"], ["limit", 0]]]
    spec = specs[data[0] % len(specs)]
    ncuts = data[1] % 6
    cuts = list(data[2 : 2 + ncuts])
    alphabet = c15.ALPHABET
    text = "".join(alphabet[b % len(alphabet)] for b in data[2 + ncuts : 2 + ncuts + 40])
    cuts = [c % (len(text) + 1) for c in cuts]
    return {"text": text, "cuts": cuts, "pps": spec}


def main():
    out = pathlib.Path(sys.argv[1])
    runs = int(sys.argv[2])
    seed = int(sys.argv[3])
    out.mkdir(parents=True, exist_ok=True)
    import atheris

    with atheris.instrument_imports(include=["nunavut.jinja", "nunavut._postprocessors"]):
        import nunavut._postprocessors  # noqa: F401
        import nunavut.jinja  # noqa: F401
    from vf.props import c15

    seen = {}
    stats = {"executions": 0, "nontrivial": 0}

    def one(data: bytes):
        case = decode(data)
        if case is None or not case["pps"]:
            return
        stats["executions"] += 1
        text, cuts, spec = case["text"], case["cuts"], case["pps"]
        chunks = c15.chunks_of(text, cuts)
        if len(chunks) >= 2:
            stats["nontrivial"] += 1
        exp = c15.reference(text, spec)
        got = c15.impl_line_buffer(chunks, spec)
        if got != exp:
            sig = c15.classify_mismatch(text, cuts, spec, got, exp)
            if sig not in seen:
                seen[sig] = case
                (out / f"failure-{len(seen)}.json").write_text(json.dumps({"signature": sig, "case": dict(case, target="linebuf"), "what": f"chunks={chunks!r} pps={spec!r}: wrote {got!r}, reference {exp!r}"}))

    import atexit  # noqa: F401  (atheris does not run atexit handlers: stats are written from the target itself)

    def target(data: bytes):
        one(data)
        if stats["executions"] % 5000 == 0:
            (out / "stats.json").write_text(json.dumps(stats))

    corpus = out / "corpus"
    corpus.mkdir(exist_ok=True)
    # a few small valid seeds (and the empty corpus is covered by libFuzzer's own first inputs)
    (corpus / "s1").write_bytes(bytes([1, 2, 3, 5]) + b"ab \r\nab\t\n\r\n")
    (corpus / "s2").write_bytes(bytes([5, 1, 4]) + b"\n\n\n a \r\n\r\n")
    atheris.Setup([sys.argv[0], f"-runs={runs}", f"-seed={seed if seed else 1}", "-max_len=64", "-print_final_stats=0", "-verbosity=0", str(corpus)], target)
    try:
        atheris.Fuzz()
    finally:
        (out / "stats.json").write_text(json.dumps(stats))


if __name__ == "__main__":
    main()
