#!/venv/bin/python
"""
Coverage-guided fuzz target for C19 (atheris / libFuzzer), an extra campaign of the thorough tier of ./check C19:

    python -m vf.fuzz_c19 <out-dir> <runs> <seed> <part>        part = diff | marker | uses

The bytes are the *choice sequence* of the same grammar decoders the Hypothesis campaign uses (vf.props.c19.build_*_case), so
every input is a structured case (templates, context, flags) and the fuzzer's mutations move through the grammar instead of
dying in decoding; the SAME oracles (vf.props.c19.check_case: differential against stock Jinja2, auto-indent specification,
use-query chains against if/elif/else) sit inside the target.  Coverage feedback comes from the bundled engine
(nunavut.jinja.jinja2 lexer / parser / compiler / runtime and nunavut.jinja.extensions are instrumented).  A failure is written
to <out-dir>/failure-<n>.json (one per signature) and the campaign CONTINUES.  Bounded by -runs, never by wall clock; the
caller re-runs every finding through the plain replay path before reporting it.
"""
import json
import pathlib
import sys


def main():
    out = pathlib.Path(sys.argv[1])
    runs = int(sys.argv[2])
    seed = int(sys.argv[3])
    part = sys.argv[4]
    out.mkdir(parents=True, exist_ok=True)
    import atheris

    with atheris.instrument_imports(include=["nunavut.jinja.jinja2", "nunavut.jinja.extensions"]):
        import nunavut.jinja.extensions  # noqa: F401
        import nunavut.jinja.jinja2  # noqa: F401
        import nunavut.jinja.jinja2.compiler  # noqa: F401
        import nunavut.jinja.jinja2.filters  # noqa: F401
        import nunavut.jinja.jinja2.lexer  # noqa: F401
        import nunavut.jinja.jinja2.parser  # noqa: F401
        import nunavut.jinja.jinja2.runtime  # noqa: F401
    from vf.props import c19

    build = c19.PARTS[part][0]
    seen = {}
    stats = {"executions": 0, "nontrivial": 0, "harness_errors": 0}

    def note(case, nontrivial, classes, feats):
        stats["executions"] += 1
        if nontrivial:
            stats["nontrivial"] += 1

    state = {"minimisations_left": 0, "stats": note}

    calls = [0]

    def target(data: bytes):
        calls[0] += 1
        if calls[0] % 200 == 0 or calls[0] >= runs - 1:
            (out / "stats.json").write_text(json.dumps(dict(stats, calls=calls[0])))
        if len(data) < 8:
            return
        case = build(data)
        for sig, what, rcase in c19.check_case(case, state):
            if sig not in seen:
                seen[sig] = True
                (out / f"failure-{len(seen)}.json").write_text(json.dumps({"signature": sig, "case": rcase, "what": what}, default=repr))

    corpus = out / "corpus"
    corpus.mkdir(exist_ok=True)
    # a few small seeds besides libFuzzer's own first inputs (the all-zero sequence is the minimal case of the grammar)
    for i, b in enumerate((bytes(64), bytes(range(256)) * 2, bytes((i * 37 + 11) % 251 for i in range(900)))):
        (corpus / f"s{i}").write_bytes(b)
    atheris.Setup([sys.argv[0], f"-runs={runs}", f"-seed={seed if seed else 1}", "-max_len=2400", "-len_control=0", "-print_final_stats=0", "-verbosity=0", str(corpus)], target)
    try:
        atheris.Fuzz()
    finally:
        (out / "stats.json").write_text(json.dumps(stats))


if __name__ == "__main__":
    main()
