"""
Codec lab (DESIGN.md §3): materialise a DSDL universe, run nnvg from the tree under test for C / C++ / Python under an
option set, emit + build the per-type harness (optionally ASan+UBSan+LSan), and drive it with command files.

A *target key* is a string: "c|<endian>|<asserts 0/1>|<override 0/1>[|<mods>]", "cpp|<std>|<endian>|<asserts 0/1>|<container>[|<mods>]",
"py".  mods = comma-separated: "nofloat" (--omit-float-serialization-support; types with a float anywhere are left out).
"""
from __future__ import annotations

import hashlib
import json
import os
import pathlib
import shutil
import subprocess
import tempfile
import typing

import pydsdl

from . import core, dsdlgen, emit_c, emit_cpp, refmodel, tool
from .refmodel import inner

CLANG = "clang"
CLANGXX = "clang++"
SAN_FLAGS = ["-fsanitize=address,undefined", "-fno-sanitize-recover=all", "-fno-omit-frame-pointer", "-O1", "-g0"]
PLAIN_FLAGS = ["-O1", "-g0"]
RUN_ENV = {
    "ASAN_OPTIONS": "detect_leaks=1:exitcode=23:allocator_may_return_null=1:detect_stack_use_after_return=1",
    "UBSAN_OPTIONS": "halt_on_error=1:print_stacktrace=0",
    "LSAN_OPTIONS": "exitcode=24",
}

MINIVEC = core.VERIF / "harness" / "minivec.hpp"
FIXEDVEC = core.VERIF / "harness" / "fixedvec.hpp"  # capacity from the {MAX_SIZE} placeholder of the container template
# stand-in for the CETL headers named by the cetl++14-17 shorthand (the library itself is not available offline)
STANDIN = core.VERIF / "harness" / "standin"
ALLOC_STDS = ("cetl++14-17",)  # flavours whose allocator is not default constructible


class LabError(core.HarnessError):
    pass


def parse_key(key: str) -> dict:
    p = key.split("|")
    if p[0] == "c":
        return {"lang": "c", "endian": p[1], "asserts": p[2] == "1", "override": p[3] == "1", "mods": set(p[4].split(",")) if len(p) > 4 else set()}
    if p[0] == "cpp":
        return {"lang": "cpp", "std": p[1], "endian": p[2], "asserts": p[3] == "1", "container": p[4] if len(p) > 4 else "vector", "mods": set(p[5].split(",")) if len(p) > 5 else set()}
    return {"lang": "py"}


class Lab:
    def __init__(self, universe: dict, workdir: typing.Optional[pathlib.Path] = None, sanitize: bool = True):
        self.u = universe
        self.own = workdir is None
        self.dir = pathlib.Path(workdir or tempfile.mkdtemp(prefix="vf-lab-"))
        self.sanitize = sanitize
        self.dsdl = self.dir / "dsdl"
        self.roots = dsdlgen.materialise(universe, self.dsdl)
        parsed = dsdlgen.read(universe, self.dsdl)
        self.top: typing.List[pydsdl.CompositeType] = []
        for r in universe["roots"]:
            self.top += sorted(parsed[r["name"]], key=lambda t: (t.full_name, t.version))
        self.ctypes = refmodel.codec_types(self.top)
        self.built: typing.Dict[str, typing.Any] = {}
        self.gen_log: typing.Dict[str, str] = {}

    def close(self):
        if self.own:
            shutil.rmtree(self.dir, ignore_errors=True)

    # ----------------------------------------------------------------------------------------------------- skipped types per key
    def float_excluded(self) -> typing.Set[int]:
        """Codec types with a floating-point field anywhere in their dependency closure (incl. the other half of a service)."""
        memo: typing.Dict[int, bool] = {}

        def has_float(t) -> bool:
            if isinstance(t, pydsdl.FloatType):
                return True
            if isinstance(t, pydsdl.ArrayType):
                return has_float(t.element_type)
            if isinstance(t, pydsdl.CompositeType):
                t = inner(t)
                if id(t) not in memo:
                    memo[id(t)] = False
                    memo[id(t)] = any(has_float(f.data_type) for f in t.fields_except_padding)
                return memo[id(t)]
            return False

        out = set()
        for i, ct in enumerate(self.ctypes):
            t = inner(ct)
            svc = emit_c.service_of(t, self.top) if t.has_parent_service else None
            if has_float(ct) or (svc is not None and (has_float(svc.request_type) or has_float(svc.response_type))):
                out.add(i)
        return out

    def skipped(self, key: str) -> typing.Set[int]:
        """Codec types that are not part of the harness of this target key."""
        o = parse_key(key)
        out: typing.Set[int] = set()
        if o["lang"] == "cpp" and o["std"] in ALLOC_STDS:
            out |= self.alloc_excluded()
        if "nofloat" in o.get("mods", ()):
            out |= self.float_excluded()
        return out

    # ----------------------------------------------------------------------------------------------------- allocator flavours
    def alloc_excluded(self) -> typing.Set[int]:
        """
        Codec types that cannot be part of a harness for a flavour whose allocator is NOT default constructible (known
        findings of C06: unions that own a composite / variable-length option and fixed arrays of composites do not compile
        there), closed over dependencies: a header that includes an excluded header is excluded as well.
        """

        def ndc(t) -> bool:  # not default constructible in such a flavour
            if isinstance(t, pydsdl.CompositeType):
                return True
            if isinstance(t, pydsdl.VariableLengthArrayType):
                return True
            if isinstance(t, pydsdl.FixedLengthArrayType):
                return ndc(t.element_type)
            return False

        def deps(t):
            if isinstance(t, pydsdl.ArrayType):
                return deps(t.element_type)
            if isinstance(t, pydsdl.CompositeType):
                return [inner(t)]
            return []

        memo: typing.Dict[int, bool] = {}

        def bad(t) -> bool:
            t = inner(t)
            if id(t) in memo:
                return memo[id(t)]
            memo[id(t)] = False
            r = False
            if isinstance(t, pydsdl.UnionType):
                r = any(ndc(f.data_type) for f in t.fields)
            else:
                r = any(isinstance(f.data_type, pydsdl.FixedLengthArrayType) and ndc(f.data_type.element_type) for f in t.fields_except_padding)
            r = r or any(bad(d) for f in t.fields_except_padding for d in deps(f.data_type))
            memo[id(t)] = r
            return r

        out = set()
        for i, ct in enumerate(self.ctypes):
            t = inner(ct)
            svc_bad = False
            if t.has_parent_service:
                # both halves live in one header
                svc = emit_c.service_of(t, self.top)
                svc_bad = svc is not None and (bad(svc.request_type) or bad(svc.response_type))
            if bad(ct) or svc_bad:
                out.add(i)
        return out

    # ----------------------------------------------------------------------------------------------------- generation
    def generate(self, key: str) -> pathlib.Path:
        o = parse_key(key)
        out = self.dir / ("gen_" + hashlib.sha1(key.encode()).hexdigest()[:10])
        if out.exists():
            return out
        argv_common = ["--target-language", o["lang"], "--experimental-languages", "--allow-unregulated-fixed-port-id", "--outdir", str(out)]
        cfg = None
        if o["lang"] in ("c", "cpp"):
            argv_common += ["--target-endianness", o["endian"]]
            if o["asserts"]:
                argv_common += ["--enable-serialization-asserts"]
            if o.get("override"):
                argv_common += ["--enable-override-variable-array-capacity"]
            if "nofloat" in o["mods"]:
                argv_common += ["--omit-float-serialization-support"]
        if o["lang"] == "cpp":
            argv_common += ["--language-standard", o["std"]]
            if o.get("container") == "minivec":
                cfg = self.dir / "minivec.yaml"
                cfg.write_text(
                    "nunavut.lang.cpp:\n  options:\n"
                    f'    variable_array_type_include: "\\"{MINIVEC}\\""\n'
                    '    variable_array_type_template: "vf::minivec<{TYPE}>"\n'
                )
            if o.get("container") == "fixedvec":
                cfg = self.dir / "fixedvec.yaml"
                cfg.write_text(
                    "nunavut.lang.cpp:\n  options:\n"
                    f'    variable_array_type_include: "\\"{FIXEDVEC}\\""\n'
                    '    variable_array_type_template: "vf::fixedvec<{TYPE}, {MAX_SIZE}>"\n'
                )
        for i, r in enumerate(self.roots):
            argv = list(argv_common)
            for j in range(i):
                argv += ["--lookup-dir", str(self.roots[j])]
            argv += [str(r)]
            if cfg is not None:
                argv += ["--configuration", str(cfg)]
            rc, so, se = tool.run_sub(argv)
            if rc != 0:
                raise LabError(f"nnvg failed for {key}: {' '.join(argv)}\n{se[-1500:]}")
        return out

    def header_paths(self, ext: str) -> typing.List[str]:
        out = []
        for t in self.top:
            comps = t.full_name.split(".")
            out.append("/".join(comps[:-1] + [f"{comps[-1]}_{t.version.major}_{t.version.minor}{ext}"]))
        return out

    def codec_header_paths(self, ext: str, skip: typing.Set[int]) -> typing.List[str]:
        """Headers of the codec types that are not skipped (a service's two halves share one header)."""
        out: typing.List[str] = []
        for i, ct in enumerate(self.ctypes):
            if i in skip:
                continue
            t = inner(ct)
            owner = emit_c.service_of(t, self.top) if t.has_parent_service else t
            comps = owner.full_name.split(".")
            p = "/".join(comps[:-1] + [f"{comps[-1]}_{owner.version.major}_{owner.version.minor}{ext}"])
            if p not in out:
                out.append(p)
        return out

    # ----------------------------------------------------------------------------------------------------- build
    def build(self, key: str, cap_overrides: typing.Optional[typing.Dict[str, int]] = None) -> typing.Any:
        bkey = key + (json.dumps(cap_overrides, sort_keys=True) if cap_overrides else "")
        if bkey in self.built:
            return self.built[bkey]
        o = parse_key(key)
        gen = self.generate(key)
        tag = hashlib.sha1(bkey.encode()).hexdigest()[:10]
        if o["lang"] == "py":
            schema = self.dir / "py_schema.json"
            schema.write_text(json.dumps({"types": [py_schema(t) for t in self.ctypes]}))
            self.built[bkey] = ("py", schema, gen)
            return self.built[bkey]
        flags = SAN_FLAGS if self.sanitize else PLAIN_FLAGS
        if o["lang"] == "c":
            src = self.dir / f"h_{tag}.c"
            skip = self.skipped(key)
            src.write_text(emit_c.CEmitter(self.ctypes, self.top, skip=skip).emit(self.codec_header_paths(".h", skip) if skip else self.header_paths(".h")))
            exe = self.dir / f"h_{tag}"
            cmd = [CLANG, "-std=c11", *flags, "-Wall", "-Wno-unused-function", "-Wno-deprecated-declarations", "-I", str(gen), str(src), "-o", str(exe), "-lm"]
            if o["asserts"]:
                cmd.insert(1, "-DVF_ASSERTS")
            for macro, val in (cap_overrides or {}).items():
                cmd.insert(1, f"-D{macro}={val}")
        else:
            src = self.dir / f"h_{tag}.cpp"
            skip = self.skipped(key)
            if o["std"] in ALLOC_STDS:
                src.write_text(emit_cpp.CppEmitter(self.ctypes, self.top, alloc=True, skip=skip).emit(self.codec_header_paths(".hpp", skip), CETL_OVERLOADS))
            else:
                src.write_text(emit_cpp.CppEmitter(self.ctypes, self.top, skip=skip).emit(self.codec_header_paths(".hpp", skip) if skip else self.header_paths(".hpp"), MINIVEC_OVERLOADS if o.get("container") == "minivec" else FIXEDVEC_OVERLOADS if o.get("container") == "fixedvec" else ""))
            exe = self.dir / f"h_{tag}"
            std = {"c++17-pmr": "c++17", "cetl++14-17": "c++14"}.get(o["std"], o["std"])
            cmd = [CLANGXX, f"-std={std}", *flags, "-Wall", "-Wno-unused-function", "-Wno-deprecated-declarations", "-I", str(gen), *(["-isystem", str(STANDIN)] if o["std"] in ALLOC_STDS else []), str(src), "-o", str(exe)]
            if o["asserts"]:
                cmd.insert(1, "-DVF_ASSERTS")
        p = subprocess.run(cmd, capture_output=True, text=True)
        if p.returncode != 0:
            errs = [l for l in p.stderr.splitlines() if "error" in l] or p.stderr.splitlines()
            raise LabError(f"harness build failed for {key}: {' '.join(cmd)}\n" + "\n".join(errs[:12]))
        self.built[bkey] = ("exe", exe)
        return self.built[bkey]

    # ----------------------------------------------------------------------------------------------------- run
    def run(self, key: str, commands: typing.List[str], cap_overrides=None) -> typing.List[dict]:
        """One result dict per command: {"line": str} or {"crash": summary, "rc": exit code}."""
        b = self.build(key, cap_overrides)
        results: typing.List[dict] = []
        pos = 0
        attempts = 0
        while pos < len(commands):
            attempts += 1
            cf = self.dir / f"cmd_{hashlib.sha1((key + str(pos) + str(attempts)).encode()).hexdigest()[:8]}.txt"
            cf.write_text("\n".join(commands[pos:]) + "\n")
            if b[0] == "py":
                env = dict(os.environ, PYTHONPATH=str(core.VERIF / ".deps"), PYTHONHASHSEED="0", PYTHONDONTWRITEBYTECODE="1")
                cmd = [tool.PY, str(core.VERIF / "harness" / "py_driver.py"), str(b[1]), str(b[2]), str(cf)]
            else:
                env = dict(os.environ, **RUN_ENV)
                cmd = [str(b[1]), str(cf)]
            p = subprocess.run(cmd, capture_output=True, text=True, env=env, timeout=600)
            lines = p.stdout.splitlines()
            n_expected = len(commands) - pos
            done = min(len(lines), n_expected)
            for l in lines[:done]:
                results.append({"line": l})
            cf.unlink()
            if done == n_expected:
                if p.returncode != 0:
                    # all commands answered but the process failed at exit: leak report (LSan) or similar
                    results[-1]["exit_failure"] = {"rc": p.returncode, "stderr": _san_summary(p.stderr), "span": [pos, len(commands)]}
                break
            # crashed inside command pos+done
            last = lines[done - 1] if done and lines[done - 1].startswith("A ") else None
            results.append({"crash": _san_summary(p.stderr), "rc": p.returncode})
            pos += done + 1
            if attempts > 200:
                raise LabError("too many harness crashes")
        return results


def _san_summary(stderr: str) -> str:
    keep = [l.strip() for l in stderr.splitlines() if "ERROR:" in l or "SUMMARY:" in l or "runtime error:" in l or "ASSERT" in l]
    return " | ".join(keep[:4])[:600] or stderr[-300:]


def py_schema(t) -> dict:
    if isinstance(t, pydsdl.BooleanType):
        return {"k": "bool"}
    if isinstance(t, pydsdl.FloatType):
        return {"k": "float", "bits": t.bit_length}
    if isinstance(t, pydsdl.SignedIntegerType):
        return {"k": "int", "bits": t.bit_length}
    if isinstance(t, pydsdl.PrimitiveType):
        return {"k": "uint", "bits": t.bit_length}
    if isinstance(t, pydsdl.FixedLengthArrayType):
        return {"k": "farr", "n": t.capacity, "e": py_schema(t.element_type)}
    if isinstance(t, pydsdl.VariableLengthArrayType):
        return {"k": "varr", "cap": t.capacity, "e": py_schema(t.element_type)}
    t = inner(t)
    comps = t.full_name.split(".")
    if t.has_parent_service:
        svc = comps[:-1]
        mod = ".".join(svc[:-1] + [f"{svc[-1]}_{t.version.major}_{t.version.minor}"])
        path = [f"{svc[-1]}_{t.version.major}_{t.version.minor}", comps[-1]]
    else:
        mod = ".".join(comps[:-1] + [f"{comps[-1]}_{t.version.major}_{t.version.minor}"])
        path = [f"{comps[-1]}_{t.version.major}_{t.version.minor}"]
    fields = t.fields if isinstance(t, pydsdl.UnionType) else t.fields_except_padding
    return {
        "k": "union" if isinstance(t, pydsdl.UnionType) else "struct",
        "module": mod,
        "path": path,
        "fields": [[f.name, py_schema(f.data_type)] for f in fields],
        "consts": [
            [c.name, c.name, "b" if isinstance(c.data_type, pydsdl.BooleanType) else "f" if isinstance(c.data_type, pydsdl.FloatType) else "i" if isinstance(c.data_type, pydsdl.SignedIntegerType) else "u"]
            for c in t.constants
        ],
    }


CETL_OVERLOADS = r"""
#include "cetl/variable_length_array.hpp"  // universes without a variable-length array do not pull it in themselves
template <class T, class A> typename std::enable_if<!vf_has_allocator_type<T>::value>::type vf_append(cetl::VariableLengthArray<T, A>& v) { v.emplace_back(); }
template <class T, class A> typename std::enable_if<vf_has_allocator_type<T>::value>::type vf_append(cetl::VariableLengthArray<T, A>& v) { v.emplace_back(typename T::allocator_type(v.get_allocator())); }
template <class T, class A> void load(In& in, cetl::VariableLengthArray<T, A>& v) { std::size_t n = static_cast<std::size_t>(in.next()); v.clear(); if (n > v.max_size()) { std::fprintf(stderr, "ERROR: vf: the container as built by the generated constructor refuses a count within the DSDL capacity (max_size=%zu count=%zu)\n", v.max_size(), n); std::abort(); } for (std::size_t i = 0; i < n; i++) { vf_append(v); load(in, v.back()); } }
template <class A> void load(In& in, cetl::VariableLengthArray<bool, A>& v) { std::size_t n = static_cast<std::size_t>(in.next()); v.clear(); if (n > v.max_size()) { std::fprintf(stderr, "ERROR: vf: the container as built by the generated constructor refuses a count within the DSDL capacity (max_size=%zu count=%zu)\n", v.max_size(), n); std::abort(); } for (std::size_t i = 0; i < n; i++) v.push_back(in.next() != 0); }
template <class T, class A> void dump(Out& o, const cetl::VariableLengthArray<T, A>& v) { o.put(v.size()); for (std::size_t i = 0; i < v.size(); i++) dump(o, v[i]); }
template <class A> void dump(Out& o, const cetl::VariableLengthArray<bool, A>& v) { o.put(v.size()); for (std::size_t i = 0; i < v.size(); i++) o.put(v[i] ? 1U : 0U); }
"""

MINIVEC_OVERLOADS = f'#include "{MINIVEC}"  // universes without a variable-length array do not pull it in themselves\n' + r"""
template <class T> void load(In& in, vf::minivec<T>& v) { std::size_t n = static_cast<std::size_t>(in.next()); v.clear(); for (std::size_t i = 0; i < n; i++) { v.emplace_back(); load(in, v.back()); } }
template <class T> void dump(Out& o, const vf::minivec<T>& v) { o.put(v.size()); for (std::size_t i = 0; i < v.size(); i++) dump(o, v[i]); }
inline void load(In& in, vf::minivec<bool>& v) { std::size_t n = static_cast<std::size_t>(in.next()); v.clear(); for (std::size_t i = 0; i < n; i++) v.push_back(in.next() != 0); }
inline void dump(Out& o, const vf::minivec<bool>& v) { o.put(v.size()); for (std::size_t i = 0; i < v.size(); i++) o.put(v[i] ? 1U : 0U); }
"""


FIXEDVEC_OVERLOADS = f'#include "{FIXEDVEC}"\n' + r"""
template <class T, std::size_t N> void load(In& in, vf::fixedvec<T, N>& v) { std::size_t n = static_cast<std::size_t>(in.next()); v.clear(); for (std::size_t i = 0; i < n; i++) { v.emplace_back(); load(in, v.back()); } }
template <class T, std::size_t N> void dump(Out& o, const vf::fixedvec<T, N>& v) { o.put(v.size()); for (std::size_t i = 0; i < v.size(); i++) dump(o, v[i]); }
template <std::size_t N> void load(In& in, vf::fixedvec<bool, N>& v) { std::size_t n = static_cast<std::size_t>(in.next()); v.clear(); for (std::size_t i = 0; i < n; i++) v.push_back(in.next() != 0); }
template <std::size_t N> void dump(Out& o, const vf::fixedvec<bool, N>& v) { o.put(v.size()); for (std::size_t i = 0; i < v.size(); i++) o.put(v[i] ? 1U : 0U); }
"""


def parse_S(line: str) -> dict:
    p = line.split()
    if p[0] != "S":
        return {"bad": line}
    if len(p) > 3 and p[3] == "OVERSIZE":
        return {"rc": int(p[1]), "size": int(p[2]), "oversize": True}
    return {"rc": int(p[1]), "size": int(p[2]), "bytes": b"" if p[3] == "-" else bytes.fromhex(p[3]), "note": " ".join(p[4:])}


def parse_D(line: str) -> dict:
    p = line.split()
    if p[0] != "D":
        return {"bad": line}
    return {"rc": int(p[1]), "consumed": int(p[2]), "words": p[3]}
