"""Generates /verif/MANIFEST.json from the table below (python -m vf.manifest_gen)."""
import json
import pathlib

VERIF = pathlib.Path(__file__).resolve().parent.parent

# id -> (technique, level text, level note, design ref)
CHECKS = {
    "C15": (
        "Hypothesis generated (text, chunking, processor list) vs line-wise reference model; exhaustive small sub-domain",
        "Generated-input exploration: ~16k (quick) / ~240k (thorough) texts x chunkings x processor lists through "
        "_generate_with_line_buffer, _copy_header_using_line_pps and the full generate_all pipeline with a user "
        "template, each compared with a line-wise reference over the complete text; all texts up to length 4/6 over "
        "{a,space,CR,LF} x every single cut enumerated exhaustively.",
        "Reference re-implements the documented Trim/LimitEmptyLines behaviour; a lone CR is line content in the "
        "template path; resource files in the copy path use LF/CRLF terminators only (lone CR is outside the stated domain).",
        "DESIGN.md §4 C15",
    ),
    "C13": (
        "Hypothesis generated source documents / YAML files / builder and CLI overrides vs reference merge + path-precedence rule; stateful builder histories",
        "Generated-input exploration at four levels: deep_update and LanguageConfig.update on arbitrary nested maps with "
        "DefaultValue leaves (reference merge, independent last-explicit-else-last-default path rule, source documents "
        "compared with their snapshots); LanguageContextBuilder with 0..3 YAML files and explicit/default overrides over the "
        "real c/cpp/py options observed through get_option(s)/get_config_value*/a probe template; nnvg --list-configuration "
        "in-process and in a subprocess; Hypothesis rule-based machine over builder histories (earlier contexts unchanged).",
        "Built-in defaults read independently from properties.yaml; history invariant across distinct builders; invalid "
        "C++ option groups (documented ValueError) are not generated; python forces enable_serialization_asserts (documented in lang/py).",
        "DESIGN.md §4 C13",
    ),
}

NOT_YET = {}


def main():
    props = [json.loads(l) for l in (VERIF / "properties.jsonl").read_text().splitlines() if l.strip()]
    checks = []
    na = []
    for p in props:
        pid = p["id"]
        if pid in CHECKS:
            tech, text, note, ref = CHECKS[pid]
            checks.append(
                {
                    "property_id": pid,
                    "quick_cmd": f"./check {pid} --tier quick",
                    "thorough_cmd": f"./check {pid} --tier thorough",
                    "evidence_file": f"/verif/evidence/{pid}.json",
                    "replay_cmd_template": f"./check {pid} --replay {{path}}",
                    "engine": "vf",
                    "level_claimed": {"category": "exploration", "text": text, "design_ref": ref},
                    "level_note": note,
                    "technique": tech,
                }
            )
        else:
            na.append({"property_id": pid, "reason": NOT_YET.get(pid, "check not built yet (work in progress; see DESIGN.md §8 build order)")})
    man = {
        "version": 1,
        "setup_cmd": "sh ./setup.sh",
        "hooks": {
            "guard": "NUNAVUT_VERIF",
            "enable": "no hooks are needed: /venv holds an editable install of /repo, checks import and run nunavut from /repo/src directly; clock / hash seed / capabilities are controlled from the harness side",
            "baseline_off_cmd": "sh /verif/baseline_check.sh",
            "source_commits": [],
            "add_only": True,
        },
        "engines": [
            {
                "name": "vf",
                "path": "/verif/vf",
                "serves_properties": sorted(CHECKS),
                "kind_free_text": "Python 3.12 + Hypothesis 6.168 property-based testing harness (collect-then-shrink, replay files, known-findings matching); codec lab with gcc/clang sanitizers for generated code",
            }
        ],
        "checks": checks,
        "not_applicable": na,
        "notes": "Exit 0 held / 1 VIOLATION / 2 harness error. known_findings.json lists genuine defects (known / fixed). See DESIGN.md.",
    }
    (VERIF / "MANIFEST.json").write_text(json.dumps(man, indent=1) + "\n")
    print(f"MANIFEST.json: {len(checks)} checks, {len(na)} not_applicable")


if __name__ == "__main__":
    main()
