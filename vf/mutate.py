"""
Sensitivity runs: python -m vf.mutate [ID[:name-substring] ...]
Each mutant in /verif/mutants/<ID>.json = {"name", "file", "old", "new"} is applied to a scratch copy of /repo/src (never to
/repo), the quick check is run against it with VERIF_REPO, and must exit 1. Results go to /verif/mutants/RESULTS.json.
"""
import json
import os
import pathlib
import shutil
import subprocess
import sys
import tempfile
import time
from concurrent.futures import ThreadPoolExecutor

VERIF = pathlib.Path(__file__).resolve().parent.parent


def run_one(pid, m):
    tmp = pathlib.Path(tempfile.mkdtemp(prefix=f"vf-mut-{pid}-"))
    try:
        shutil.copytree("/repo/src", tmp / "src", ignore=shutil.ignore_patterns("__pycache__"))
        for d in ("verification",):
            if os.path.isdir(f"/repo/{d}/cmake"):
                shutil.copytree(f"/repo/{d}/cmake", tmp / d / "cmake")
        edits = m.get("edits") or [m]
        for e in edits:
            f = tmp / e["file"]
            s = f.read_text()
            if s.count(e["old"]) < 1:
                return {"id": pid, "name": m["name"], "result": "STALE (old text not found)"}
            f.write_text(s.replace(e["old"], e["new"], 1))
        env = dict(os.environ, VERIF_REPO=str(tmp), VERIF_SEED=os.environ.get("VERIF_SEED", "1"))
        env["VF_NO_SHRINK"] = "1"
        env["VF_EVIDENCE_DIR"] = str(tmp / "evidence")
        env["VF_REPLAY_DIR"] = str(tmp / "replays")
        t0 = time.time()
        p = subprocess.run([str(VERIF / "check"), pid, "--tier", "quick"], env=env, capture_output=True, text=True)
        sigs = [l.strip() for l in p.stdout.splitlines() if l.strip().startswith("signature:")]
        return {
            "id": pid,
            "name": m["name"],
            "result": "CAUGHT" if p.returncode == 1 else f"MISSED (rc={p.returncode})",
            "wall_s": round(time.time() - t0, 1),
            "signatures": sigs[:4],
            "tail": "" if p.returncode == 1 else (p.stdout[-300:] + p.stderr[-600:]),
        }
    finally:
        shutil.rmtree(tmp, ignore_errors=True)


def main():
    # arguments: property ids, optionally "ID:substring" to run only the mutants whose name contains the substring
    args = [a.split(":", 1) + [""] for a in sys.argv[1:]] or [[p.stem, ""] for p in sorted((VERIF / "mutants").glob("C*.json"))]
    jobs = []
    for pid, sub, *_ in args:
        pid = pid.upper()
        for m in json.loads((VERIF / "mutants" / f"{pid}.json").read_text()):
            if sub in m["name"]:
                jobs.append((pid, m))
    with ThreadPoolExecutor(max_workers=int(os.environ.get("VF_MUT_JOBS", "4"))) as ex:
        results = list(ex.map(lambda j: run_one(*j), jobs))
    resf = VERIF / "mutants" / "RESULTS.json"
    old = json.loads(resf.read_text()) if resf.exists() else {}
    for r in results:
        print(f"{r['id']:4} {r['result']:22} {r.get('wall_s', '')!s:6} {r['name']}  {r.get('signatures', '')}")
        if not r["result"].startswith("CAUGHT"):
            print("     ", r.get("tail", "")[-600:])
        old[f"{r['id']}:{r['name']}"] = {k: r[k] for k in ("result", "wall_s", "signatures") if k in r}
    resf.write_text(json.dumps(old, indent=1, sort_keys=True) + "\n")
    return 0 if all(r["result"].startswith("CAUGHT") for r in results) else 1


if __name__ == "__main__":
    sys.exit(main())
