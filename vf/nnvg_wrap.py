"""
Wrapper process around `python -m nunavut`: owns the ambient state the properties quantify over.

  --fake-time T   time.time()/time_ns()/datetime.now()/utcnow()/today() report T (seconds since epoch) -- no change to /repo
  --exec-code S   run the Python statements S (library use of nunavut) instead of the nnvg command line; give it LAST
  --drop-caps     remove CAP_DAC_OVERRIDE / CAP_DAC_READ_SEARCH / CAP_FOWNER from the bounding+effective sets so that root obeys
                  file mode bits (needed to observe read-only files when the sandbox runs as root)
"""
import runpy
import sys


def _fake_time(t: float) -> None:
    import datetime as _dt
    import time as _time

    _time.time = lambda: t  # type: ignore
    _time.time_ns = lambda: int(t * 1e9)  # type: ignore
    real = _dt.datetime

    class FakeDateTime(real):  # type: ignore
        @classmethod
        def now(cls, tz=None):
            return real.fromtimestamp(t, tz)

        @classmethod
        def utcnow(cls):
            return real.fromtimestamp(t, _dt.timezone.utc).replace(tzinfo=None)

        @classmethod
        def today(cls):
            return real.fromtimestamp(t)

    _dt.datetime = FakeDateTime  # type: ignore


def _drop_caps() -> None:
    import ctypes
    import os

    libc = ctypes.CDLL(None, use_errno=True)
    PR_CAPBSET_DROP = 24
    for cap in (1, 2):  # CAP_DAC_OVERRIDE, CAP_DAC_READ_SEARCH
        libc.prctl(PR_CAPBSET_DROP, cap, 0, 0, 0)

    # also clear them from the effective/permitted/inheritable sets of this process (capset syscall)
    class Hdr(ctypes.Structure):
        _fields_ = [("version", ctypes.c_uint32), ("pid", ctypes.c_int)]

    class Data(ctypes.Structure):
        _fields_ = [("effective", ctypes.c_uint32), ("permitted", ctypes.c_uint32), ("inheritable", ctypes.c_uint32)]

    hdr = Hdr(0x20080522, 0)
    data = (Data * 2)()
    if libc.capget(ctypes.byref(hdr), data) != 0:
        raise OSError(ctypes.get_errno(), "capget")
    mask = ~((1 << 1) | (1 << 2)) & 0xFFFFFFFF
    data[0].effective &= mask
    data[0].permitted &= mask
    data[0].inheritable &= mask
    if libc.capset(ctypes.byref(hdr), data) != 0:
        raise OSError(ctypes.get_errno(), "capset")
    # self-test: a 0o444 file must not be writable any more
    import tempfile

    with tempfile.NamedTemporaryFile() as f:
        os.chmod(f.name, 0o444)
        try:
            open(f.name, "w").close()
        except PermissionError:
            return
    sys.stderr.write("VF-WRAP: capability drop ineffective\n")
    sys.exit(97)


def main() -> None:
    args = sys.argv[1:]
    while args and args[0] != "--":
        a = args.pop(0)
        if a == "--fake-time":
            _fake_time(float(args.pop(0)))
        elif a == "--drop-caps":
            _drop_caps()
        elif a == "--exec-code":  # library route: run the given statements instead of the nnvg command line
            code = args.pop(0)
            exec(compile(code, "<vf-exec-code>", "exec"), {"__name__": "__main__"})  # pylint: disable=exec-used
            return
        else:
            sys.stderr.write(f"VF-WRAP: unknown option {a}\n")
            sys.exit(98)
    if args and args[0] == "--":
        args.pop(0)
    sys.argv = ["nnvg"] + args
    runpy.run_module("nunavut", run_name="__main__", alter_sys=True)


if __name__ == "__main__":
    main()
