"""
C01 -- generated serializers emit exactly the DSDL-specified wire representation (C, C++, Python; all option sets).

Domain : generated universes x values (in range / storage-type range incl. values that must saturate or truncate / values
         without representation) x targets x option sets x output-buffer prefill {00, ff, a5} x buffer size {max, +1, +64}.
Oracle : vf.refmodel.serialize (spec transcription, cross-checked against pydsdl's own codec on every case): exact bytes and
         size; values without representation must be rejected with a documented error.
"""
from __future__ import annotations

from .. import campaign, codec_eval, core

SPEC = {
    "n_values": 20,
    "n_c": 2,
    "n_cpp": 2,
    "py": True,
    "max_types": 5,
    # option enable_override_variable_array_capacity only changes behaviour with user -D overrides (C04's subject)
}


def run(ctx: core.Ctx):
    ctx.rule = (
        "case = (generated type, generated value, target+option set, prefill, buffer size); non-trivial = the type has a field at a "
        "non-byte-aligned offset or an array/nested/union member and the expected bytes are not all zero (or the value has no "
        "representation); distinct by hash(type, value words, target key, prefill, buffer size)"
    )
    ctx.assumptions = [
        "reference codec = vf.refmodel, agreeing with pydsdl.serialize on every case (disagreement = harness error)",
        "float values the wire format cannot represent exactly may encode to either neighbouring representable value",
        "little-endian host; cetl++14-17 flavour not compiled (CETL sources absent offline)",
    ]
    spec = dict(SPEC)
    if not ctx.quick:
        spec.update(n_values=60, n_c=4, n_cpp=5)
    campaign.run_property(ctx, spec, 14 if ctx.quick else 120, codec_eval.eval_c01)
    ctx.require("dom.storage", 50)
    ctx.require("dom.invalid", 10)
    ctx.require("lang.py", 50)
    ctx.require("lang.cpp", 50)


def replay(ctx: core.Ctx, case):
    return campaign.replay_property(ctx, case, codec_eval.eval_c01)
