"""
C02 -- generated deserializers decode every byte string as the specification prescribes.

Domain : generated universes x byte strings of classes a (valid encodings) b (every prefix / boundary cuts) c (trailing garbage)
         d (bit flips) e (random) f (empty) g (structured: delimiter headers, length prefixes, union tags rewritten via the
         reference segment map, payload resized) x targets x option sets; inputs in exact-size heap buffers (ASan build).
Oracle : vf.refmodel.deserialize (cross-checked against pydsdl.deserialize on every case): agreement on success/failure, the
         error kind (C / C++), exact value (NaN-ness), consumed == min(ceil(bits/8), len) and never more than supplied.
"""
from __future__ import annotations

from .. import campaign, codec_eval, core

SPEC = {"n_values": 0, "n_byte_batches": 2, "n_c": 2, "n_cpp": 2, "py": True, "max_types": 5}


def run(ctx: core.Ctx):
    ctx.rule = (
        "case = (generated type, byte string of class a..g, target+option set); non-trivial = byte string is not verbatim "
        "serializer output (classes b..g), or class a for a type with a nested delimited / variable-length member; "
        "distinct by hash(type, bytes, target key)"
    )
    ctx.assumptions = [
        "reference codec = vf.refmodel, agreeing with pydsdl.deserialize on every case (disagreement = harness error)",
        "a delimiter header / length prefix read past the end of the data is zero (implicit zero extension), as in pydsdl",
        "Python reports errors as None without a kind: only success/failure is compared there",
    ]
    spec = dict(SPEC)
    if not ctx.quick:
        spec.update(n_byte_batches=6, n_c=4, n_cpp=5)
    campaign.run_property(ctx, spec, 12 if ctx.quick else 120, codec_eval.eval_c02)
    for cls in ("bytes.b", "bytes.c", "bytes.d", "bytes.e", "bytes.f", "bytes.g.length", "bytes.g.tag", "bytes.g.delimiter", "expect.BAD_DELIMITER_HEADER", "expect.BAD_ARRAY_LENGTH", "expect.BAD_UNION_TAG"):
        ctx.require(cls, 10)


def replay(ctx: core.Ctx, case):
    return campaign.replay_property(ctx, case, codec_eval.eval_c02)
