"""
C03 -- round trip, cross-target and cross-option agreement of generated codecs.  The verdict uses NO reference codec.

Phase 1 (cross): every value is serialized and every byte string deserialized by all drawn (target, option set) pairs;
        outcomes (bytes / decoded value / error) must be identical across C, C++ and Python and across the option sets
        (endianness path, assertions, C++ standard + allocator flavour, container type).  NaN payloads and floats that the
        wire format cannot represent exactly are compared within one language family only (the specification fixes neither).
Phase 2 (round trip, per target): bytes produced by a target are fed back into the same target:
        des(ser(v)) == adj(v)  (adj = per-primitive cast adjustment only; identity for in-range values) and
        ser(des(ser(v))) == ser(v).
An assertion (option enable_serialization_asserts) firing on any of these inputs is a violation.
"""
from __future__ import annotations

import typing

from .. import campaign, codec_eval, core, lab, refmodel, valuegen

SPEC = {"n_values": 10, "n_byte_batches": 1, "n_c": 3, "n_cpp": 3, "py": True, "max_types": 5, "domains": ["range", "range", "storage", "pyarr"]}


def roundtrip(ctx: core.Ctx, ex: campaign.Executed, collect_fail):
    job, L = ex.job, ex.lab
    for key, resp in ex.responses.items():
        lang = key.split("|")[0]
        # phase 2a: decode own bytes
        idx, cmds = [], []
        for ci, case in enumerate(job["cases"]):
            r = resp[ci]
            if case["op"] != "S" or r is None or "line" not in r or not r["line"].startswith("S 0 "):
                continue
            s = lab.parse_S(r["line"])
            if s.get("oversize"):
                continue
            idx.append((ci, s["bytes"]))
            cmds.append(f"D {case['ti']} F - {s['bytes'].hex() or '-'}")
        if not cmds:
            continue
        res = L.run(key, cmds)
        again_idx, again_cmds = [], []
        for (ci, b), r in zip(idx, res):
            case = job["cases"][ci]
            ct = L.ctypes[case["ti"]]
            v, _ = valuegen.from_words(ct, valuegen.hex_words(case["words"]))
            nontrivial = case["dom"] != "range" or codec_eval.type_is_interesting(ct)
            ctx.case(("c03rt", str(ct), case["words"], key), nontrivial, sample={"type": str(ct), "target": key, "value": codec_eval._short(v, 100), "own_bytes": b.hex()[:48]}, classes=["rt." + lang, "rt.dom." + case["dom"]])
            if "line" not in r:
                collect_fail(f"C03|roundtrip|{lang}|crash-decoding-own-output", f"type {ct} value {codec_eval._short(v)}: {r}", ex, ci, [key])
                continue
            if codec_eval.numpy2_incompat(r["line"]):
                continue
            if not r["line"].startswith("D 0 "):
                collect_fail(f"C03|roundtrip|{lang}|own-output-rejected", f"type {ct} value {codec_eval._short(v)} bytes {b.hex()[:80]}: {r['line'][:100]}", ex, ci, [key])
                continue
            d = lab.parse_D(r["line"])
            got = codec_eval.decode_words(ct, d["words"])
            if got is None:
                collect_fail(f"C03|roundtrip|{lang}|count-exceeds-storage", f"type {ct}", ex, ci, [key])
                continue
            inexact = refmodel.has_inexact_float(ct, v)
            ok = refmodel.values_faithful(ct, v, got) if inexact else refmodel.values_equal(ct, got, refmodel.adjust(ct, v))
            if not ok:
                collect_fail(f"C03|roundtrip|{lang}|des(ser(v))!=adj(v)", f"type {ct} value {codec_eval._short(v)} -> bytes {b.hex()[:80]} -> {codec_eval._short(got)}", ex, ci, [key])
                continue
            if lang != "cpp" or not _has_tagless(got):
                again_idx.append((ci, b))
                again_cmds.append(f"S {case['ti']} {case['prefill']} {case['buf']} {d['words']}")
        # phase 2b: serialize the decoded value again
        if again_cmds:
            res2 = L.run(key, again_cmds)
            for (ci, b), r in zip(again_idx, res2):
                case = job["cases"][ci]
                ct = L.ctypes[case["ti"]]
                if "line" not in r or not r["line"].startswith("S 0 "):
                    if "line" in r and codec_eval.numpy2_incompat(r["line"]):
                        continue
                    collect_fail(f"C03|roundtrip|{lang}|reserialize-fails", f"type {ct}: {str(r)[:160]}", ex, ci, [key])
                    continue
                b2 = lab.parse_S(r["line"])["bytes"]
                if b2 != b:
                    collect_fail(f"C03|roundtrip|{lang}|ser(des(ser(v)))!=ser(v)", f"type {ct}: first {b.hex()[:80]} second {b2.hex()[:80]}", ex, ci, [key])


def _has_tagless(v) -> bool:
    return False


def evaluator(ctx: core.Ctx, ex: campaign.Executed, collect_fail):
    codec_eval.eval_c03_cross(ctx, ex, collect_fail)
    roundtrip(ctx, ex, collect_fail)


def run(ctx: core.Ctx):
    ctx.rule = (
        "cross case = (type, value or byte string) executed by >=2 targets; round-trip case = (type, value, target); non-trivial "
        "cross case = compared across >=2 languages and >=2 option sets of one language with a non-zero agreed outcome; "
        "non-trivial round trip = out-of-range value or a type with unaligned / nested / array / union members; distinct by "
        "hash(type, input, set of targets)"
    )
    ctx.assumptions = [
        "no reference codec: verdicts are pairwise equality and des(ser(v)) == per-primitive cast adjustment of v",
        "NaN payloads and inexactly representable floats are compared within one language family (C/C++ vs Python)",
        "little-endian host: target_endianness big/any select the portable code path",
    ]
    spec = dict(SPEC)
    if not ctx.quick:
        spec.update(n_values=30, n_byte_batches=3, n_c=5, n_cpp=7)
    campaign.run_property(ctx, spec, 10 if ctx.quick else 100, evaluator)
    ctx.extra["note"] = "option coverage in option_values / option_value_pairs_covered"
    for cls in ("rt.c", "rt.cpp", "rt.py", "x.op.S", "x.op.D"):
        ctx.require(cls, 30)


def replay(ctx: core.Ctx, case):
    return campaign.replay_property(ctx, case, evaluator)
