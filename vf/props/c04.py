"""
C04 -- generated C/C++ codecs are memory-safe, total, and free of prior-state influence.

Everything runs in clang ASan+UBSan(+bounds)+LSan builds with exact-size heap buffers and heap objects:
  * every byte-string class of C02 incl. all sizes from 0, serialization of objects with counts/tags out of range;
  * the same bytes decoded into destinations with different prior state: fresh, zeroed, 0xA5-poisoned (C), pre-loaded with
    another value (vectors filled, another union option active), and a running history on ONE kept object per type
    (5 decodes per group, interleaving different and truncated inputs);
  * C builds with enable_override_variable_array_capacity and generator-drawn reduced -D..._ARRAY_CAPACITY_=k.
Oracle: no sanitizer report / leak / assertion; documented return codes; decode outcome identical for all prior states;
        reduced-capacity objects never claim more elements than they can store.
"""
from __future__ import annotations

from .. import campaign, codec_eval, core

SPEC = {
    "n_values": 6,
    "domains": ["invalid", "invalid", "storage", "range"],
    "n_byte_batches": 1,
    "prior_states": 2,
    "n_small_buf": 4,
    "cap_override": True,
    "n_c": 3,
    "n_cpp": 3,
    "py": False,
    "max_types": 5,
}


def overrides(job, L, key):
    if key.startswith("c|") and key.endswith("|1"):
        return job.get("cap_overrides") or None
    return None


def run(ctx: core.Ctx):
    ctx.rule = (
        "case = (type, operation, input bytes or source object, prior state of the destination, target+option set, sanitizer "
        "build); non-trivial = decode into a non-fresh destination of a type with a variable-length array or union, or input "
        "shorter than the type's minimum size, or a source object with invalid count/tag, or a reduced-capacity build; "
        "distinct by hash of all of these"
    )
    ctx.assumptions = [
        "clang 14 ASan/UBSan/LSan are the memory-safety oracle; intra-object overflow is only visible through -fsanitize=bounds and the count<=capacity check",
        "C++ objects cannot be byte-poisoned: their prior states are 'pre-loaded with another value' and 'kept from earlier decodes'",
    ]
    spec = dict(SPEC)
    if not ctx.quick:
        spec.update(n_values=12, prior_states=4, n_byte_batches=3, n_c=5, n_cpp=6)
    campaign.run_property(ctx, spec, 10 if ctx.quick else 100, codec_eval.eval_c04, cap_overrides_fn=overrides)
    for cls in ("mode.K", "mode.V", "mode.P", "dom.invalid", "reduced_capacity_build"):
        ctx.require(cls, 20)


def replay(ctx: core.Ctx, case):
    return campaign.replay_property(ctx, case, codec_eval.eval_c04, cap_overrides_fn=overrides)
