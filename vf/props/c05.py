"""
C05 -- exported size bounds and type metadata are correct for every type.

Metadata is read by compiling and RUNNING a probe (macros and constexpr are evaluated by the compiler; Python class attributes
are read after import) and compared with the PyDSDL model.  Behavioural part (ASan build, exact-size heap buffers): a buffer of
exactly the advertised size always suffices, size <= advertised <= extent, and every size below ceil(max bits / 8) is refused
with the buffer-too-small error.
"""
from __future__ import annotations

import fractions
import math
import typing

import pydsdl

from .. import campaign, codec_eval, core, lab, refmodel, valuegen
from ..refmodel import inner

SPEC = {
    "n_values": 8,
    "domains": ["range", "storage"],
    "buf_extra": [0],
    "n_small_buf": 14,
    "meta": True,
    "n_c": 2,
    "n_cpp": 2,
    "py": True,
    "max_types": 6,
    "gen_opts": {"max_consts": 4},
}

MANT = {16: 10, 32: 23, 64: 52}
EMIN = {16: -14, 32: -126, 64: -1022}


def ulp(bits: int, x: fractions.Fraction) -> fractions.Fraction:
    if x == 0:
        return fractions.Fraction(0)
    e = math.floor(math.log2(abs(x))) if abs(x) < 2 ** 1000 and abs(x) > fractions.Fraction(1, 2 ** 1070) else (1023 if abs(x) >= 1 else -1074)
    # exact floor(log2) correction for the float approximation
    while fractions.Fraction(2) ** e > abs(x):
        e -= 1
    while fractions.Fraction(2) ** (e + 1) <= abs(x):
        e += 1
    e = max(e, EMIN[bits])
    return fractions.Fraction(2) ** (e - MANT[bits])


def parse_M(line: str) -> typing.Dict[str, str]:
    return dict(tok.split("=", 1) for tok in line.split()[1:] if "=" in tok)


def const_from(tok: str):
    kind, val = tok.split(":", 1)
    if kind == "f":
        if val in ("inf", "-inf", "nan", "-nan"):
            return kind, float(val.replace("-nan", "nan"))
        return kind, fractions.Fraction(float.fromhex(val))
    return kind, int(val)


def evaluator(ctx: core.Ctx, ex: campaign.Executed, collect_fail):
    job, L = ex.job, ex.lab
    for ci, case in enumerate(job["cases"]):
        ct = L.ctypes[case["ti"]]
        t = inner(ct)
        maxb = (t.bit_length_set.max + 7) // 8
        ext = ct.extent // 8
        for key, resp in ex.responses.items():
            r = resp[ci]
            if r is None:
                continue
            lang = key.split("|")[0]
            probs: typing.List[typing.Tuple[str, str]] = []
            if "crash" in r:
                probs.append(("crash" + codec_eval._san_kind(r["crash"]), r["crash"][:200]))
            elif r["line"].startswith("H "):
                raise core.HarnessError(r["line"])
            elif r["line"].startswith("A "):
                probs.append(("assertion-fired", r["line"][:100]))
            elif case["op"] == "M":
                if r["line"].startswith("E "):
                    probs.append((codec_eval.exc_kind(r["line"]), r["line"][:160]))
                else:
                    svc = {x.fixed_port_id for x in L.top if isinstance(x, pydsdl.ServiceType) and x.has_fixed_port_id and inner(ct).full_name.rsplit('.', 1)[0] == x.full_name and inner(ct).version == x.version}
                    from ..emit_c import service_of

                    probs += check_meta(ct, lang, parse_M(r["line"]), svc, service_of(ct, L.top) if inner(ct).has_parent_service else None)
                nontrivial = bool(t.constants) or not isinstance(ct, pydsdl.StructureType) or ct.has_parent_service
                ctx.case(("c05m", str(ct), key), nontrivial, sample={"type": str(ct), "target": key, "probe": r.get("line", "")[:160]}, classes=["meta." + lang] + [f"const.{type(c.data_type).__name__}" for c in t.constants[:3]])
            elif case["op"] == "S":
                if codec_eval.numpy2_incompat(r["line"]):
                    continue
                if r["line"].startswith("E "):
                    probs.append((codec_eval.exc_kind(r["line"]), r["line"][:160]))
                else:
                    s = lab.parse_S(r["line"])
                    buf = case["buf"]
                    if lang == "py":
                        if s["rc"] == 0 and s["size"] > maxb:
                            probs.append(("serialized-size-exceeds-advertised", f"{s['size']} > {maxb}"))
                    elif buf < maxb:
                        if s["rc"] != -3:
                            probs.append(("undersized-buffer-not-refused", f"buffer {buf} < max {maxb}: rc={s['rc']}"))
                    else:
                        if s.get("oversize") or (s["rc"] == 0 and s["size"] > maxb):
                            probs.append(("serialized-size-exceeds-advertised", f"{s.get('size')} > {maxb}"))
                        elif s["rc"] != 0:
                            probs.append(("advertised-buffer-size-insufficient", f"buffer {buf} >= max {maxb}: rc={s['rc']}"))
                    near = abs(case["buf"] - maxb) <= 1
                    ctx.case(("c05s", str(ct), key, case["words"], case["buf"]), near or bool(case.get("small")), sample={"type": str(ct), "target": key, "buffer": case["buf"], "max": maxb, "resp": r["line"][:40]}, classes=["buf." + ("below" if case["buf"] < maxb else "exact" if case["buf"] == maxb else "above"), "ser." + lang])
            for kind, detail in probs:
                collect_fail(f"C05|{lang}|{kind}", f"type {ct} target {key} case {codec_eval._short(case, 120)}: {detail}", ex, ci, [key])


def check_meta(ct, lang: str, m: typing.Dict[str, str], service_port_ids=None, service=None) -> typing.List[typing.Tuple[str, str]]:
    t = inner(ct)
    if m.get("fixed_port_id") == "none":  # the probe says so explicitly when the type exports no port-ID
        m = {k: v for k, v in m.items() if k != "fixed_port_id"}
        if t.has_fixed_port_id and not t.has_parent_service:
            return [("fixed-port-id", f"no fixed port-ID exported, the DSDL definition gives {t.fixed_port_id}")]
    if m.get("svc.fixed_port_id") == "none":
        m = {k: v for k, v in m.items() if k != "svc.fixed_port_id"}
    out: typing.List[typing.Tuple[str, str]] = []
    maxb = (t.bit_length_set.max + 7) // 8
    ext = ct.extent // 8

    def expect(key: str, val, kind: str):
        if key in m and str(m[key]) != str(val):
            out.append((kind, f"{key}={m[key]} but the DSDL definition gives {val}"))
        elif key not in m:
            raise core.HarnessError(f"probe did not print {key}: {m}")

    expect("extent", ext, "extent")
    if lang in ("c", "cpp"):
        expect("bufsize", maxb, "serialization-buffer-size")
        if int(m["bufsize"]) > int(m["extent"]):
            out.append(("buffer-size-exceeds-extent", f"{m['bufsize']} > {m['extent']}"))
    if lang in ("c", "cpp") and isinstance(t, pydsdl.UnionType):
        # C: <T>_UNION_OPTION_COUNT_; C++: VariantType::MAX_INDEX of both variant flavours
        expect("union_option_count", len(t.fields), "union-option-count")
    if lang == "c":
        expect("full_name", t.full_name, "full-name")
        expect("full_name_and_version", f"{t.full_name}.{t.version.major}.{t.version.minor}", "full-name-and-version")
        for f in t.fields_except_padding:
            if isinstance(f.data_type, pydsdl.ArrayType):
                expect(f"cap.{f.name}", f.data_type.capacity, "array-capacity")
                expect(f"varlen.{f.name}", int(isinstance(f.data_type, pydsdl.VariableLengthArrayType)), "array-is-variable-length")
    if not t.has_parent_service:
        if lang in ("c", "cpp"):
            expect("has_fixed_port_id", int(t.has_fixed_port_id), "has-fixed-port-id")
        if t.has_fixed_port_id:
            expect("fixed_port_id", t.fixed_port_id, "fixed-port-id")
        elif "fixed_port_id" in m:
            out.append(("fixed-port-id", f"exported {m['fixed_port_id']} for a type without fixed port-ID"))
    else:
        # request / response types have no port-ID of their own in the DSDL model; the SERVICE's ID must be exported somewhere
        # for the service (C: service-level macros; C++: only the request/response traits; Python: service class, repeated
        # by the nested classes) and every place that exports one must export the service's
        svc = service
        if svc is None:
            raise core.HarnessError(f"no service found for {t}")
        exported = [m[k] for k in ("fixed_port_id", "svc.fixed_port_id") if k in m and m[k] != "none"]
        if "svc.has_fixed_port_id" in m and str(m["svc.has_fixed_port_id"]) != str(int(svc.has_fixed_port_id)):
            out.append(("has-fixed-port-id", f"service-level has_fixed_port_id={m['svc.has_fixed_port_id']} but the DSDL definition gives {int(svc.has_fixed_port_id)}"))
        if "svc.full_name_and_version" in m and m["svc.full_name_and_version"] != f"{svc.full_name}.{svc.version.major}.{svc.version.minor}":
            out.append(("full-name-and-version", f"service-level name {m['svc.full_name_and_version']} but the DSDL definition gives {svc.full_name}.{svc.version.major}.{svc.version.minor}"))
        if svc.has_fixed_port_id:
            if not exported:
                out.append(("fixed-port-id", f"the fixed port-ID {svc.fixed_port_id} of service {svc} is not exported anywhere (service level and request/response level probed: { {k: v for k, v in m.items() if 'port' in k} })"))
            for v in exported:
                if int(v) != svc.fixed_port_id:
                    out.append(("fixed-port-id", f"request/response or service level exports {v}, the service has {svc.fixed_port_id}"))
        elif exported:
            out.append(("fixed-port-id", f"exported {exported} for a service without fixed port-ID"))
    for c in t.constants:
        key = f"const.{c.name}"
        if key not in m:
            raise core.HarnessError(f"probe did not print {key}")
        kind, got = const_from(m[key])
        dt = c.data_type
        if isinstance(dt, pydsdl.FloatType):
            exact = fractions.Fraction(c.value.native_value)
            if isinstance(got, float):  # inf / nan printed
                out.append((f"constant-float{dt.bit_length}", f"{c.name} = {got} but the definition says {float(exact)!r}"))
            elif abs(got - exact) > ulp(dt.bit_length, exact):
                out.append((f"constant-float{dt.bit_length}" + ("-tiny" if abs(exact) < fractions.Fraction(1, 2 ** 1000) else ""), f"{c.name} exported as {float(got)!r}, definition {c.value} = {float(exact)!r} (more than 1 ulp of float{dt.bit_length} away)"))
        else:
            exp = int(c.value.native_value) if not isinstance(dt, pydsdl.BooleanType) else int(bool(c.value.native_value))
            if got != exp:
                out.append((f"constant-{type(dt).__name__}", f"{c.name} exported as {got}, definition says {exp}"))
    return out


def run(ctx: core.Ctx):
    ctx.rule = (
        "metadata case = (type, target) probe compared with the PyDSDL model; behaviour case = (type, value, buffer size, target); "
        "non-trivial = type with constants / union / delimited / service member, or buffer size within +-1 of the bound or below it; "
        "distinct by hash(type, target, value, buffer size)"
    )
    ctx.assumptions = [
        "PyDSDL is the front end: extent, bit-length sets, constant values and port ids are taken from its model",
        "float constants: |exported - exact rational| <= 1 ulp of the declared type, exported value read with %a / float.hex()",
        "Python allocates its own output buffer: only size <= advertised bound is checked there",
    ]
    spec = dict(SPEC)
    if not ctx.quick:
        spec.update(n_values=20, n_c=3, n_cpp=4)
    campaign.run_property(ctx, spec, 14 if ctx.quick else 140, evaluator)
    for cls in ("buf.below", "buf.exact", "meta.c", "meta.cpp", "meta.py", "const.FloatType"):
        ctx.require(cls, 10)


def replay(ctx: core.Ctx, case):
    return campaign.replay_property(ctx, case, evaluator)
