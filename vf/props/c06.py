"""
C06 -- every valid DSDL input yields generated code that builds cleanly on its own.

Domain : DSDL universes x target {c, cpp, py} x {serialization on, --omit-serialization-support}
         x C {compiled as C11 TU, included in a C++14 TU} / C++ {c++14, c++17, c++20, c++17-pmr} (cetl++14-17: generate + closure
         scan only).  Universes:
           * random (Hypothesis, dsdlgen profile adversarial_nomacro): reserved-name pools at high weight in every position,
             services, deprecated, multi-version, empty (12 %) and maximally wide (12 %) bodies, doc comments, 1..3 root
             namespaces with cross-root references (dependent roots generated with --lookup-dir);
           * seed-independent exhaustive sub-domains so that the signature set does not depend on the seed:
             extremes (every constant kind at its type extremes), macros (every stdlib-macro name, a class of its own),
             pool (every pool name as field of a structure and of a union, as constant, as nested namespace), rootnames (pool
             names as ROOT namespaces, C++ only), shapes (empty / padding-only / constants-only types, empty services, deprecated,
             versions 0.1 and 255.255, wide arrays, hostile doc comments, reserved namespaces referenced across roots),
             root-named-numpy / root-named-pydsdl.
Oracle : (1) nnvg exits 0 for every involved root namespace;
         (2) for EACH generated header a one-line TU `#include "<hdr>"` passes gcc/g++ -fsyntax-only with the project's own
             flag set (parsed from verification/cmake/compiler_flag_sets/common.cmake of the tree under test), include path =
             only the output trees; any diagnostic is a failure;
         (3) each generated Python module compile()s and imports in a fresh interpreter state (fork of a `python -I -S` that
             has loaded only numpy and pydsdl; sys.path = stdlib + output dirs + a directory holding only numpy and pydsdl);
         (4) include / import closure: textual scan -- every #include / import-time import resolves inside the union of the
             output trees (or is a system header / stdlib, numpy, pydsdl module).
Signatures are root-cause oriented: every diagnostic up to the first hard error (warnings promoted by -Werror do not cascade,
hard errors do) is mapped to a named cause, falling back to <target>|<ser/omit>|diag|<normalised message>.  A cause that can
be switched off from the outside (missing include -> -include, undefined support macro -> -D) is neutralised and the header is
compiled again, so the campaign continues behind shallow defects that break a whole configuration (look-behind passes).
Name-related causes are deliberately coarse (per target and name class; the identifier goes into the description).
"""
from __future__ import annotations

import ast
import builtins
import concurrent.futures as cf
import json
import keyword
import os
import pathlib
import re
import shutil
import subprocess
import sys
import tempfile
import threading
import typing

from .. import core, dsdlgen, tool

JOBS = int(os.environ.get("VF_JOBS", "16"))
PY = tool.PY

# ---------------------------------------------------------------------------------------------------------------------
# configurations
# ---------------------------------------------------------------------------------------------------------------------
CPP_STDS = ["c++14", "c++17", "c++20", "c++17-pmr"]
GEN_ONLY_STDS: typing.List[str] = []
# submodules/CETL is empty in this sandbox.  The flavour is compiled against a stand-in (harness/standin/cetl/...) that
# provides what the options of the shorthand name: a vector-like container constructed from (max size, allocator) and an
# allocator template that is not default constructible.  Only diagnostics located in generated files count.
STANDIN_STDS = ["cetl++14-17"]
STANDIN_DIR = str(core.VERIF / "harness" / "standin")


def all_configs() -> typing.List[dict]:
    out = []
    for omit in (False, True):
        out.append({"target": "c", "std": "c11", "omit": omit})
        for s in CPP_STDS + STANDIN_STDS + GEN_ONLY_STDS:
            out.append({"target": "cpp", "std": s, "omit": omit})
        out.append({"target": "py", "std": "py", "omit": omit})
    return out


def cfgkey(cfg: dict) -> str:
    return f"{cfg['target']}|{cfg['std']}|{'omit' if cfg['omit'] else 'ser'}"


def compile_modes(cfg: dict) -> typing.List[dict]:
    """How the headers of one generated configuration are compiled."""
    if cfg["target"] == "c":
        return [{"mode": "as-c11", "cc": "gcc", "x": "c", "stdflag": "c11"}, {"mode": "in-c++14-tu", "cc": "g++", "x": "c++", "stdflag": "c++14"}]
    if cfg["target"] == "cpp" and cfg["std"] in CPP_STDS:
        return [{"mode": "as-" + cfg["std"], "cc": "g++", "x": "c++", "stdflag": "c++17" if cfg["std"] == "c++17-pmr" else cfg["std"]}]
    if cfg["target"] == "cpp" and cfg["std"] in STANDIN_STDS:
        return [{"mode": "as-c++14-with-cetl-stand-in", "cc": "g++", "x": "c++", "stdflag": "c++14", "isystem": [STANDIN_DIR]}]
    return []


# ---------------------------------------------------------------------------------------------------------------------
# the project's own warning set and the compilers' system include directories
# ---------------------------------------------------------------------------------------------------------------------
_FLAGS: typing.Optional[typing.Tuple[typing.List[str], typing.List[str]]] = None


def project_flags() -> typing.Tuple[typing.List[str], typing.List[str]]:
    """(C flags, C++ flags): the diagnostic options of common.cmake of the tree under test (no codegen/debug options)."""
    global _FLAGS
    if _FLAGS is None:
        p = core.REPO / "verification" / "cmake" / "compiler_flag_sets" / "common.cmake"
        if not p.exists():
            raise core.HarnessError(f"project flag file not found: {p}")
        text = re.sub(r"#[^\n]*", "", p.read_text())
        sets: typing.Dict[str, typing.List[str]] = {"C_FLAG_SET": [], "CXX_FLAG_SET": []}
        for m in re.finditer(r"list\s*\(\s*APPEND\s+(C_FLAG_SET|CXX_FLAG_SET)\b([^)]*)\)", text):
            for q in re.findall(r'"([^"]+)"', m.group(2)):
                if (q.startswith("-W") or q == "-pedantic") and q not in sets[m.group(1)]:
                    sets[m.group(1)].append(q)
        gnu = re.findall(r"\$<\$<C_COMPILER_ID:GNU>:(-W[^>]+)>", text)
        c = sets["C_FLAG_SET"] + gnu
        cxx = sets["C_FLAG_SET"] + sets["CXX_FLAG_SET"] + gnu
        for need in ("-pedantic", "-Wall", "-Wextra", "-Werror", "-Wconversion", "-Wfloat-equal", "-Wdouble-promotion"):
            if need not in c:
                raise core.HarnessError(f"flag {need} not found in {p} (parsed C set: {c})")
        for need in ("-Wsign-conversion", "-Wold-style-cast", "-Wzero-as-null-pointer-constant"):
            if need not in cxx:
                raise core.HarnessError(f"flag {need} not found in {p} (parsed C++ set: {cxx})")
        _FLAGS = (c, cxx)
    return _FLAGS


_SYSDIRS: typing.Dict[str, typing.List[str]] = {}


def system_include_dirs(x: str) -> typing.List[str]:
    if x not in _SYSDIRS:
        p = subprocess.run(["gcc" if x == "c" else "g++", "-x", x, "-E", "-Wp,-v", "/dev/null"], capture_output=True, text=True)
        m = re.search(r"#include <\.\.\.> search starts here:\n(.*?)End of search list", p.stderr, re.S)
        if not m:
            raise core.HarnessError("cannot determine system include directories: " + p.stderr[-300:])
        _SYSDIRS[x] = [l.strip() for l in m.group(1).splitlines() if l.strip()]
    return _SYSDIRS[x]


# ---------------------------------------------------------------------------------------------------------------------
# universe facts: which names need stropping in a target, cross-root references, constants at type extremes
# ---------------------------------------------------------------------------------------------------------------------
_RESERVED: typing.Dict[str, typing.Tuple[typing.Set[str], typing.List["re.Pattern[str]"]]] = {}


def _reserved(target: str):
    """Reserved identifiers and patterns of a target, read from the configuration file (not through nunavut's code)."""
    if target not in _RESERVED:
        if target == "py":
            _RESERVED[target] = (set(keyword.kwlist) | set(keyword.softkwlist) | set(dir(builtins)), [])
        else:
            import yaml

            doc = yaml.safe_load((core.REPO / "src" / "nunavut" / "lang" / "properties.yaml").read_text())
            sec = doc[f"nunavut.lang.{target}"]
            pats = [re.compile(p) for ps in (sec.get("reserved_token_patterns_by_type") or {}).values() for p in ps]
            _RESERVED[target] = (set(str(x) for x in sec.get("reserved_identifiers") or []), pats)
    return _RESERVED[target]


def name_class(name: str) -> str:
    c = dsdlgen.name_class_of(name)
    return "internal" if c == "plain" and name in EXTRA_INTERNAL else c


def needs_stropping(name: str, target: str) -> bool:
    ids, pats = _reserved(target)
    return name in ids or any(p.search(name) for p in pats)


FLOAT_EXTREMES = {
    "65504.0", "-65504.0", "6.0e-8", "340282346638528859811704183484516925440.0", "-340282346638528859811704183484516925440.0",
    "1e-45", "1.7976931348623157e308", "-1.7976931348623157e308", "5e-324", "1e-320", "2.2250738585072014e-308",
}  # fmt: skip


def bodies_of(td: dict) -> typing.List[dict]:
    return [td["body"]] if td["kind"] != "service" else [td["body"]["request"], td["body"]["response"]]


def const_is_extreme(a: dict) -> bool:
    t = a["type"]
    if t["t"] == "uint":
        return t["bits"] > 1 and a["value"] == str((1 << t["bits"]) - 1)
    if t["t"] == "int":
        return a["value"] in (str((1 << (t["bits"] - 1)) - 1), str(-(1 << (t["bits"] - 1))))
    if t["t"] == "float":
        return a["value"] in FLOAT_EXTREMES
    return False


def universe_names(u: dict) -> typing.List[typing.Tuple[str, str]]:
    """(position, name) of every identifier of the universe; position in {ns, type, field, const}."""
    out = []
    for r in u["roots"]:
        for td in r["types"]:
            for n in td["ns"]:
                out.append(("ns", n))
            out.append(("type", td["name"]))
            for b in bodies_of(td):
                for a in b["attrs"]:
                    if a["k"] == "field":
                        out.append(("field", a["name"]))
                    elif a["k"] == "const":
                        out.append(("const", a["name"]))
    return out


def universe_facts(u: dict) -> dict:
    names = universe_names(u)
    roots = [r["name"] for r in u["roots"]]
    cross = False
    n_types = 0
    extreme = empty = wide = False
    for r in u["roots"]:
        for td in r["types"]:
            n_types += 1
            for full in dsdlgen._refs_in(td["body"]):
                if full.split(".")[0] != r["name"] and full.split(".")[0] in roots:
                    cross = True
            for b in bodies_of(td):
                fields = [a for a in b["attrs"] if a["k"] == "field"]
                if not fields:
                    empty = True
                for a in b["attrs"]:
                    if a["k"] == "const" and const_is_extreme(a):
                        extreme = True
                    if a["k"] == "field":
                        t = a["type"]
                        if t["t"] in ("farr", "varr") and (t.get("cap", 0) >= 65535 or t.get("n", 0) >= 1000 or (t["elem"].get("bits") == 64 and max(t.get("cap", 0), t.get("n", 0)) >= 255)):
                            wide = True
    classes = sorted({name_class(n) for _, n in names} - {"plain"})
    return {
        "strop": {t: any(needs_stropping(n, t) for _, n in names) for t in ("c", "cpp", "py")},
        "cross_root": cross,
        "extreme_const": extreme,
        "empty_type": empty,
        "wide_type": wide,
        "name_classes": classes,
        "n_types": n_types,
        "features": dsdlgen.features(u),
    }


# ---------------------------------------------------------------------------------------------------------------------
# stage 1: generation for one (universe, configuration)
# ---------------------------------------------------------------------------------------------------------------------
EXT = {"c": ".h", "cpp": ".hpp", "py": ".py"}


def nnvg_argv(cfg: dict, root_dir: str, lookups: typing.List[str], outdir: str) -> typing.List[str]:
    a = ["--target-language", cfg["target"], "--outdir", outdir, "--allow-unregulated-fixed-port-id"]
    if cfg["target"] == "cpp":
        a += ["--experimental-languages"]
    if cfg["target"] in ("c", "cpp"):
        a += ["--language-standard", cfg["std"]]
    if cfg["omit"]:
        a += ["--omit-serialization-support"]
    for l in lookups:
        a += ["--lookup-dir", l]
    return a + [root_dir]


def generate(u: dict, cfg: dict, dsdl_dir: pathlib.Path, out_base: pathlib.Path, layout: str) -> dict:
    """Runs nnvg for every root namespace (dependencies first).  Returns out dirs, commands, failures of oracle (1)."""
    roots = [str(dsdl_dir / r["name"]) for r in u["roots"]]
    outdirs: typing.List[str] = []
    cmds = []
    fails = []
    for j, rd in enumerate(roots):
        od = str(out_base / ("all" if layout == "shared" else f"r{j}"))
        if od not in outdirs:
            outdirs.append(od)
        argv = nnvg_argv(cfg, rd, roots[:j], od)
        rc, so, se = tool.run_sub(argv)
        cmds.append("nnvg " + " ".join(a.replace(str(dsdl_dir.parent), "$W") for a in argv))
        if rc != 0:
            last = [l for l in se.strip().splitlines() if l.strip()][-1:] or ["<no stderr>"]
            fails.append({"cause": "nnvg-fails", "detail": normalise_text(last[0]), "what": f"nnvg exit status {rc} for root namespace {u['roots'][j]['name']!r}: {se.strip()[-600:]}", "file": None})
    files: typing.List[typing.Tuple[str, str]] = []  # (outdir, relative path)
    for od in outdirs:
        for dirpath, dirnames, filenames in os.walk(od):
            dirnames.sort()
            for fn in sorted(filenames):
                files.append((od, os.path.relpath(os.path.join(dirpath, fn), od)))
    return {"outdirs": outdirs, "cmds": cmds, "fails": fails, "files": files}


# ---------------------------------------------------------------------------------------------------------------------
# oracle (4): closure scan
# ---------------------------------------------------------------------------------------------------------------------
_INC = re.compile(r'^[ \t]*#[ \t]*include[ \t]*(["<])([^">\n]+)[">]', re.M)
EXTERNAL_BY_DESIGN = ("cetl/",)  # cetl++14-17 flavour: the documented external CETL library


def closure_scan_c(cfg: dict, gen: dict) -> typing.List[dict]:
    fails = []
    sysdirs = system_include_dirs("c") + system_include_dirs("c++") if cfg["target"] == "c" else system_include_dirs("c++")
    for od, rel in gen["files"]:
        try:
            text = (pathlib.Path(od) / rel).read_text(encoding="utf-8", errors="replace")
        except OSError:
            continue
        for m in _INC.finditer(text):
            kind, inc = m.group(1), m.group(2)
            if any(os.path.exists(os.path.join(d, inc)) for d in gen["outdirs"]):
                continue
            if kind == '"' and os.path.exists(os.path.join(od, os.path.dirname(rel), inc)):
                continue
            if any(os.path.exists(os.path.join(d, inc)) for d in sysdirs):
                continue
            if inc.startswith(EXTERNAL_BY_DESIGN) and cfg["std"] in GEN_ONLY_STDS + STANDIN_STDS:
                continue
            fails.append({"cause": "closure", "detail": include_kind(inc), "file": rel, "what": f"{rel} has `#include {kind}{inc}{'>' if kind == '<' else kind}` but no involved root namespace generates that file and it is not a system header"})
    return fails


def include_kind(inc: str) -> str:
    if "nunavut/support" in inc:
        return "support-header-not-generated"
    if "/" in inc:
        return "dependency-header-not-generated"
    return "unknown-header|" + normalise_text(inc)


def closure_scan_py(cfg: dict, gen: dict) -> typing.List[dict]:
    fails = []
    allowed_top = set(sys.stdlib_module_names) | {"numpy", "pydsdl", "__future__"}

    def resolves(mod: str) -> bool:
        rel = mod.replace(".", "/")
        return any(os.path.exists(os.path.join(d, rel + ".py")) or os.path.exists(os.path.join(d, rel, "__init__.py")) for d in gen["outdirs"])

    for od, rel in gen["files"]:
        if not rel.endswith(".py"):
            continue
        try:
            tree = ast.parse((pathlib.Path(od) / rel).read_text(encoding="utf-8"))
        except (SyntaxError, ValueError):
            continue  # oracle (3) reports it
        pkg = rel[:-3].replace("/", ".").split(".")
        pkg = pkg[:-1]  # containing package (for __init__ this is the package itself)
        for node in import_time_nodes(tree):
            mods = []
            if isinstance(node, ast.Import):
                mods = [a.name for a in node.names]
            elif isinstance(node, ast.ImportFrom):
                if node.level:
                    base = pkg[: len(pkg) - (node.level - 1)] if node.level > 1 else pkg
                    mods = [".".join(base + ([node.module] if node.module else []))]
                else:
                    mods = [node.module or ""]
            for mod in mods:
                top = mod.split(".")[0]
                # a generated top-level package takes precedence over an equally named stdlib module only if it exists
                if resolves(mod):
                    continue
                if top in allowed_top and not resolves(top):
                    continue
                if top in allowed_top:
                    fails.append({"cause": "name|root-namespace-shadows-module-required-by-generated-code", "detail": "", "scope": (), "file": rel,
                                  "what": f"{rel} imports `{mod}`, but the generated package for root namespace {top!r} shadows the module of that name"})  # fmt: skip
                    continue
                what = f"{rel} imports `{mod}` but no involved root namespace generates that module and it is not stdlib/numpy/pydsdl"
                if top == "nunavut_support":
                    fails.append({"cause": "missing-nunavut_support", "detail": "", "scope": ("omit",), "file": rel, "what": what})
                else:
                    fails.append({"cause": "closure", "detail": "generated-module-not-generated" if top in {r.split("/")[0] for _, r in gen["files"]} else "unknown-module|" + top, "file": rel, "what": what})
    return fails


def import_time_nodes(tree: ast.AST):
    """Import statements that execute when the module is imported (module level, class bodies, if/try/with -- not function bodies)."""
    todo = [tree]
    while todo:
        n = todo.pop()
        for ch in ast.iter_child_nodes(n):
            if isinstance(ch, (ast.FunctionDef, ast.AsyncFunctionDef, ast.Lambda)):
                continue
            if isinstance(ch, (ast.Import, ast.ImportFrom)):
                yield ch
            else:
                todo.append(ch)


# ---------------------------------------------------------------------------------------------------------------------
# oracle (2): one-line translation unit per header
# ---------------------------------------------------------------------------------------------------------------------
_EMPTY_CWD = None
_EMPTY_LOCK = threading.Lock()


def empty_cwd() -> str:
    global _EMPTY_CWD
    with _EMPTY_LOCK:
        if _EMPTY_CWD is None or not os.path.isdir(_EMPTY_CWD):
            _EMPTY_CWD = tempfile.mkdtemp(prefix="vf-c06-cwd-")
    return _EMPTY_CWD


def compile_cmd(mode: dict, outdirs: typing.List[str], extra: typing.Sequence[str] = ()) -> typing.List[str]:
    cflags, cxxflags = project_flags()
    sysinc = [a for d in mode.get("isystem", ()) for a in ("-isystem", d)]
    return [mode["cc"], f"-std={mode['stdflag']}", "-fsyntax-only", *(cflags if mode["x"] == "c" else cxxflags), *extra, *[f"-I{d}" for d in outdirs], *sysinc, "-x", mode["x"], "-"]


def run_compiler(mode: dict, outdirs: typing.List[str], hdr: str, extra: typing.Sequence[str] = ()) -> typing.Tuple[int, typing.List[dict], str]:
    cmd = compile_cmd(mode, outdirs, ["-fdiagnostics-format=json", *extra])
    p = subprocess.run(cmd, input=f'#include "{hdr}"\n', capture_output=True, text=True, cwd=empty_cwd(), timeout=600)
    diags: typing.List[dict] = []
    err = p.stderr.strip()
    if err:
        # gcc prints one JSON array per front-end pass (normally one; two when the preprocessor gives up); anything else
        # (cc1 crash, driver message) is not JSON
        dec = json.JSONDecoder()
        pos = 0
        try:
            while pos < len(err):
                if err[pos] in " \r\n\t":
                    pos += 1
                    continue
                arr, pos = dec.raw_decode(err, pos)
                if not isinstance(arr, list):
                    raise ValueError("not a diagnostics array")
                diags += arr
        except ValueError:
            # "compilation terminated." etc. follow the array as plain text after a fatal error
            if not diags:
                diags = [{"kind": "fatal error", "message": "unparsable compiler output: " + err[:300], "locations": [], "children": []}]
    if p.returncode != 0 and not diags:
        diags = [{"kind": "fatal error", "message": f"compiler exit status {p.returncode} without diagnostics", "locations": [], "children": []}]
    return p.returncode, diags, " ".join(compile_cmd(mode, ["$OUT"] if len(outdirs) == 1 else [f"$OUT{i}" for i in range(len(outdirs))], extra)) + f"   <<< #include \"{hdr}\""


def src_line(d: dict, cache: dict) -> typing.Tuple[str, str, str]:
    """(file, source line, token under the caret) of a diagnostic."""
    locs = d.get("locations") or []
    if not locs or "caret" not in locs[0]:
        return "", "", ""
    c = locs[0]["caret"]
    f = c.get("file", "")
    if f not in cache:
        try:
            cache[f] = pathlib.Path(f).read_text(encoding="utf-8", errors="replace").splitlines()
        except OSError:
            cache[f] = []
    lines = cache[f]
    line = lines[c["line"] - 1] if 0 < c.get("line", 0) <= len(lines) else ""
    col = c.get("byte-column", c.get("column", 1)) - 1
    m = re.compile(r"[A-Za-z_][A-Za-z_0-9]*|-?[0-9][0-9A-Za-z_.+-]*").match(line, col) if 0 <= col < len(line) else None
    if m is None and 0 <= col < len(line):
        # caret may sit inside a token: widen to the left
        for mm in re.finditer(r"[A-Za-z_][A-Za-z_0-9]*|[0-9][0-9A-Za-z_.+-]*", line):
            if mm.start() <= col < mm.end():
                m = mm
                break
    return f, line, (m.group(0) if m else "")


def normalise_text(s: str) -> str:
    s = re.sub(r"; did you mean .*$", "", unq(s))
    s = re.sub(r"\b(const|struct|class|volatile) ", "", s)
    s = re.sub(r"(/[\w.+-]+)+/?", "<path>", s)
    s = re.sub(r"[‘’`]", "'", s)
    s = re.sub(r"'[^']*'", "'…'", s)
    s = re.sub(r"\b\d+\b", "N", s)
    return s.strip()[:160]


# ---- cause rules ----------------------------------------------------------------------------------------------------
# A rule maps one compiler diagnostic to (cause, detail, scope).  `scope` lists which configuration axes belong to the root
# cause and therefore to the signature ("target" always does); a defect that is independent of an axis gets ONE signature
# for all values of that axis.
def unq(s: str) -> str:
    return re.sub(r"[‘’`]", "'", s or "")


_C_DECL_HEADER = [
    (re.compile(r"^bool$"), "stdbool.h"),
    (re.compile(r"^u?int(_least|_fast)?\d+_t$|^u?int(max|ptr)_t$"), "stdint.h"),
    (re.compile(r"^(size_t|ptrdiff_t|NULL)$"), "stddef.h"),
    (re.compile(r"^(memset|memcpy|memmove|memcmp|strlen)$"), "string.h"),
    (re.compile(r"^(static_assert|assert)$"), "assert.h"),
]
_CPP_DECL_HEADER = [
    (re.compile(r"^u?int(_least|_fast)?\d+_t$|^u?int(max|ptr)_t$"), "cstdint"),
    (re.compile(r"^(size_t|ptrdiff_t|nullptr_t|max_align_t)$"), "cstddef"),
    (re.compile(r"^(aligned_storage|is_\w+|enable_if\w*|conditional\w*|decay\w*|remove_\w+|add_\w+|integral_constant|true_type|false_type|underlying_type\w*)$"), "type_traits"),
    (re.compile(r"^array$"), "array"),
    (re.compile(r"^bitset$"), "bitset"),
    (re.compile(r"^vector$"), "vector"),
    (re.compile(r"^(variant|get_if|holds_alternative|monostate|in_place_index\w*|in_place_type\w*)$"), "variant"),
    (re.compile(r"^numeric_limits$"), "limits"),
    (re.compile(r"^(allocator|allocator_traits|allocator_arg\w*|uses_allocator\w*|addressof)$"), "memory"),
    (re.compile(r"^pmr$"), "memory_resource"),
    (re.compile(r"^(move|forward|swap|pair|declval)$"), "utility"),
    (re.compile(r"^(memset|memcpy|memmove|memcmp)$"), "cstring"),
]

_C_MACRO_PATTERNS: typing.Optional[typing.List[str]] = None


def macro_family(name: str) -> str:
    """One signature per family of standard macros: the configured C `macro` pattern the name matches, else the name."""
    global _C_MACRO_PATTERNS
    if _C_MACRO_PATTERNS is None:
        import yaml

        doc = yaml.safe_load((core.REPO / "src" / "nunavut" / "lang" / "properties.yaml").read_text())
        _C_MACRO_PATTERNS = list((doc["nunavut.lang.c"].get("reserved_token_patterns_by_type") or {}).get("macro") or [])
    for p in _C_MACRO_PATTERNS:
        if re.search(p, name):
            return p
    return name


_IDENT = re.compile(r"[A-Za-z_][A-Za-z_0-9]*")


def culprit_name(msg: str, line: str, tok: str, names) -> typing.Optional[str]:
    """
    The identifier of the universe (non-plain name class) that the diagnostic is about, if any: it must occur verbatim as a
    token of the offending generated line AND be the token under the caret or be quoted by the message.
    """
    np_ = names["nonplain"]
    in_line = set(_IDENT.findall(line))
    if tok in np_ and tok in in_line:
        return tok
    for quoted in re.findall(r"'([^']*)'", msg):
        for t in _IDENT.findall(quoted):
            if t in np_ and t in in_line:
                return t
    return None


def classify_cc(d: dict, cfg: dict, mode: dict, names: dict, cache: dict, outdirs: typing.Sequence[str] = (), macros: typing.Optional[typing.Callable[[], typing.Set[str]]] = None) -> dict:
    """
    Maps one compiler diagnostic to a root cause: {"cause", "detail", "scope"[, "neutralise"]}.  `scope` lists the configuration
    axes that belong to the root cause (and so to the signature) besides the target.
    """
    msg = unq(d.get("message", ""))
    opt = d.get("option", "")
    f, line, tok = src_line(d, cache)
    target = cfg["target"]
    for od in outdirs:
        if f.startswith(od + "/"):
            names = local_names(names, os.path.relpath(f, od))
            break
    m = re.search(r"^(\S+): No such file or directory", msg)
    if m:
        return {"cause": "closure", "detail": include_kind(m.group(1)), "scope": ("omit",)}
    if "NUNAVUT_SUPPORT_LANGUAGE_OPTION_" in line and "static_assert" in line and cfg["omit"] and re.search(r"expected '\)' before '=='|not declared|undeclared", msg):
        # look-behind: give the macros that nothing defines in this mode exactly the values the header expects
        defs = sorted(set(re.findall(r"static_assert\(\s*(NUNAVUT_SUPPORT_LANGUAGE_OPTION_\w+)\s*==\s*([\w.+-]+)\s*,", "\n".join(l for ls in cache.values() for l in ls))))
        return {"cause": "static_assert-on-undefined-support-macro", "detail": "", "scope": ("omit",), "neutralise": [(f"-D{k}={v}",) for k, v in defs]}
    if target == "c" and mode["x"] == "c" and re.match(r"\s*static_assert\s*\(", line) and re.search(r"^expected (declaration specifiers|'\)'|identifier)", msg):
        return {"cause": "missing-include", "detail": "<assert.h>", "scope": ("omit",), "neutralise": [("-include", "assert.h")]}
    if opt.endswith("=trigraphs") and "??/" in msg:
        return {"cause": "doc-comment", "detail": "trailing-backslash", "scope": ()}  # ??/ is the trigraph spelling of a backslash
    if "integer constant is so large that it is unsigned" in msg or "integer constant is too large" in msg:
        return {"cause": "literal", "detail": "int64-min" if "9223372036854775808" in line else "integer-too-large", "scope": ()}
    if "floating constant" in msg:
        # rationals are rendered as <numerator>.0 / <denominator>.0: a tiny value has a denominator beyond the double range
        tiny = re.search(r"/\s*\d{300,}", line) is not None
        kind = "exceeds-range" if "exceeds range" in msg else "truncated-to-zero" if "truncated to zero" in msg else "other"
        return {"cause": "literal", "detail": "tiny-float64-overflow" if tiny and kind == "exceeds-range" else "float-constant-" + kind, "scope": ()}
    if opt.endswith("deprecated-declarations") and "reaching the end of its life" in msg:
        return {"cause": "deprecated-attribute-fires-inside-generated-code", "detail": "", "scope": ()}
    if opt.endswith("=unused-parameter") and re.search(r"unused parameter '(obj|out_obj)'", msg) and re.search(r"\b(de)?serialize\(", line):
        return {"cause": "unused-parameter-obj-in-codec-of-type-without-fields", "detail": "", "scope": ()}
    if opt.endswith("=comment"):
        return {"cause": "doc-comment", "detail": "trailing-backslash" if "multi-line comment" in msg else normalise_text(msg), "scope": ()}
    m = re.search(r"has no member named '(\w+)'", msg)
    if m:
        # declaration and use of a member disagree: a reserved name decorated before stropping in one place, after it in another
        if m.group(1).endswith("_bitpacked_") and re.search(r"[\w>.]_bitpacked_\[", line):
            return {"cause": "name|member-declared-and-used-under-different-stropped-names", "detail": "_<name>_bitpacked_", "scope": (), "note": f"member {m.group(1)!r}"}
        for n in sorted(names["nonplain"], key=len, reverse=True):
            if len(n) > 1 and n in m.group(1) and m.group(1) != n:
                return {"cause": "name|member-declared-and-used-under-different-stropped-names", "detail": m.group(1).replace(n, "<name>", 1), "scope": ()}
    if target == "cpp" and cfg["std"] in STANDIN_STDS and f.startswith(STANDIN_DIR):
        # located inside the stand-in: cannot be told apart from a gap of the stand-in -> counted, never reported
        return {"cause": "standin-inconclusive", "detail": "", "scope": ("std",)}
    if target == "cpp" and cfg["std"] in STANDIN_STDS:
        # allocator_is_default_constructible: false -- composite types get no default constructor, and the container of the
        # flavour has none either; generated code that value-initialises such a member cannot compile.  Decided from the
        # generated code alone (the stand-in only has to lack a default constructor, which is what the option states).
        nodef = re.search(r"no matching function for call to '[\w:<>, ]+::(\w+)\(\)'|use of deleted function 'std::array<[^']*>::array\(\)'", msg)
        if nodef and (re.search(r"\bnew\s*\(", line) or "do_emplace" in line or re.search(r"\bset_\w+\(\)", line)):
            # the union's emplace<I>() without arguments: from deserialize() (obj.set_x()) and from the union's own default
            # initialisation of its first option
            return {"cause": "allocator-not-default-constructible", "detail": "union-option-default-constructed", "scope": ("std",)}
        if (nodef or "could not convert '<brace-enclosed initializer list>()'" in msg) and re.search(r"^\s*\w+\{\},?\s*$", line):
            return {"cause": "allocator-not-default-constructible", "detail": "fixed-array-of-composites-value-initialised", "scope": ("std",)}
    if target == "cpp" and "no matching function for call to 'operator new(" in msg:
        return {"cause": "missing-include", "detail": "<new>", "scope": ("omit",), "neutralise": [("-include", "new")]}
    m = re.search(r"'(\w+)' in namespace '([\w:]+)' does not name a type|'(\w+)' is not a member of '([\w:]+)'", msg)
    if target == "cpp" and m and not (m.group(2) or m.group(4)).startswith("std"):
        inner = (m.group(2) or m.group(4)).split("::")
        member = m.group(1) or m.group(3)
        if len(inner) >= 2 and re.search(r"(?<![:\w])" + re.escape(inner[-1]) + r"::(\w+::)*" + re.escape(member) + r"\b", line):
            # a reference `a::T` emitted inside namespace `x::a` finds `x::a`, not the root namespace `a` it means
            return {"cause": "type-reference-not-anchored-at-global-namespace", "detail": "", "scope": ()}
    if target == "cpp" and re.search(r"'size_t' (does not name a type|has not been declared)", msg) and re.search(r"\bsize_t index\(\) const|template<size_t I\b", line):
        return {"cause": "unqualified-size_t", "detail": "", "scope": (), "neutralise": [("-include", "cstddef")]}
    # an identifier of the universe at the error location.  The signatures are deliberately coarse (one per target and kind of
    # name, the identifier itself goes into the description): which identifier of a family a run happens to draw, and in
    # which position, must not change the signature.
    culprit = culprit_name(msg, line, tok, names)
    if culprit is not None:
        if macros is not None and culprit in macros():
            # used verbatim where a standard header (pulled in by the generated code) defines a macro of that name
            return {"cause": "name|stdlib-macro-used-verbatim", "detail": "", "scope": (), "note": f"identifier {culprit!r} (macro family {macro_family(culprit)})"}
        if needs_stropping(culprit, target):
            return {"cause": "name|reserved-not-stropped", "detail": name_class(culprit), "scope": (), "note": f"identifier {culprit!r}"}
        return {"cause": "name|collision-with-identifier-of-generated-code-or-std", "detail": name_class(culprit), "scope": (), "note": f"identifier {culprit!r}"}
    # a standard declaration is used without the header that declares it
    m = re.search(r"unknown type name '(\w+)'|^'(\w+)' (?:does not name a type|was not declared in this scope|has not been declared|undeclared)", msg)
    ms = re.search(r"'(\w+)' in namespace 'std' does not name|'(\w+)' is not a member of 'std'", msg)
    if ms and target == "cpp":
        x = ms.group(1) or ms.group(2)
        for pat, hdr in _CPP_DECL_HEADER:
            if pat.search(x):
                return {"cause": "missing-include", "detail": f"<{hdr}>", "scope": ("omit",), "neutralise": [("-include", hdr)]}
        return {"cause": "missing-include", "detail": f"std::{x}", "scope": ("omit",)}
    if m:
        x = m.group(1) or m.group(2)
        if target == "cpp" and x in ("size_t", "ptrdiff_t"):
            return {"cause": "unqualified-" + x, "detail": "", "scope": (), "neutralise": [("-include", "cstddef")]}
        if target == "c":
            for pat, hdr in _C_DECL_HEADER:
                if pat.search(x):
                    return {"cause": "missing-include", "detail": f"<{hdr}>", "scope": ("omit",), "neutralise": [("-include", hdr)]}
    where = "support-header" if "nunavut/support" in f else "type-header"
    return {"cause": "diag", "detail": f"{where}|{opt or d.get('kind', '?')}|{normalise_text(msg)}", "scope": ("omit",)}


def significant(diags: typing.List[dict]) -> typing.List[dict]:
    """All promoted warnings up to and including the first hard error (hard errors cascade, warnings do not)."""
    out = []
    for d in diags:
        if d.get("kind") not in ("error", "fatal error", "warning"):
            continue
        out.append(d)
        if d.get("kind") != "warning" and not str(d.get("option", "")).startswith("-Werror"):
            break
    return out


def check_header(cfg: dict, mode: dict, outdirs: typing.List[str], hdr: str, names) -> typing.List[dict]:
    """
    Compiles one header; returns a list of failure dicts (cause, detail, scope, what, file, cmd).  When a diagnostic has a
    root cause that can be switched off from the outside (look-behind pass: everything else stays as generated) the header is
    compiled again with that cause neutralised, so that one shallow defect does not hide what lies behind it.
    """
    cache: dict = {}
    found: typing.Dict[typing.Tuple[str, str], dict] = {}
    extra: typing.List[str] = []
    neutralised: typing.List[str] = []
    macro_cache: typing.List[typing.Set[str]] = []

    def macros() -> typing.Set[str]:
        if not macro_cache:
            cmd = compile_cmd(mode, outdirs, ["-E", "-dM", "-w"])
            p = subprocess.run(cmd, input=f'#include "{hdr}"\n', capture_output=True, text=True, cwd=empty_cwd(), timeout=600)
            macro_cache.append(set(re.findall(r"^#define (\w+)", p.stdout, re.M)))
        return macro_cache[0]

    units: typing.List[typing.Tuple[str, ...]] = []
    for _round in range(8):
        rc, diags, cmd = run_compiler(mode, outdirs, hdr, [a for u in units for a in u])
        grew = False
        for d in significant(diags):
            c = classify_cc(d, cfg, mode, names, cache, outdirs, macros)
            key = (c["cause"], c["detail"])
            n = c.pop("neutralise", None)
            if key not in found:
                f, line, _ = src_line(d, cache)
                loc = (d.get("locations") or [{}])[0].get("caret", {})
                c["what"] = (
                    f"{os.path.relpath(f, outdirs[0]) if f.startswith('/') else f}:{loc.get('line', '?')}: {d.get('kind')}: {unq(d.get('message'))} "
                    f"{('[' + d['option'] + ']') if d.get('option') else ''}\n    | {line.strip()[:200]}"
                    + (f"\n    {c['note']}" if c.get("note") else "")
                    + (f"\n    (seen behind neutralised {' + '.join(neutralised)})" if neutralised else "")
                )
                c["file"] = hdr
                c["cmd"] = cmd
                c["mode"] = mode["mode"]
                found[key] = c
                if n:
                    neutralised.append(c["cause"] + (("|" + c["detail"]) if c["detail"] else ""))
            for u in n or []:
                if u not in units:
                    units.append(u)
                    grew = True
        if not grew:
            break
    return list(found.values())


# ---------------------------------------------------------------------------------------------------------------------
# oracle (3): Python modules compile and import from a fresh interpreter state
# ---------------------------------------------------------------------------------------------------------------------
PY_DRIVER = r'''
import sys, json, os
spec = json.loads(sys.stdin.read())
base = [p for p in sys.path if "site-packages" not in p]
sys.path[:] = base + [spec["lib"]]
import warnings, importlib, traceback
import numpy, numpy.typing, pydsdl  # the trusted base, loaded once; every module is then imported in a forked child of this state
sys.path[:] = base + spec["paths"] + [spec["lib"]]
results = {}
for mod, path in spec["modules"]:
    r, w = os.pipe()
    pid = os.fork()
    if pid == 0:
        os.close(r)
        out = {"compile": None, "import": None, "warnings": []}
        try:
            with warnings.catch_warnings(record=True) as ws:
                warnings.simplefilter("always")
                try:
                    with open(path, encoding="utf-8") as f:
                        compile(f.read(), path, "exec")
                except BaseException as e:
                    out["compile"] = {"type": type(e).__name__, "msg": str(e), "line": getattr(e, "lineno", None), "text": (getattr(e, "text", None) or "").strip()}
                try:
                    importlib.import_module(mod)
                except BaseException as e:
                    frames = traceback.extract_tb(e.__traceback__)
                    gen = [fr for fr in frames if any(fr.filename.startswith(p) for p in spec["outdirs"])]
                    fr = gen[-1] if gen else (frames[-1] if frames else None)
                    out["import"] = {"type": type(e).__name__, "msg": str(e), "name": getattr(e, "name", None),
                                     "file": fr.filename if fr else getattr(e, "filename", None), "line": (fr.lineno if fr else getattr(e, "lineno", None)),
                                     "text": ((fr.line if fr else None) or getattr(e, "text", None) or "").strip()}
                    if isinstance(e, SyntaxError):
                        out["import"].update({"file": e.filename, "line": e.lineno, "text": (e.text or "").strip()})
            out["warnings"] = [{"cat": x.category.__name__, "msg": str(x.message), "file": x.filename, "line": x.lineno} for x in ws]
        except BaseException as e:
            out["driver_error"] = repr(e)
        finally:
            try:
                os.write(w, json.dumps(out).encode())
            finally:
                os._exit(0)
    os.close(w)
    buf = b""
    while True:
        chunk = os.read(r, 65536)
        if not chunk:
            break
        buf += chunk
    os.close(r)
    _, status = os.waitpid(pid, 0)
    try:
        results[mod] = json.loads(buf.decode())
    except Exception:
        results[mod] = {"driver_error": "child died with status %r" % status}
print(json.dumps(results))
'''

_PYLIB = None
_PYLIB_LOCK = threading.Lock()


def pylib_dir() -> str:
    """A directory that holds nothing but numpy and pydsdl (symlinks)."""
    global _PYLIB
    with _PYLIB_LOCK:
        if _PYLIB is None or not os.path.isdir(_PYLIB):
            d = tempfile.mkdtemp(prefix="vf-c06-pylib-")
            import pydsdl

            os.symlink(os.path.dirname(pydsdl.__file__), os.path.join(d, "pydsdl"))
            deps = core.VERIF / ".deps"
            for n in ("numpy", "numpy.libs"):
                if (deps / n).exists():
                    os.symlink(deps / n, os.path.join(d, n))
            if not (deps / "numpy").exists():
                raise core.HarnessError("numpy not installed under /verif/.deps (run setup.sh)")
            (pathlib.Path(d) / "driver.py").write_text(PY_DRIVER)
            _PYLIB = d
    return _PYLIB


def run_py_driver(outdirs: typing.List[str], modules: typing.List[typing.Tuple[str, str]], extra_paths: typing.Sequence[str] = ()) -> dict:
    lib = pylib_dir()
    spec = {"paths": list(outdirs) + list(extra_paths), "lib": lib, "outdirs": list(outdirs), "modules": modules}
    env = {"PATH": os.environ.get("PATH", "/usr/bin:/bin"), "PYTHONDONTWRITEBYTECODE": "1", "PYTHONHASHSEED": "0", "HOME": os.environ.get("HOME", "/tmp")}
    p = subprocess.run([PY, "-I", "-S", "-B", os.path.join(lib, "driver.py")], input=json.dumps(spec), capture_output=True, text=True, env=env, cwd=empty_cwd(), timeout=900)
    if p.returncode != 0:
        raise core.HarnessError(f"python import driver failed rc={p.returncode}: {p.stderr[-800:]}")
    return json.loads(p.stdout)


def classify_py(kind: str, e: dict, cfg: dict, names) -> dict:
    """kind in {compile, import, warning}."""
    typ, msg = e.get("type") or e.get("cat"), e.get("msg", "")
    text = e.get("text", "")
    shadow = sorted(names["roots"] & (set(sys.stdlib_module_names) | {"numpy", "pydsdl", "nunavut_support"}))
    if shadow and kind == "import":
        return {"cause": "name|root-namespace-shadows-module-required-by-generated-code", "detail": "", "scope": (), "note": f"root namespace {shadow[0]!r}"}
    if typ == "ModuleNotFoundError" and e.get("name") == "nunavut_support":
        return {"cause": "missing-nunavut_support", "detail": "", "scope": ("omit",), "neutralise": "support"}
    if typ in ("ModuleNotFoundError", "ImportError"):
        top = (e.get("name") or "").split(".")[0]
        return {"cause": "closure", "detail": "generated-module-not-generated" if top in names["roots"] else "unknown-module|" + top, "scope": ("omit",)}
    toks = set(re.findall(r"[A-Za-z_][A-Za-z_0-9]*", text))
    hit = sorted(t for t in toks if t in names["all"] and needs_stropping(t, "py"))
    if typ == "SyntaxError" and hit:
        return {"cause": "name|reserved-not-stropped", "detail": name_class(hit[0]), "scope": (), "note": f"identifier {hit[0]!r}"}
    return {"cause": "diag", "detail": f"{kind}|{typ}|{normalise_text(msg)}", "scope": ("omit",)}


def check_python(cfg: dict, gen: dict, names, support_provider: typing.Callable[[], typing.Optional[str]]) -> typing.Tuple[typing.List[dict], dict]:
    modules = []
    for od, rel in gen["files"]:
        if rel.endswith(".py"):
            parts = rel[:-3].split("/")
            if parts[-1] == "__init__":
                parts = parts[:-1]
            if parts:
                modules.append((".".join(parts), os.path.join(od, rel)))
    found: typing.Dict[typing.Tuple[str, str], dict] = {}
    counters = {"py.modules": len(modules), "py.info.deprecation_warnings": 0, "py.info.foreign_warnings": 0}
    extra: typing.List[str] = []
    neutralised: typing.List[str] = []
    cmd = f"cd $OUT && python -I -S -c 'import sys; sys.path += [$OUT.., <dir with only numpy+pydsdl>]; import <module>'"
    for _round in range(2):
        res = run_py_driver(gen["outdirs"], modules, extra)
        again = False
        for mod, path in modules:
            r = res.get(mod) or {"driver_error": "no result"}
            if "driver_error" in r:
                raise core.HarnessError(f"python driver: {mod}: {r['driver_error']}")
            events = []
            if r["compile"]:
                events.append(("compile", r["compile"]))
            if r["import"] and not (r["compile"] and r["import"].get("type") == r["compile"].get("type")):
                events.append(("import", r["import"]))
            for wn in r["warnings"]:
                if not any(wn["file"].startswith(od) for od in gen["outdirs"]):
                    if _round == 0:
                        counters["py.info.foreign_warnings"] += 1
                    continue
                if wn["cat"] in ("DeprecationWarning", "PendingDeprecationWarning", "FutureWarning", "VisibleDeprecationWarning") and wn["cat"] != "SyntaxWarning":
                    if _round == 0:
                        counters["py.info.deprecation_warnings"] += 1  # NumPy-2 / CPython deprecations: information only
                    continue
                events.append(("warning", wn))
            for kind, e in events:
                c = classify_py(kind, e, cfg, names)
                key = (c["cause"], c["detail"])
                if key not in found:
                    rel = os.path.relpath(e.get("file") or path, gen["outdirs"][0]) if (e.get("file") or path).startswith("/") else e.get("file")
                    c["what"] = (
                        f"{kind} of module {mod}: {e.get('type') or e.get('cat')}: {e.get('msg')} at {rel}:{e.get('line')}\n    | {e.get('text', '')[:200]}"
                        + (f"\n    {c['note']}" if c.get("note") else "")
                        + (f"\n    (seen behind neutralised {'+'.join(neutralised)})" if neutralised else "")
                    )
                    c["file"] = os.path.relpath(path, gen["outdirs"][0])
                    c["cmd"] = cmd.replace("<module>", mod)
                    c["mode"] = "import"
                    found[key] = c
                if c.get("neutralise") == "support" and "support" not in neutralised:
                    again = True
        if not again:
            break
        sp = support_provider()
        if not sp:
            break
        neutralised.append("support")
        extra = [sp]
    return list(found.values()), counters


# ---------------------------------------------------------------------------------------------------------------------
# evaluation of one (universe, configuration): stage 1 = generate + closure scan + job list, stage 2 = one job
# ---------------------------------------------------------------------------------------------------------------------
def names_of(u: dict) -> dict:
    alln = {n for _, n in universe_names(u)}
    per_type = []
    for r in u["roots"]:
        for td in r["types"]:
            ns = set(td["ns"]) | {td["name"]}
            for b in bodies_of(td):
                ns |= {a["name"] for a in b["attrs"] if a["k"] in ("field", "const")}
            for full in dsdlgen._refs_in(td["body"]):
                ns |= set(full.split(".")[:-2])  # namespaces and short name of every referenced type
            per_type.append(([x.strip("_") for x in td["ns"]], f"{td['name'].strip('_')}_{td['major']}_{td['minor']}", ns))
    return {"all": alln, "roots": {r["name"] for r in u["roots"]}, "nonplain": {n for n in alln if name_class(n) != "plain"}, "per_type": per_type}


def local_names(names: dict, rel: str) -> dict:
    """Identifiers of the definition(s) a generated file was made from (all identifiers if the file cannot be attributed)."""
    stem = os.path.splitext(os.path.basename(rel))[0].strip("_")
    path = [x.strip("_") for x in rel.split("/")[:-1]]
    hit: typing.Set[str] = set()
    for d, key, ns in names["per_type"]:
        if d == path and stem.endswith(key):
            hit |= ns
    if not hit:
        return names
    return {"all": hit, "roots": names["roots"], "nonplain": {n for n in hit if name_class(n) != "plain"}, "per_type": names["per_type"]}


def layout_of(uhash: str) -> str:
    # both usages are legitimate; which one a universe gets is a pure function of its content
    return "shared" if int(uhash, 16) % 2 == 0 else "per-root"


def stage1(u: dict, cfg: dict, udir: pathlib.Path, layout: str) -> dict:
    gen = generate(u, cfg, udir / "dsdl", udir / "out" / cfgkey(cfg).replace("|", "-").replace("+", "p"), layout)
    fails = list(gen["fails"])
    jobs = []
    if cfg["target"] in ("c", "cpp"):
        fails += closure_scan_c(cfg, gen)
        for mode in compile_modes(cfg):
            for od, rel in gen["files"]:
                if rel.endswith(EXT[cfg["target"]]):
                    jobs.append({"kind": "cc", "mode": mode, "hdr": rel})
    else:
        fails += closure_scan_py(cfg, gen)
        jobs.append({"kind": "py"})
    for f in fails:
        f.setdefault("scope", ("omit",) if f["cause"] in ("closure", "nnvg-fails") else ())
        f.setdefault("cmd", "")
        f.setdefault("mode", "generate" if f["cause"] == "nnvg-fails" else "closure-scan")
    return {"gen": gen, "fails": fails, "jobs": jobs}


def stage2(u: dict, cfg: dict, udir: pathlib.Path, s1: dict, job: dict, names) -> typing.Tuple[typing.List[dict], dict]:
    gen = s1["gen"]
    if job["kind"] == "cc":
        fs = check_header(cfg, job["mode"], gen["outdirs"], job["hdr"], names)
        inconclusive = [f for f in fs if f["cause"] == "standin-inconclusive"]
        return [f for f in fs if f["cause"] != "standin-inconclusive"], {"cc.compiles": 1, "standin.inconclusive": len(inconclusive)}

    def support_provider() -> typing.Optional[str]:
        d = udir / "out" / "py-support-only"
        if not (d / "nunavut_support.py").exists():
            rc, _, se = tool.run_sub(["--target-language", "py", "--generate-support", "only", "--outdir", str(d)])
            if rc != 0 or not (d / "nunavut_support.py").exists():
                return None
        return str(d)

    return check_python(cfg, gen, names, support_provider)


def signature(cfg: dict, f: dict) -> str:
    parts = [cfg["target"]]
    if "std" in f["scope"]:
        parts.append(cfg["std"])
    if "omit" in f["scope"]:
        parts.append("omit" if cfg["omit"] else "ser")
    parts.append(f["cause"])
    if f.get("detail"):
        parts.append(f["detail"])
    return "|".join(parts)


def dsdl_listing(u: dict, limit: int = 1200) -> str:
    out = []
    for rel, text in dsdlgen.files_of(u).items():
        out.append(f"--- {rel}\n{text}")
    s = "".join(out)
    return s if len(s) <= limit else s[:limit] + "…"


def describe(u: dict, cfg: dict, s1: dict, f: dict) -> str:
    return (
        f"[{cfgkey(cfg)} {f.get('mode', '')}] {f['what']}\n  generated by: " + " && ".join(s1["gen"]["cmds"]) + (f"\n  checked by: {f['cmd']}" if f.get("cmd") else "")
    )


class Work:
    """Scratch root for a run; one sub-directory per universe."""

    def __init__(self):
        self.root = pathlib.Path(tempfile.mkdtemp(prefix="vf-c06-"))
        self.n = 0
        self.lock = threading.Lock()

    def udir(self, u: dict) -> pathlib.Path:
        with self.lock:
            self.n += 1
            d = self.root / f"u{self.n}"
        (d / "dsdl").mkdir(parents=True)
        dsdlgen.materialise(u, d / "dsdl")
        return d

    def close(self):
        shutil.rmtree(self.root, ignore_errors=True)
        for g in ("_EMPTY_CWD", "_PYLIB"):
            p = globals().get(g)
            if p:
                shutil.rmtree(p, ignore_errors=True)
                globals()[g] = None


def evaluate(u: dict, cfgs: typing.List[dict], work: Work, pool: cf.Executor, layout: typing.Optional[str] = None) -> dict:
    """All oracles for one universe under the given configurations.  Returns {"rejected", "results": {cfgkey: {...}}}."""
    return evaluate_many([u], cfgs, work, pool, layout)[0]


def evaluate_many(us: typing.List[dict], cfgs, work: Work, pool: cf.Executor, layout: typing.Optional[str] = None) -> typing.List[dict]:
    """`cfgs`: one list of configurations for all universes, or a function universe-index -> list."""
    outs = []
    s1_futs = []
    for ui, u in enumerate(us):
        uhash = core.jhash(u)
        udir = work.udir(u)
        try:
            dsdlgen.read(u, udir / "dsdl")
            rejected = None
        except Exception as e:  # front end says no: not part of the domain (generator soundness is counted)
            rejected = f"{type(e).__name__}: {e}"
        o = {"u": u, "uhash": uhash, "udir": udir, "rejected": rejected, "layout": layout or layout_of(uhash), "names": names_of(u), "results": {}}
        outs.append(o)
        if rejected is None:
            for cfg in cfgs(ui) if callable(cfgs) else cfgs:
                s1_futs.append((o, cfg, pool.submit(stage1, u, cfg, udir, o["layout"])))
    s2_futs = []
    for o, cfg, fut in s1_futs:
        s1 = fut.result()
        res = {"cfg": cfg, "s1": s1, "fails": [dict(f, sig=signature(cfg, f)) for f in s1["fails"]], "counters": {"nnvg.runs": len(s1["gen"]["cmds"])}, "files": len(s1["gen"]["files"])}
        o["results"][cfgkey(cfg)] = res
        for job in s1["jobs"]:
            s2_futs.append((o, cfg, res, job, pool.submit(stage2, o["u"], cfg, o["udir"], s1, job, o["names"])))
    for o, cfg, res, job, fut in s2_futs:
        fails, counters = fut.result()
        for k, v in counters.items():
            res["counters"][k] = res["counters"].get(k, 0) + v
        for f in fails:
            res["fails"].append(dict(f, sig=signature(cfg, f)))
    return outs


# ---------------------------------------------------------------------------------------------------------------------
# seed-independent exhaustive sub-domains
# ---------------------------------------------------------------------------------------------------------------------
def _T(ns, name, attrs, union=False, sealed=True, major=1, minor=0, deprecated=False, port=None, extent_extra=0, doc=()):
    body = {"union": union, "sealed": sealed, "extent_extra": extent_extra, "attrs": list(attrs)}
    if not sealed and not _refs_of_attrs(attrs):
        body["extent_bits"] = ((dsdlgen.body_max_bits(body, {}) + 7) // 8 + extent_extra) * 8 if attrs else extent_extra * 8
    return {"ns": list(ns), "name": name, "major": major, "minor": minor, "port_id": port, "kind": "union" if union else "struct", "deprecated": deprecated, "doc": list(doc), "body": body}


def _refs_of_attrs(attrs) -> bool:
    return bool(dsdlgen._refs_in({"attrs": list(attrs)}))


def _S(ns, name, req, resp, major=1, minor=0, deprecated=False, port=None):
    mk = lambda attrs: {"union": False, "sealed": True, "extent_extra": 0, "attrs": list(attrs)}  # noqa: E731
    return {"ns": list(ns), "name": name, "major": major, "minor": minor, "port_id": port, "kind": "service", "deprecated": deprecated, "doc": [], "body": {"request": mk(req), "response": mk(resp)}}


def _F(t, name, doc=None):
    return {"k": "field", "type": t, "name": name, "doc": doc}


def _K(t, name, value):
    return {"k": "const", "type": t, "name": name, "value": value}


_U8 = {"t": "uint", "bits": 8, "cast": "saturated"}


def _ref(td):
    return {"t": "ref", "full": ".".join(td["ns"] + [td["name"]]), "major": td["major"], "minor": td["minor"]}


def directed_extremes() -> dict:
    types = []
    for bits in (2, 7, 8, 9, 16, 17, 31, 32, 33, 63, 64):
        t = {"t": "int", "bits": bits, "cast": "saturated"}
        lo, hi = -(1 << (bits - 1)), (1 << (bits - 1)) - 1
        types.append(_T(["ext"], f"I{bits}", [_K(t, "MIN", str(lo)), _K(t, "MAX", str(hi)), _K(t, "MIN1", str(lo + 1)), _F(t, "v")]))
    for bits in (1, 8, 16, 31, 32, 33, 63, 64):
        t = {"t": "uint", "bits": bits, "cast": "saturated"}
        types.append(_T(["ext"], f"U{bits}", [_K(t, "MAX", str((1 << bits) - 1)), _K(t, "ZERO", "0"), _F(t, "v")]))
    fl = {
        16: [("MAX", "65504.0"), ("LOW", "-65504.0"), ("TINY", "6.0e-8"), ("THIRD", "1/3")],
        32: [("MAX", "340282346638528859811704183484516925440.0"), ("LOW", "-340282346638528859811704183484516925440.0"), ("TINY", "1e-45"), ("SMALL", "1e-30"), ("THIRD", "1/3")],
        64: [("MAX", "1.7976931348623157e308"), ("LOW", "-1.7976931348623157e308"), ("BIG", "1e300")],
    }
    for bits, ks in fl.items():
        t = {"t": "float", "bits": bits, "cast": "saturated"}
        types.append(_T(["ext"], f"F{bits}", [_K(t, n, v) for n, v in ks] + [_F(t, "v")]))
    # one header per sub-normal / tiny float64 constant class so that each is judged on its own
    t64 = {"t": "float", "bits": 64, "cast": "saturated"}
    for n, v in (("DENORM_MIN", "5e-324"), ("TINY", "1e-320"), ("MIN_NORMAL", "2.2250738585072014e-308"), ("THIRD", "1/3")):
        types.append(_T(["ext"], f"F64{n.title().replace('_', '')}", [_K(t64, n, v), _F(t64, "v")]))
    types.append(_T(["ext"], "Chars", [_K(_U8, "A", "'a'"), _K(_U8, "NL", "'\\n'"), _K(_U8, "QUOTE", "'\\''"), _K(_U8, "BSL", "'\\\\'"), _K({"t": "bool"}, "YES", "true"), _F(_U8, "v")]))
    return {"roots": [{"name": "ext", "types": types}]}


def directed_macros() -> dict:
    names = dsdlgen._pool("macro")
    a, b = [], []
    for i, n in enumerate(names):
        a.append(_T(["mac"], f"M{i}", [_F(_U8, n), _F(_U8, "ok")]))
        b.append(_T(["mns", n], "N", [_F(_U8, "ok")]))
    return {"roots": [{"name": "mac", "types": a}, {"name": "mns", "types": b}]}


# identifiers the built-in templates emit themselves (beyond dsdlgen.TEMPLATE_INTERNAL; used only by the directed universe)
EXTRA_INTERNAL = [
    "rhs", "TypeOf", "allocator_type", "HasFixedPortID", "FixedPortId", "IsServiceType", "IsRequest", "ExtentBytes", "SerializationBufferSizeBytes",
    "IndexOf", "MAX_INDEX", "variant_npos", "alternative", "emplace", "get_if", "do_copy", "do_emplace", "destroy_current", "internal_union_value_",
    "tag_", "Request", "Response", "Service", "bitpacked", "encoded_string", "warnings", "typing", "np", "x", "other", "args", "kwargs",
]  # fmt: skip


def directed_pool() -> dict:
    """Every name of every non-macro pool as attribute name, once in a structure and once in a union."""
    types = []
    kinds = [_U8, {"t": "varr", "elem": _U8, "cap": 3, "incl": True}, {"t": "farr", "elem": {"t": "bool"}, "n": 9}, {"t": "float", "bits": 32, "cast": "saturated"}]
    for cls in ("c_kw", "cpp_kw", "py_kw", "pattern", "internal", "internal2"):
        names = dsdlgen._pool(cls) if cls != "internal2" else [n for n in EXTRA_INTERNAL if dsdlgen._dsdl_name_ok(n) and n not in dsdlgen.TEMPLATE_INTERNAL]
        # names folding onto one identifier must not share a scope
        chunks: typing.List[typing.List[str]] = []
        for n in names:
            for ch in chunks:
                if len(ch) < 8 and dsdlgen.fold(n) not in {dsdlgen.fold(x) for x in ch}:
                    ch.append(n)
                    break
            else:
                chunks.append([n])
        # reserved PATTERNS meet every kind of member (the decorated member names of the C target -- `<name>_bitpacked_` --
        # depend on both); every other name meets two consecutive kinds, so that each one appears at least once as an
        # undecorated member (a bit-packed array hides the name behind its suffix: seeded change C06-C, `restrict`)
        rotations = range(len(kinds)) if cls == "pattern" else (0, 1)
        for i, ch in ((i + r, ch) for r in rotations for i, ch in enumerate(chunks, r * len(chunks))):
            attrs = [_F(kinds[(i + j) % len(kinds)], n) for j, n in enumerate(ch)]
            # after every candidate name: a variable-length array (size_t count; std::vector) and a primitive (std::uint8_t)
            attrs += [_F({"t": "varr", "elem": {"t": "uint", "bits": 16, "cast": "saturated"}, "cap": 2, "incl": True}, "zz_tail_array"), _F(_U8, "zz_tail")]
            types.append(_T(["pool", cls], f"S{i}", attrs))
            types.append(_T(["pool", cls], f"U{i}", attrs, union=True))
            # the same names as constants
            types.append(_T(["pool", cls], f"K{i}", [_K(kinds[(i + j) % 2 * 3], n, "1" if (i + j) % 2 == 0 else "1/2") for j, n in enumerate(ch)] + [_F(_U8, "zz_tail")]))
        # the same names as nested namespace components (six per path; one failing component hides the deeper ones, which is
        # harmless because the signatures are per name class)
        seen_first: typing.Set[str] = set()
        path: typing.List[str] = []
        k = 0
        for n in names + [None]:
            if n is not None and (path or dsdlgen.fold(n) not in seen_first):
                if not path:
                    seen_first.add(dsdlgen.fold(n))
                path.append(n)
            if path and (n is None or len(path) == 6):
                types.append(_T(["pool", cls + "_ns"] + path, f"N{k}", [_F(_U8, "ok")]))
                k += 1
                path = []
    return {"roots": [{"name": "pool", "types": types}]}


def directed_shapes() -> dict:
    ns = ["shp"]
    e0 = _T(ns, "Empty", [])
    e1 = _T(ns, "EmptyExt", [], sealed=False, extent_extra=0)
    e2 = _T(ns, "EmptyExt64", [], sealed=False, extent_extra=64)
    a = _T(ns + ["sub"], "A", [_F({"t": "bool"}, "b"), {"k": "void", "bits": 3}, _F({"t": "float", "bits": 16, "cast": "saturated"}, "h")])
    b = _T(ns + ["sub"], "B", [_F({"t": "varr", "elem": _ref(a), "cap": 3, "incl": True}, "as_"), _F({"t": "farr", "elem": _ref(a), "n": 2}, "pair"), _F(_ref(e0), "nothing")], sealed=False, extent_extra=7)
    c = _T(ns + ["sub", "deep", "er"], "C", [_F(_ref(b), "b"), _F(_ref(a), "a"), _F({"t": "farr", "elem": {"t": "bool"}, "n": 9}, "bits")], union=True)
    types = [e0, e1, e2, a, b, c]
    types.append(_S(ns, "EmptySvc", [], []))
    types.append(_S(ns, "HalfSvc", [], [_F(_ref(c), "c")], port=100))
    types.append(_T(ns, "Old", [_F(_U8, "x")], deprecated=True, port=7000))
    types.append(_T(ns, "OldU", [_F(_U8, "x"), _F({"t": "bool"}, "y")], deprecated=True, union=True))
    types.append(_S(ns, "OldSvc", [_F(_U8, "x")], [], deprecated=True))
    types.append(_T(ns, "Ver", [_F(_U8, "x")], major=0, minor=1))
    types.append(_T(ns, "Ver", [_F(_U8, "x"), _F(_U8, "y")], major=255, minor=255))
    # several versions of ONE data type used side by side (struct, union, array elements, request vs response); minor versions
    # under one major must be bit-compatible, so Rec 1.0 / 1.1 share a body
    ver_a, ver_b = types[-2], types[-1]
    rec10 = _T(ns, "Rec", [_F(_U8, "x")], major=1, minor=0)
    rec11 = _T(ns, "Rec", [_F(_U8, "x")], major=1, minor=1)
    rec20 = _T(ns, "Rec", [_F(_U8, "x"), _F({"t": "bool"}, "more")], major=2, minor=0)
    types += [rec10, rec11, rec20]
    types.append(_T(ns, "Migration", [_F(_ref(rec10), "old"), _F(_ref(rec11), "newer"), _F(_ref(ver_a), "va"), _F(_ref(ver_b), "vb")]))
    types.append(_T(ns, "MigrationU", [_F(_ref(rec11), "a"), _F(_ref(rec20), "b"), _F({"t": "varr", "elem": _ref(rec10), "cap": 2, "incl": True}, "c")], union=True))
    types.append(_S(ns, "Upgrade", [_F(_ref(rec11), "req")], [_F({"t": "farr", "elem": _ref(rec20), "n": 2}, "rsp")]))
    types.append(_T(ns, "TwoBools", [_F({"t": "bool"}, "p"), _F({"t": "bool"}, "q")], union=True))
    types.append(_T(ns, "EmptyWithPort", [], port=96))
    types.append(_T(ns, "OnlyPadding", [{"k": "void", "bits": 8}]))
    types.append(_T(ns, "OnlyPaddingExt", [{"k": "void", "bits": 3}, {"k": "void", "bits": 64}], sealed=False, extent_extra=7))
    # fields, but not a single bit on the wire: every member is an empty composite (alone, in arrays, as union options)
    empty_t = _T(ns, "EmptyLeaf", [])
    types.append(empty_t)
    types.append(_T(ns, "OnlyEmptyMembers", [_F(_ref(empty_t), "a"), _F({"t": "farr", "elem": _ref(empty_t), "n": 2}, "b"), _F(_ref(empty_t), "c")]))
    types.append(_T(ns, "OnlyEmptyMembersExt", [_F(_ref(empty_t), "a")], sealed=False, extent_extra=0))
    types.append(_T(ns, "OnlyConstants", [_K(_U8, "K", "7"), _K({"t": "float", "bits": 32, "cast": "saturated"}, "F", "0.5")]))
    types.append(_S(ns, "PaddingSvc", [{"k": "void", "bits": 8}], [{"k": "void", "bits": 8}, _K({"t": "bool"}, "X", "false")], port=101))
    types.append(_T(ns, "OnlyBoolArrays", [_F({"t": "farr", "elem": {"t": "bool"}, "n": 9}, "fixed"), _F({"t": "varr", "elem": {"t": "bool"}, "cap": 9, "incl": True}, "variable")]))
    types.append(_T(ns, "OnlyFloats", [_F({"t": "float", "bits": 16, "cast": "saturated"}, "h"), _F({"t": "float", "bits": 64, "cast": "truncated"}, "d")]))
    types.append(_T(ns, "OnlyBool", [_F({"t": "bool"}, "flag")]))
    w = dsdlgen.WIDE_TYPES
    types.append(_T(ns + ["wide"], "Prims", [_F(t, f"p{i}") for i, t in enumerate(w[:7])]))
    for i in range(7, len(w), 3):
        types.append(_T(ns + ["wide"], f"Arr{i}", [_F(t, f"a{j}") for j, t in enumerate(w[i : i + 3])], sealed=(i % 2 == 0), extent_extra=64))
    types.append(_T(ns + ["wide"], "UnionOfArrays", [_F(w[7], "x"), _F(w[11], "y"), _F(w[14], "z")], union=True))
    docs = [
        "ends with a backslash \\", "next line", "close */ and open /* comment", 'triple """ quote and \'\'\' single', "line // comment ??/",
        "escapes \\x \\N{x} \\u12 \\777 \\", "{{ braces }} {% block %} {# c #}", "percent %s %(a)d {0} {x}", "\ttab and trailing space  ", "unicode é ❤   end",
        "backslash followed by blanks \\   ", "backslash followed by a tab \\\t", "two backslashes and a blank \\\\ ",
    ]  # fmt: skip
    types.append(_T(ns, "Docs", [_F(_U8, "x", doc=docs[0]), _F(_U8, "y", doc=docs[3]), _F(_U8, "z", doc=docs[5]), _F(_U8, "w", doc=docs[10]), _F(_U8, "v", doc=docs[11]), _K(_U8, "K", "1")], doc=docs))
    types.append(_S(ns, "DocSvc", [_F(_U8, "x", doc=docs[0])], [_F(_U8, "y", doc=docs[2])]))
    # namespaces and a type whose names are reserved in every target, referenced from another namespace and another root
    kw = _T(ns + ["import", "for", "class"], "while", [_F(_U8, "x")])
    types.append(kw)
    types.append(_T(ns + ["def"], "UsesKw", [_F(_ref(kw), "k"), _F({"t": "farr", "elem": _ref(kw), "n": 2}, "ks")]))
    # a dependent root namespace: references into nested namespaces, arrays of foreign types, foreign types in a service
    q = ["shq"]
    qt = [
        _T(q, "UsesA", [_F(_ref(a), "a"), _F({"t": "varr", "elem": _ref(c), "cap": 2, "incl": True}, "cs"), _F(_ref(e0), "e"), _F(_ref(kw), "k")]),
        _S(q + ["svc"], "UsesB", [_F(_ref(b), "b")], [_F({"t": "farr", "elem": _ref(types[11]), "n": 2}, "v")]),
    ]
    qt.append(_T(q, "Chain", [_F(_ref(qt[0]), "u")], union=False, sealed=False, extent_extra=1))
    # a nested namespace named like the OTHER root namespace, with a reference to a type of that root
    qt.append(_T(q + ["shp"], "Inner", [_F(_U8, "x")]))
    qt.append(_T(q + ["shp"], "UsesRootOfSameName", [_F(_ref(a), "a"), _F(_ref(qt[-1]), "inner")]))
    return {"roots": [{"name": "shp", "types": types}, {"name": "shq", "types": qt}]}


def directed_shadow(root: str) -> typing.Callable[[], dict]:
    """A root namespace named like a module the generated Python code itself imports."""
    return lambda: {"roots": [{"name": root, "types": [_T([root], "T", [_F(_U8, "x")])]}]}


def directed_rootnames() -> dict:
    """Pool names as ROOT namespace names (only there do C++ namespaces meet the global scope); one tiny type per root."""
    roots, seen = [], set()
    for cls in ("pattern", "internal", "internal2"):
        for n in dsdlgen._pool(cls) if cls != "internal2" else [x for x in EXTRA_INTERNAL if dsdlgen._dsdl_name_ok(x)]:
            if dsdlgen.fold(n) not in seen:
                seen.add(dsdlgen.fold(n))
                roots.append({"name": n, "types": [_T([n], "T", [_F(_U8, "x"), _F({"t": "varr", "elem": _U8, "cap": 2, "incl": True}, "y")])]})
    return {"roots": roots}


DIRECTED = {
    "extremes": directed_extremes, "macros": directed_macros, "pool": directed_pool, "shapes": directed_shapes,
    "root-named-numpy": directed_shadow("numpy"), "root-named-pydsdl": directed_shadow("pydsdl"), "rootnames": directed_rootnames,
}  # fmt: skip

# sub-domains that are only meaningful (and only affordable) for some configurations
DIRECTED_CFG_FILTER = {
    "rootnames": lambda cfg: cfg["target"] == "cpp" and not cfg["omit"] and cfg["std"] in ("c++14", "c++17-pmr"),
}


# ---------------------------------------------------------------------------------------------------------------------
# reduction of a failing universe (bounded, no Hypothesis): dependency closure of one type, then attribute removal
# ---------------------------------------------------------------------------------------------------------------------
def type_key(td: dict) -> str:
    return f"{'.'.join(td['ns'] + [td['name']])}.{td['major']}.{td['minor']}"


def closure_universe(u: dict, keep: typing.Set[str]) -> dict:
    index = {type_key(td): td for r in u["roots"] for td in r["types"]}
    todo = list(keep)
    keep = set()
    while todo:
        k = todo.pop()
        if k in keep or k not in index:
            continue
        keep.add(k)
        todo += list(dsdlgen._refs_in(index[k]["body"]))
    roots = []
    for r in u["roots"]:
        ts = [td for td in r["types"] if type_key(td) in keep]
        if ts:
            roots.append({"name": r["name"], "types": ts})
    return json.loads(json.dumps({"roots": roots}))  # deep copy: the reducer edits it


def candidates_for_file(u: dict, rel: typing.Optional[str]) -> typing.List[str]:
    allk = [type_key(td) for r in u["roots"] for td in r["types"]]
    if not rel:
        return allk
    stem = os.path.splitext(os.path.basename(rel))[0].strip("_")
    path = [x.strip("_") for x in rel.split("/")[:-1]]
    hits = [type_key(td) for r in u["roots"] for td in r["types"] if stem.endswith(f"{td['name'].strip('_')}_{td['major']}_{td['minor']}") and [x.strip("_") for x in td["ns"]] == path]
    return hits or allk


def reduce_failure(u: dict, cfg: dict, sig: str, rel: typing.Optional[str], work: Work, pool: cf.Executor, budget: int = 14) -> typing.Optional[dict]:
    def still_fails(v: dict) -> bool:
        if not v["roots"]:
            return False
        o = evaluate(v, [cfg], work, pool)
        return o["rejected"] is None and any(f["sig"] == sig for f in o["results"][cfgkey(cfg)]["fails"])

    best = None
    spent = 0
    for k in candidates_for_file(u, rel)[:4]:
        v = closure_universe(u, {k})
        if len(json.dumps(v)) >= len(json.dumps(u)):
            continue
        spent += 1
        if still_fails(v):
            best = v
            target_key = k
            break
    if best is None:
        return None
    # drop attributes of the failing type one at a time (single pass, bounded)
    changed = True
    while changed and spent < budget:
        changed = False
        for r in best["roots"]:
            for td in r["types"]:
                if type_key(td) != target_key:
                    continue
                for b in bodies_of(td):
                    i = 0
                    while i < len(b["attrs"]) and spent < budget:
                        if b["union"] and len([a for a in b["attrs"] if a["k"] == "field"]) <= 2 and b["attrs"][i]["k"] == "field":
                            i += 1
                            continue
                        removed = b["attrs"].pop(i)
                        spent += 1
                        if still_fails(best):
                            changed = True
                        else:
                            b["attrs"].insert(i, removed)
                            i += 1
    return best


# ---------------------------------------------------------------------------------------------------------------------
# run / replay
# ---------------------------------------------------------------------------------------------------------------------
def strategy(ctx_quick: bool):
    return dsdlgen.universe(
        profile="adversarial_nomacro", max_roots=3, max_types=5, max_consts=3, docs="some", attr_docs="some", empty_pct=12, wide_pct=12, max_fields=6
    )


def draw_universes(seed: int, n: int) -> typing.List[dict]:
    import hypothesis
    from hypothesis import given

    cases: typing.List[dict] = []

    @hypothesis.seed(seed * 1000003 + 6)
    @core.hsettings(n)
    @given(strategy(True))
    def collect(u):
        cases.append(u)

    collect()
    # distinct universes only (Hypothesis may repeat tiny examples)
    seen, out = set(), []
    for u in cases:
        h = core.jhash(u)
        if h not in seen:
            seen.add(h)
            out.append(u)
    return out


def account(ctx: core.Ctx, o: dict, origin: str, agg: dict):
    """Counters, non-triviality and failures of one evaluated universe."""
    u = o["u"]
    facts = universe_facts(u)
    for key, res in o["results"].items():
        cfg = res["cfg"]
        modes = [m["mode"] for m in compile_modes(cfg)] or (["import"] if cfg["target"] == "py" else ["generate-only"])
        for mode in modes:
            nontrivial = facts["strop"][cfg["target"]] or facts["cross_root"] or facts["extreme_const"]
            classes = [f"cfg.{cfg['target']}.{mode}", f"cfg.{cfg['target']}.{'omit' if cfg['omit'] else 'ser'}", f"origin.{origin}", f"layout.{o['layout']}"]
            classes += [f"names.{c}" for c in facts["name_classes"]]
            classes += [k for k in ("cross_root", "extreme_const", "empty_type", "wide_type") if facts[k]]
            classes += [f"strop.{cfg['target']}"] if facts["strop"][cfg["target"]] else []
            classes += ["multi_root"] if len(u["roots"]) > 1 else []
            classes += [f"u.{x}" for x in facts["features"] if x.startswith("kind.") or x in ("deprecated", "port_id", "multi_version", "empty_intermediate_ns", "delimited")]
            first = next(iter(dsdlgen.files_of(u).items()))
            # one sample per universe (a different configuration each time) so that the few kept samples are spread
            want_sample = agg.setdefault("_sampled", 0) % len(o["results"]) == list(o["results"]).index(key) and o["uhash"] not in agg.setdefault("_sampled_u", set())
            if want_sample and nontrivial:
                agg["_sampled_u"].add(o["uhash"])
                agg["_sampled"] += 1
            ctx.case(
                (o["uhash"], key, mode),
                nontrivial=nontrivial,
                sample={"universe": o["uhash"], "origin": origin, "roots": [r["name"] for r in u["roots"]][:4], "types": facts["n_types"], "config": key, "mode": mode, "first_file": {first[0]: first[1][:300]}} if want_sample else None,
                classes=classes,
            )
        for k, v in res["counters"].items():
            agg[k] = agg.get(k, 0) + v
        agg["files.generated"] = agg.get("files.generated", 0) + res["files"]
        for f in res["fails"]:
            what = describe(u, cfg, res["s1"], f)
            ctx.fail(f["sig"], what, {"universe": u, "cfg": cfg, "layout": o["layout"], "file": f.get("file"), "origin": origin})


def run(ctx: core.Ctx):
    ctx.rule = (
        "case = (universe, target, language standard, serialization on/omitted, compile mode); non-trivial = the universe has >= 1 "
        "identifier that is reserved in that target (configured reserved identifier/pattern; Python keyword/builtin), or a "
        "cross-root reference, or a constant at an extreme of its type; distinct by hash(universe) x configuration x mode"
    )
    cflags, cxxflags = project_flags()
    ctx.assumptions = [
        "gcc/g++ 12 are the deciding compilers; flags = diagnostic options parsed from verification/cmake/compiler_flag_sets/common.cmake "
        f"of the tree under test (C: {' '.join(cflags)}; C++ adds {' '.join(x for x in cxxflags if x not in cflags)}), strict -std=c11/c++NN",
        "cetl++14-17 flavour: submodules/CETL is empty; the headers are compiled as C++14 against a stand-in (harness/standin/cetl: vector-like "
        "container constructed from (max size, allocator), allocator template without default constructor -- exactly what the options of the "
        "shorthand state); diagnostics located inside the stand-in are counted as inconclusive (standin.inconclusive), never reported",
        "Python: fresh state per module = fork of an interpreter (-I -S) that has loaded only numpy 2.x and pydsdl; DeprecationWarning-family "
        "warnings (NumPy-2 / CPython deprecations) are counted as information, not violations",
        "names folding onto one identifier are excluded by the generator (dsdlgen.fold); the stdlib-macro name class is explored "
        "exhaustively in its own directed universe and excluded from the random name pools",
        "-fsyntax-only: diagnostics that need optimisation passes (e.g. -Wmaybe-uninitialized) are out of scope",
    ]
    n_random = 16 if ctx.quick else 240
    chunk = 16
    cfgs = all_configs()
    work = Work()
    agg: typing.Dict[str, int] = {}
    rejected = 0
    pending_reduce: typing.Dict[str, dict] = {}
    try:
        with cf.ThreadPoolExecutor(max_workers=JOBS) as pool:
            directed = [(name, fn()) for name, fn in DIRECTED.items()]
            randoms = [("random", u) for u in draw_universes(ctx.seed, n_random)]
            todo = directed + randoms
            for i in range(0, len(todo), chunk):
                part = todo[i : i + chunk]
                outs = evaluate_many([u for _, u in part], lambda i: [c for c in cfgs if DIRECTED_CFG_FILTER.get(part[i][0], lambda _c: True)(c)], work, pool)
                for (origin, _), o in zip(part, outs):
                    if o["rejected"] is not None:
                        if origin != "random":
                            raise core.HarnessError(f"directed universe {origin!r} rejected by the front end: {o['rejected']}")
                        rejected += 1
                        ctx.event("generator.rejected_by_front_end")
                        continue
                    account(ctx, o, origin, agg)
                    shutil.rmtree(o["udir"], ignore_errors=True)
            if rejected > max(1, len(randoms) // 50):
                raise core.HarnessError(f"{rejected}/{len(randoms)} generated universes rejected by pydsdl (> 2 %)")
            # bounded reduction of one representative per unknown signature
            if not os.environ.get("VF_NO_SHRINK"):
                sigs = [s for s in ctx.failures if not ctx.is_known(s)][:40]
                ctx.counting = False
                try:
                    with cf.ThreadPoolExecutor(max_workers=len(sigs) or 1) as outer:
                        futs = {}
                        for s in sigs:
                            rp = ctx.failures[s]["replay"]
                            futs[s] = outer.submit(reduce_failure, rp["universe"], rp["cfg"], s, rp.get("file"), work, pool, 5 if ctx.quick else 16)
                        for s, fut in futs.items():
                            v = fut.result()
                            if v is not None:
                                rp = dict(ctx.failures[s]["replay"], universe=v)
                                o = evaluate(v, [rp["cfg"]], work, pool, rp["layout"])
                                res = o["results"][cfgkey(rp["cfg"])]
                                hit = [f for f in res["fails"] if f["sig"] == s]
                                if hit:
                                    ctx.set_min_replay(s, describe(v, rp["cfg"], res["s1"], hit[0]) + "\n  DSDL:\n" + dsdl_listing(v), rp)
                finally:
                    ctx.counting = True
            for ent in ctx.failures.values():
                if "\n  DSDL:\n" not in ent["what"] and isinstance(ent["replay"], dict):
                    ent["what"] += "\n  DSDL:\n" + dsdl_listing(ent["replay"]["universe"])
    finally:
        work.close()
    import resource

    agg.pop("_sampled", None)
    agg.pop("_sampled_u", None)
    ru = resource.getrusage(resource.RUSAGE_CHILDREN)
    agg["cpu_seconds.children"] = int(ru.ru_utime + ru.ru_stime)
    ctx.extra["counters"] = dict(sorted(agg.items()))
    ctx.extra["universes"] = {"directed": len(DIRECTED), "random": len(randoms), "rejected_by_front_end": rejected}
    ctx.extra["flags"] = {"c": cflags, "cxx": cxxflags}
    # generator completeness (cases = universe x configuration x mode: 16 per universe)
    k = 1 if ctx.quick else 8
    for c in ("cfg.c.as-c11", "cfg.c.in-c++14-tu", "cfg.cpp.as-c++14", "cfg.cpp.as-c++17", "cfg.cpp.as-c++20", "cfg.cpp.as-c++17-pmr", "cfg.cpp.as-c++14-with-cetl-stand-in", "cfg.py.import"):
        ctx.require(c, 20 * k)
    for c in ("cfg.c.omit", "cfg.c.ser", "cfg.cpp.omit", "cfg.cpp.ser"):
        ctx.require(c, 20 * k)
    for c in ("cfg.py.omit", "cfg.py.ser"):
        ctx.require(c, 10 * k)
    for c in ("names.c_kw", "names.cpp_kw", "names.py_kw", "names.pattern", "names.internal"):
        ctx.require(c, 80 * k)
    ctx.require("names.macro", 16)
    for c in ("strop.c", "strop.cpp", "strop.py"):
        ctx.require(c, 20 * k)
    ctx.require("multi_root", 32 * k)
    ctx.require("cross_root", 16 * k)
    ctx.require("extreme_const", 32 * k)
    ctx.require("empty_type", 32 * k)
    ctx.require("wide_type", 32 * k)
    ctx.require("u.kind.service", 48 * k)
    ctx.require("u.kind.union", 48 * k)
    ctx.require("u.deprecated", 48 * k)
    ctx.require("layout.shared", 32)
    ctx.require("layout.per-root", 32)
    for origin in DIRECTED:
        ctx.require(f"origin.{origin}", 2)


def replay(ctx: core.Ctx, case):
    work = Work()
    try:
        with cf.ThreadPoolExecutor(max_workers=JOBS) as pool:
            o = evaluate(case["universe"], [case["cfg"]], work, pool, case.get("layout"))
            if o["rejected"] is not None:
                raise core.HarnessError(f"replay universe rejected by the front end: {o['rejected']}")
            res = o["results"][cfgkey(case["cfg"])]
            out = []
            seen = set()
            for f in res["fails"]:
                if f["sig"] not in seen:
                    seen.add(f["sig"])
                    out.append((f["sig"], describe(case["universe"], case["cfg"], res["s1"], f) + "\n  DSDL:\n" + dsdl_listing(case["universe"])))
            return out
    finally:
        work.close()
