"""
C07 -- reproducible output: with auditing off the generated tree is a pure function of the DSDL definitions (content and
paths relative to the namespace root), the templates, the options and the tool version.

Domain : DSDL universes (dsdlgen: nested namespaces, multi-root with --lookup-dir, services, unions, constants, docs)
         x target {c, cpp, py, html} x option set (auditing OFF)
         x a PAIR of run environments (A, B) that differ in a drawn subset of the axes
             clock            fake wall clock (owned by the harness: nnvg_wrap --fake-time), delta sub-second .. 20 years
             hashseed         PYTHONHASHSEED in {0, 1, 12345, Hypothesis-drawn 32-bit value (stands for "random")}
             input-location   the input tree copied to another absolute directory (different depth and length)
             output-location  --outdir at another absolute directory
             cwd              working directory of the tool process (input dir, output parent, two neutral dirs, /)
             spelling         absolute / relative / "./"-relative spelling of root namespace, --outdir, --lookup-dir
             in-process       fresh process vs second run inside one interpreter (after a warm-up run of another target)
Oracle : metamorphic -- same set of paths relative to --outdir and byte-identical files for A and B.
         On a difference every differing line group is mapped to a construct class (static_assert message with the source
         path, Generated-at line, _MODEL_ blob [decoded: gzip header mtime vs pickled attribute], include/import order, ...)
         and the responsible axis is found by re-running A with exactly one axis taken from B (plus an identical re-run of A
         that catches run-to-run nondeterminism such as id()/ASLR leaks).
         signature = target | file kind | construct class | axis.
Universe flavours (shares of every 10): 3 "lookup" (>= 2 roots, last root generated with --lookup-dir), 3 "siblings" (nested
root with >= 3 sibling namespaces, added by construction), 2 "nested", 2 "any"; every universe is first parsed by pydsdl.
One fixed corpus universe (dependency chain across sibling namespaces, found by the thorough tier) runs in every campaign.
Per universe: 4 targets x n perturbed pairs + 1 control pair (identical environments).  After the campaign one cheap targeted
reduction per new signature (single-axis pair, canonical environments, one-type universe, default options).
All tool runs are subprocesses on a thread pool; the "in-process" runs are two tool.run_inproc() calls inside one worker
interpreter (python -m vf.props.c07 --worker) so that hash seed and clock stay under control of the harness.
"""
from __future__ import annotations

import base64
import copy
import difflib
import gzip
import hashlib
import json
import os
import pathlib
import pickle
import re
import shutil
import subprocess
import sys
import tempfile
import threading
import typing
from concurrent.futures import ThreadPoolExecutor

from .. import core, tool

TARGETS = ["c", "cpp", "py", "html"]
AXES = ["clock", "hashseed", "input-location", "output-location", "cwd", "spelling", "in-process", "ambient"]
# absolute locations of different depth and length (below the per-pair scratch directory)
LOCS = ["a", "deeper/and/longer/path_b", "m.n-o/q"]
CWD_KINDS = ["in", "out", "neutral", "neutral2", "root"]
SPELLS = ["abs", "rel", "reldot"]
HASHSEEDS = [0, 1, 12345]
CLOCK_BASES = [946684800.0, 1700000000.0, 1700000000.75, 2000000000.5]
CLOCK_DELTAS = {
    "subsecond": [0.25],
    "seconds": [1.0, 2.0, 61.0],
    "days": [86401.0, 40 * 86400.0],
    "years": [5 * 31557600.0, 20 * 31557600.0],
}
OUTNAME = "nunavut_out"
JOBS = int(os.environ.get("VF_C07_JOBS", str(min(16, os.cpu_count() or 4))))


# ===================================================================================================== case generation
def _strategies():
    from hypothesis import strategies as st

    from .. import dsdlgen

    @st.composite
    def options(draw, target: str) -> dict:
        o: dict = {}
        if draw(st.integers(0, 5)) == 0:
            return o  # the default option set

        def maybe(p: int) -> bool:
            return draw(st.integers(0, 99)) < p

        if maybe(20):
            o["omit"] = True
        if maybe(45):
            # (--omit-serialization-support with --generate-support always is refused by the CLI as a logic error)
            o["support"] = draw(st.sampled_from((["never", "as-needed", "only"] if o.get("omit") else ["always", "never", "as-needed", "only"])))
        if maybe(12):
            o["trim_blocks"] = True
        if maybe(12):
            o["lstrip_blocks"] = True
        if maybe(25):
            o["pp_trim"] = True
        if maybe(30):
            o["pp_maxlines"] = draw(st.sampled_from([0, 1, 2]))
        if maybe(10):
            o["ext"] = draw(st.sampled_from([".hh", ".xx"]))
        if maybe(10):
            o["ns_stem"] = "_pkg_"
        if maybe(25):
            # --templates / --support-templates pointing at a verbatim copy of the built-in templates kept with the inputs
            o["templates"] = draw(st.sampled_from(["types", "types", "types+support"]))
        if target in ("c", "cpp", "py"):
            if maybe(50):
                o["endian"] = draw(st.sampled_from(["any", "little", "big"]))
            if maybe(35):
                o["asserts"] = True
        if target in ("c", "cpp"):
            if maybe(20):
                o["override_cap"] = True
            if maybe(35):
                o["config"] = True  # a --configuration YAML that lives in the input tree location
        if target == "cpp" and maybe(70):
            o["std"] = draw(st.sampled_from(["c++14", "c++17", "c++20", "c++17-pmr", "cetl++14-17"]))
        return o

    @st.composite
    def env(draw) -> dict:
        return {
            "t": draw(st.sampled_from(CLOCK_BASES)),
            "hs": draw(st.one_of(st.sampled_from(HASHSEEDS), st.integers(2, 4294967295))),
            "inloc": draw(st.integers(0, len(LOCS) - 1)),
            "outloc": draw(st.integers(0, len(LOCS) - 1)),
            "cwd": draw(st.sampled_from(CWD_KINDS)),
            "spell": {k: draw(st.sampled_from(SPELLS)) for k in ("root", "out", "lookup")},
            "proc": draw(st.sampled_from(["fresh"] * 5 + ["second"])),
            # what the interpreter of a "second" run did before: another target on the same definitions, or the same target on
            # an EARLIER REVISION of the namespace (same type names and versions, other bodies) kept at another location
            "warm": draw(st.sampled_from(TARGETS + ["revision", "revision"])),
            # what the machine holds besides inputs and outputs: every fresh-process run gets PRIVATE, empty TMPDIR / HOME /
            # XDG_CACHE_HOME directories; "used" = another invocation (same definitions, OTHER options) ran there first
            "amb": draw(st.sampled_from(["clean", "clean", "used"])),
        }

    @st.composite
    def perturbed(draw, a: dict, forced: str) -> dict:
        b = copy.deepcopy(a)
        # the forced axis (cycled by the caller so that every axis gets its share), one of clock / a location, others 1 in 3
        second = draw(st.sampled_from(["clock", "input-location", "output-location"]))
        for ax in AXES:
            if ax not in (forced, second) and draw(st.sampled_from([False, False, True])) is False:
                continue
            if ax == "clock":
                cls = draw(st.sampled_from(sorted(CLOCK_DELTAS)))
                b["t"] = a["t"] + draw(st.sampled_from(CLOCK_DELTAS[cls]))
            elif ax == "hashseed":
                b["hs"] = draw(st.one_of(st.sampled_from(HASHSEEDS), st.integers(2, 4294967295)).filter(lambda h: h != a["hs"]))
            elif ax == "input-location":
                b["inloc"] = draw(st.sampled_from([i for i in range(len(LOCS)) if i != a["inloc"]]))
            elif ax == "output-location":
                b["outloc"] = draw(st.sampled_from([i for i in range(len(LOCS)) if i != a["outloc"]]))
            elif ax == "cwd":
                b["cwd"] = draw(st.sampled_from([c for c in CWD_KINDS if c != a["cwd"]]))
            elif ax == "spelling":
                keys = draw(st.lists(st.sampled_from(["root", "out", "lookup"]), min_size=1, max_size=3, unique=True))
                for k in keys:
                    b["spell"][k] = draw(st.sampled_from([s for s in SPELLS if s != a["spell"][k]]))
            elif ax == "in-process":
                b["proc"] = "fresh" if a["proc"] == "second" else "second"
            elif ax == "ambient":
                b["amb"] = "used" if a.get("amb", "clean") == "clean" else "clean"
                if forced == "ambient":
                    b["proc"] = a["proc"] = "fresh"  # leftovers of an earlier PROCESS are the subject
        return b

    def nested_roots(u: dict) -> typing.List[int]:
        return [i for i in range(len(u["roots"])) if has_nested_namespace(u, i)]

    @st.composite
    def case(draw, flavour: str, n_pairs: int) -> dict:
        """
        flavour: "lookup"   >= 2 roots, the LAST root (nested) is generated with --lookup-dir <earlier roots>
                 "siblings" nested root; two copies of a nested type are placed in fresh sibling namespaces (by construction)
                 "nested"   generated root has >= 1 nested namespace
                 "any"      whatever dsdlgen draws (incl. flat single-namespace universes)
        """
        profile = draw(st.sampled_from(["plain", "plain", "mixed"]))
        us = dsdlgen.universe(profile=profile, max_types=6, max_roots=2, docs="some", max_fields=5, max_consts=2)
        if flavour == "lookup":
            u = draw(us.filter(lambda x: len(x["roots"]) > 1 and has_nested_namespace(x, len(x["roots"]) - 1)))
            root = len(u["roots"]) - 1
        elif flavour in ("siblings", "nested"):
            u = draw(us.filter(lambda x: bool(nested_roots(x))))
            root = draw(st.sampled_from(nested_roots(u)))
            if flavour == "siblings":
                u = add_siblings(u, root)
        else:
            u = draw(us)
            root = draw(st.integers(0, len(u["roots"]) - 1))
        off = draw(st.integers(0, len(AXES) - 1))
        targets = {}
        j = 0
        for t in TARGETS:
            opts = draw(options(t))
            pairs = []
            for _ in range(n_pairs):
                a = draw(env())
                b = draw(perturbed(a, AXES[(off + j) % len(AXES)]))
                pairs.append([a, b])
                j += 1
            targets[t] = {"opts": opts, "pairs": pairs}
        ctl_t = draw(st.sampled_from(TARGETS))
        return {"u": u, "root": root, "flavour": flavour, "targets": targets, "control": {"target": ctl_t, "env": draw(env())}}

    return case


def axes_of(a: dict, b: dict) -> typing.List[str]:
    out = []
    if a["t"] != b["t"]:
        out.append("clock")
    if a["hs"] != b["hs"]:
        out.append("hashseed")
    if a["inloc"] != b["inloc"]:
        out.append("input-location")
    if a["outloc"] != b["outloc"]:
        out.append("output-location")
    if a["cwd"] != b["cwd"]:
        out.append("cwd")
    if a["spell"] != b["spell"]:
        out.append("spelling")
    if a["proc"] != b["proc"]:
        out.append("in-process")
    if a.get("amb", "clean") != b.get("amb", "clean"):
        out.append("ambient")
    return out


def with_axis(a: dict, b: dict, axis: str) -> dict:
    """Environment A with exactly one axis taken from B."""
    e = copy.deepcopy(a)
    key = {"clock": "t", "hashseed": "hs", "input-location": "inloc", "output-location": "outloc", "cwd": "cwd",
           "spelling": "spell", "in-process": "proc", "ambient": "amb"}[axis]
    e[key] = copy.deepcopy(b.get(key, "clean") if key == "amb" else b[key])
    if axis == "in-process":
        e["warm"] = b["warm"]
    return e


def clock_class(a: dict, b: dict) -> typing.Optional[str]:
    d = abs(a["t"] - b["t"])
    if d == 0:
        return None
    if d < 1:
        return "subsecond"
    if d <= 86400:
        return "seconds"
    if d <= 366 * 86400:
        return "days"
    return "years"


# ===================================================================================================== running the tool
def generated_root(u: dict, root: int) -> dict:
    return u["roots"][root]


def has_nested_namespace(u: dict, root: int) -> bool:
    return any(len(td["ns"]) >= 2 for td in generated_root(u, root)["types"])


def add_siblings(u: dict, root: int) -> dict:
    """
    Puts types of DIFFERENT shape into fresh sibling namespaces next to the first nested type of the generated root: a verbatim
    copy (every reference it makes is to an earlier type, so dependency order and front-end validity are preserved; no fixed
    port-ID), a wrapper that nests that copy (single, fixed array, variable array -- the code generator needs many of its
    per-file unique names for it) and a minimal one-field type.  Which of them the set-ordered walk over the sibling namespaces
    meets first must not show in any file.
    """
    u = copy.deepcopy(u)
    types = u["roots"][root]["types"]
    i = next(k for k, td in enumerate(types) if len(td["ns"]) >= 2)
    used = {c for td in types for c in td["ns"]}
    fresh = [n for n in ("zeta", "omega", "kappa", "sigma", "theta") if n not in used][:3]
    cp = copy.deepcopy(types[i])
    cp["ns"] = cp["ns"][:-1] + [fresh[0]]
    cp["port_id"] = None
    types.insert(i + 1, cp)
    if cp["kind"] != "service":
        ref = {"t": "ref", "full": ".".join(cp["ns"] + [cp["name"]]), "major": cp["major"], "minor": cp["minor"]}

        def fld(name, t):
            return {"k": "field", "type": t, "name": name, "doc": None}

        wrapper = {"ns": cp["ns"][:-1] + [fresh[1]], "name": "Wrap", "major": 1, "minor": 0, "port_id": None, "kind": "struct", "deprecated": bool(cp.get("deprecated")), "doc": [],
                   "body": {"union": False, "sealed": False, "extent_extra": 1, "extent_bits": 8 * 4096,
                            "attrs": [fld("one", ref), fld("two", {"t": "farr", "elem": ref, "n": 2}), fld("many", {"t": "varr", "elem": ref, "cap": 2, "incl": True}),
                                      fld("bytes_", {"t": "varr", "elem": {"t": "uint", "bits": 8, "cast": "saturated"}, "cap": 5, "incl": True})]}}
        types.insert(i + 2, wrapper)
    plain = {"ns": cp["ns"][:-1] + [fresh[2]], "name": "Plain", "major": 1, "minor": 0, "port_id": None, "kind": "struct", "deprecated": False, "doc": [],
             "body": {"union": False, "sealed": True, "extent_extra": 0, "attrs": [{"k": "field", "type": {"t": "uint", "bits": 8, "cast": "saturated"}, "name": "x", "doc": None}]}}
    types.insert(i + 2, plain)
    return u


def has_sibling_namespaces(u: dict, root: int) -> bool:
    """Some namespace of the generated root has >= 2 directly nested namespaces (set-order of siblings can matter)."""
    children: typing.Dict[tuple, set] = {}
    for td in generated_root(u, root)["types"]:
        for d in range(1, len(td["ns"])):
            children.setdefault(tuple(td["ns"][:d]), set()).add(td["ns"][d])
    return any(len(c) >= 2 for c in children.values())


class Layout:
    """Directory layout of one pair below its own scratch directory: everything that is not drawn is identical for A and B."""

    def __init__(self, base: pathlib.Path):
        self.base = pathlib.Path(base)

    def indir(self, e: dict) -> pathlib.Path:
        return self.base / "I" / LOCS[e["inloc"]]

    def outdir(self, e: dict) -> pathlib.Path:
        return self.base / "O" / LOCS[e["outloc"]] / OUTNAME

    def cwd(self, e: dict) -> pathlib.Path:
        k = e["cwd"]
        if k == "in":
            return self.indir(e)
        if k == "out":
            return self.outdir(e).parent
        if k == "neutral":
            return self.base / "N"
        if k == "neutral2":
            return self.base / "N" / "deeper" / "neutral_dir"
        return pathlib.Path("/")


def spell(path: pathlib.Path, cwd: pathlib.Path, how: str) -> str:
    if how == "abs":
        return str(path)
    rel = os.path.relpath(str(path), str(cwd))
    if how == "reldot":
        return "./" + rel + "/"
    return rel


# overrides an existing option AND adds several options / named types that the built-in configuration does not have (templates
# iterate `options` into every header: the order of newly merged keys must not depend on the hash seed)
CONFIG_YAML = (
    "nunavut.lang.{lang}:\n  options:\n    target_endianness: big\n    vendor_alpha: 1\n    vendor_beta: two\n    zz_gamma: true\n"
    "    aa_delta: 4\n    m_epsilon: x\n    vendor_zeta: 0\n  named_types:\n    vf_extra_one: int\n    vf_extra_two: long\n"
)


def build_argv(u: dict, root: int, target: str, opts: dict, e: dict, lay: Layout, outdir: typing.Optional[pathlib.Path] = None,
               indir: typing.Optional[pathlib.Path] = None) -> typing.List[str]:
    cwd = lay.cwd(e)
    ind = indir if indir is not None else lay.indir(e)
    out = outdir if outdir is not None else lay.outdir(e)
    argv = ["--target-language", target, "--experimental-languages", "--allow-unregulated-fixed-port-id"]
    argv += ["--outdir", spell(out, cwd, e["spell"]["out"])]
    for r in u["roots"][:root]:
        argv += ["--lookup-dir", spell(ind / r["name"], cwd, e["spell"]["lookup"])]
    if opts.get("omit"):
        argv += ["--omit-serialization-support"]
    if opts.get("support"):
        argv += ["--generate-support", opts["support"]]
    if opts.get("trim_blocks"):
        argv += ["--trim-blocks"]
    if opts.get("lstrip_blocks"):
        argv += ["--lstrip-blocks"]
    if opts.get("pp_trim"):
        argv += ["--pp-trim-trailing-whitespace"]
    if opts.get("pp_maxlines") is not None:
        argv += ["--pp-max-emptylines", str(opts["pp_maxlines"])]
    if opts.get("ext"):
        argv += ["--output-extension", opts["ext"]]
    if opts.get("ns_stem"):
        argv += ["--namespace-output-stem", opts["ns_stem"]]
    if opts.get("endian"):
        argv += ["--target-endianness", opts["endian"]]
    if opts.get("asserts"):
        argv += ["--enable-serialization-asserts"]
    if opts.get("override_cap"):
        argv += ["--enable-override-variable-array-capacity"]
    if opts.get("std"):
        argv += ["--language-standard", opts["std"]]
    if opts.get("templates"):
        argv += ["--templates", spell(ind / f"tpl_{target}" / "templates", cwd, e["spell"]["root"])]
        if "support" in opts["templates"] and (ind / f"tpl_{target}" / "support").is_dir():
            argv += ["--support-templates", spell(ind / f"tpl_{target}" / "support", cwd, e["spell"]["root"])]
    argv += [spell(ind / u["roots"][root]["name"], cwd, e["spell"]["root"])]
    if opts.get("config"):  # nargs="*": after the positional
        argv += ["--configuration", spell(ind / f"cfg_{target}.yaml", cwd, e["spell"]["root"])]
    return argv


def ensure_inputs(u: dict, lay: Layout, e: dict) -> None:
    from .. import dsdlgen

    ind = lay.indir(e)
    if not ind.exists():
        dsdlgen.materialise(u, ind)
        for t in ("c", "cpp"):
            (ind / f"cfg_{t}.yaml").write_text(CONFIG_YAML.format(lang=t))
        for t in TARGETS:  # verbatim copies of the built-in template sets (option "templates")
            for sub in ("templates", "support"):
                srcd = src_dir() / "nunavut" / "lang" / t / sub
                if srcd.is_dir():
                    shutil.copytree(srcd, ind / f"tpl_{t}" / sub, ignore=shutil.ignore_patterns("__pycache__", "*.pyc"))


def revision_of(u: dict) -> dict:
    """
    An earlier revision of the same namespaces: every type keeps its name, version, kind, port-ID, sealing and extent, but its
    body is flattened -- references to other types (also inside arrays) become uint8, booleans become uint8 and vice versa -- so
    the set of files is the same while dependencies and needed standard headers differ.  What a process generated from it
    earlier must not show in a later run on the current definitions.
    """
    v = copy.deepcopy(u)

    def flat(t: dict) -> dict:
        if t["t"] in ("farr", "varr"):
            return dict(t, elem=flat(t["elem"]))
        if t["t"] == "ref":
            return {"t": "uint", "bits": 8, "cast": "saturated"}
        if t["t"] == "bool":
            return {"t": "uint", "bits": 8, "cast": "saturated"}
        if t["t"] == "uint" and t.get("bits") == 8:
            return {"t": "bool"}
        return t

    for r in v["roots"]:
        for td in r["types"]:
            bodies = [td["body"]] if td["kind"] != "service" else [td["body"]["request"], td["body"]["response"]]
            for b in bodies:
                for a in b["attrs"]:
                    if a["k"] == "field":
                        a["type"] = flat(a["type"])
    return v


RUNS = {"fresh": 0, "second": 0, "second_after_revision": 0, "revision_rejected_by_front_end": 0}
_RUNS_LOCK = threading.Lock()


SRC: typing.Optional[pathlib.Path] = None  # private snapshot of <tree under test>/src for the duration of one campaign


def src_dir() -> pathlib.Path:
    return SRC if SRC is not None else core.REPO / "src"


def tree_fingerprint(base: typing.Optional[pathlib.Path] = None) -> str:
    """Identity of the generator sources (the 'tool version' of the statement)."""
    h = hashlib.sha256()
    base = (base if base is not None else core.REPO / "src") / "nunavut"
    for dirpath, dirnames, filenames in os.walk(base):
        dirnames[:] = sorted(d for d in dirnames if d != "__pycache__")
        for fn in sorted(filenames):
            with open(os.path.join(dirpath, fn), "rb") as f:
                h.update(f"{os.path.relpath(os.path.join(dirpath, fn), base)}:".encode() + hashlib.sha256(f.read()).digest())
    return h.hexdigest()


def snapshot_tree(dst: pathlib.Path) -> str:
    """
    The statement fixes 'the templates ... and the tool version' for both runs of a pair.  A campaign takes minutes and the
    tree under test may receive a commit meanwhile (seen in practice: an identical re-run differed because a template was
    fixed between the two runs), so all runs of one campaign execute a private copy of core.REPO/src taken at the start.
    """
    global SRC
    for _ in range(5):
        before = tree_fingerprint()
        if (dst / "src").exists():
            shutil.rmtree(dst / "src")
        shutil.copytree(core.REPO / "src", dst / "src", ignore=shutil.ignore_patterns("__pycache__"))
        if tree_fingerprint() == before == tree_fingerprint(dst / "src"):
            SRC = dst / "src"
            return before
    raise core.HarnessError(f"cannot take a consistent snapshot of {core.REPO}/src (it keeps changing)")


def run_fresh(argv: typing.List[str], cwd: str, hashseed: str, fake_time: float, ambient: typing.Optional[pathlib.Path] = None) -> typing.Tuple[int, str, str]:
    """Same as tool.run_sub (fresh interpreter through nnvg_wrap.py with the fake clock) but importing nunavut from src_dir()."""
    if SRC is None and ambient is None:
        return tool.run_sub(argv, cwd=cwd, hashseed=hashseed, fake_time=fake_time)
    e = dict(os.environ)
    if ambient is not None:
        for var, sub in (("TMPDIR", "tmp"), ("HOME", "home"), ("XDG_CACHE_HOME", "home/.cache")):
            (ambient / sub).mkdir(parents=True, exist_ok=True)
            e[var] = str(ambient / sub)
        for var in ("TEMP", "TMP"):
            e.pop(var, None)
    e.pop("DSDL_INCLUDE_PATH", None)
    e["PYTHONHASHSEED"] = str(hashseed)
    e["PYTHONDONTWRITEBYTECODE"] = "1"
    e["PYTHONPATH"] = str(src_dir()) if SRC is not None else str(core.REPO / "src")
    cmd = [tool.PY, tool.WRAP, "--fake-time", repr(float(fake_time)), "--"] + [str(a) for a in argv]
    p = subprocess.run(cmd, cwd=cwd, env=e, capture_output=True, text=True, timeout=600)
    return p.returncode, p.stdout, p.stderr


def run_once(u: dict, root: int, target: str, opts: dict, e: dict, lay: Layout) -> dict:
    """One tool run in environment e. Returns rc, stderr tail, {relpath: bytes}, and the literal command for the report."""
    with _RUNS_LOCK:
        RUNS[e["proc"]] += 1
    ensure_inputs(u, lay, e)
    out = lay.outdir(e)
    if out.exists():
        shutil.rmtree(out)
    out.parent.mkdir(parents=True, exist_ok=True)
    cwd = lay.cwd(e)
    cwd.mkdir(parents=True, exist_ok=True)
    argv = build_argv(u, root, target, opts, e, lay)
    if e["proc"] == "fresh":
        with _RUNS_LOCK:
            RUNS["_amb_seq"] = RUNS.get("_amb_seq", 0) + 1
            amb = lay.base / "amb" / str(RUNS["_amb_seq"])
        pre = ""
        if e.get("amb", "clean") == "used":
            # an earlier invocation on this machine: same definitions and target, OTHER options, its own output directory
            other = dict(opts)
            for k_ in ("trim_blocks", "lstrip_blocks", "pp_trim", "asserts"):
                other[k_] = not opts.get(k_)
            other["endian"] = "big" if opts.get("endian") != "big" else "little"
            pre_argv = build_argv(u, root, target, other, e, lay, outdir=amb / "earlier_out")
            prc, _, pse = run_fresh(pre_argv, cwd=str(cwd), hashseed=str(e["hs"]), fake_time=e["t"] - 3600.0, ambient=amb)
            with _RUNS_LOCK:
                k_ = "ambient_earlier_invocation" + ("" if prc == 0 else "_failed")
                RUNS[k_] = RUNS.get(k_, 0) + 1
            shutil.rmtree(amb / "earlier_out", ignore_errors=True)
            pre = f"[after, in the same TMPDIR/HOME: nnvg {' '.join(pre_argv)}] "
        rc, so, se = run_fresh(argv, cwd=str(cwd), hashseed=str(e["hs"]), fake_time=e["t"], ambient=amb)
        shutil.rmtree(amb, ignore_errors=True)
        how = pre + f"fresh process (private empty TMPDIR/HOME{'' if not pre else ' shared with the earlier invocation'}): PYTHONHASHSEED={e['hs']} fake-clock={e['t']!r} cwd={cwd} nnvg " + " ".join(argv)
    else:
        warm_out = lay.base / "W" / OUTNAME
        if warm_out.exists():
            shutil.rmtree(warm_out)
        warm_out.parent.mkdir(parents=True, exist_ok=True)
        wt = e["warm"]
        if wt == "revision":
            rev_in = lay.base / "W" / "rev-inputs"
            if rev_in.exists():
                shutil.rmtree(rev_in)
            from .. import dsdlgen

            rev = revision_of(u)
            dsdlgen.materialise(rev, rev_in)
            for t_ in ("c", "cpp"):
                (rev_in / f"cfg_{t_}.yaml").write_text(CONFIG_YAML.format(lang=t_))
            try:
                dsdlgen.read(rev, rev_in)
                warm_argv = build_argv(rev, root, target, opts, e, lay, outdir=warm_out, indir=rev_in)
                with _RUNS_LOCK:
                    RUNS["second_after_revision"] += 1
            except Exception:  # the flattened bodies are not a valid namespace (e.g. bit-compatibility of minor versions)
                with _RUNS_LOCK:
                    RUNS["revision_rejected_by_front_end"] += 1
                wt = target
                warm_argv = build_argv(u, root, wt, {}, e, lay, outdir=warm_out)
        else:
            warm_argv = build_argv(u, root, wt, {}, e, lay, outdir=warm_out)
        job = {"t": e["t"], "runs": [{"argv": warm_argv, "cwd": str(cwd)}, {"argv": argv, "cwd": str(cwd)}]}
        env = dict(os.environ)
        env.pop("DSDL_INCLUDE_PATH", None)
        env["PYTHONHASHSEED"] = str(e["hs"])
        env["PYTHONDONTWRITEBYTECODE"] = "1"
        env["PYTHONPATH"] = os.pathsep.join([str(src_dir()), str(core.VERIF), str(core.VERIF / ".deps")])
        p = subprocess.run([tool.PY, "-m", "vf.props.c07", "--worker"], input=json.dumps(job), cwd=str(cwd), env=env,
                           capture_output=True, text=True, timeout=600)
        if p.returncode != 0:
            raise core.HarnessError(f"in-process worker died rc={p.returncode}: {p.stderr[-1500:]}")
        res = json.loads(p.stdout.strip().splitlines()[-1])
        if res[0]["rc"] != 0 and e["warm"] == "revision":
            with _RUNS_LOCK:  # the observed run is still a second run in one interpreter
                RUNS["revision_warmup_failed"] = RUNS.get("revision_warmup_failed", 0) + 1
        elif res[0]["rc"] != 0:
            raise core.HarnessError(f"warm-up run failed: nnvg {' '.join(warm_argv)}: {res[0]['err'][-800:]}")
        rc, se = res[1]["rc"], res[1]["err"]
        shutil.rmtree(warm_out, ignore_errors=True)
        how = (f"second run in one interpreter (after {'a run on an earlier revision of the namespace (vf.props.c07.revision_of)' if e['warm'] == 'revision' and wt == 'revision' else 'a ' + wt + ' run'} into {warm_out}): PYTHONHASHSEED={e['hs']} "
               f"fake-clock={e['t']!r} cwd={cwd} nnvg " + " ".join(argv))
    files = tool.tree_files(out) if out.exists() else {}
    if out.exists():
        shutil.rmtree(out)
    return {"rc": rc, "err": se[-1500:], "files": files, "how": how}


def _worker() -> int:
    """Runs several nnvg invocations inside this one interpreter under a fake clock (second-run-in-one-interpreter axis)."""
    from .. import nnvg_wrap

    job = json.loads(sys.stdin.read())
    nnvg_wrap._fake_time(float(job["t"]))
    res = []
    for r in job["runs"]:
        rc, so, se = tool.run_inproc(r["argv"], cwd=r["cwd"])
        res.append({"rc": rc, "err": se[-3000:]})
    sys.stdout.write("\n" + json.dumps(res) + "\n")
    return 0


# ============================================================================================ comparison / classification
BLOB_RE = re.compile(r"_restore_constant_\(\n((?:[ \t]*'[^'\n]*'\n)+)[ \t]*\)")
TYPE_FILE_RE = re.compile(r"_\d+_\d+\.[A-Za-z0-9_]+$")


def file_kind(rel: str, target: str, opts: dict) -> str:
    name = rel.rsplit("/", 1)[-1]
    if rel.startswith("nunavut/support/") or rel == "nunavut_support.py" or name.startswith("nunavut_support."):
        return "support file"
    stem = opts.get("ns_stem") or {"py": "__init__", "html": "index"}.get(target, "_namespace_")
    if name.rsplit(".", 1)[0] == stem and not TYPE_FILE_RE.search(name):
        return "namespace file"
    return "type file"


def _decode_blob(lines_block: str):
    text = "".join(re.findall(r"'([^'\n]*)'", lines_block))
    raw = base64.b85decode(text)
    return raw, gzip.decompress(raw)


def _obj_diff(x, y, attr: str, owner: str, out: typing.Set[typing.Tuple[str, str, bool]], seen: dict, depth: int = 0) -> None:
    """
    Where two unpickled object graphs differ: {(attribute name, module of the object holding it, lazily-filled?)} -- no
    indices, no values.  'lazily-filled' = one side is None and the other is not (a cache that was or was not computed).
    """
    if depth > 80 or len(out) > 16:
        return
    if x is None or y is None or isinstance(x, (str, bytes, int, float, bool, pathlib.PurePath)) or type(x) is not type(y):
        if type(x) is not type(y) or x != y:
            out.add((attr or "<value>", owner, (x is None) != (y is None)))
        return
    key = (id(x), id(y))
    if key in seen:
        return
    seen[key] = (x, y)  # keeps both alive: ids of transient state dicts must not be reused during the walk
    if isinstance(x, (list, tuple)):
        if len(x) != len(y):
            out.add((attr + "<len>", owner, False))
            return
        for a, b in zip(x, y):
            _obj_diff(a, b, attr, owner, out, seen, depth + 1)
        return
    if isinstance(x, dict):
        if list(map(repr, x.keys())) != list(map(repr, y.keys())):
            out.add((attr + ("<key-order>" if sorted(map(repr, x)) == sorted(map(repr, y)) else "<keys>"), owner, False))
            return
        for k in x:
            _obj_diff(x[k], y[k], k if isinstance(k, str) else attr, owner, out, seen, depth + 1)
        return
    if isinstance(x, (set, frozenset)):
        if sorted(map(repr, x)) != sorted(map(repr, y)):
            out.add((attr + "<set>", owner, False))
        return
    st_x = _state_of(x)
    st_y = _state_of(y)
    if st_x is None or st_y is None:
        try:
            if x != y:
                out.add((attr or "<value>", owner, False))
        except Exception:
            if repr(x) != repr(y):
                out.add((attr or "<value>", owner, False))
        return
    _obj_diff(st_x, st_y, attr, type(x).__module__, out, seen, depth + 1)


def _state_of(o) -> typing.Optional[dict]:
    d = {}
    if hasattr(o, "__dict__"):
        d.update(vars(o))
    for cls in type(o).__mro__:
        for s in getattr(cls, "__slots__", ()) or ():
            if isinstance(s, str) and hasattr(o, s):
                d[s] = getattr(o, s)
    if not d and not hasattr(o, "__dict__"):
        return None
    return d


def classify_blob(block_a: str, block_b: str) -> typing.List[typing.Tuple[str, str]]:
    """[(construct class, detail)] for a pair of differing _MODEL_ blobs."""
    try:
        raw_a, pk_a = _decode_blob(block_a)
        raw_b, pk_b = _decode_blob(block_b)
    except Exception as ex:  # not decodable: report as such (the generated module would not import either)
        return [("_MODEL_-blob:undecodable", f"{type(ex).__name__}: {ex}")]
    res = []
    if raw_a[:4] != raw_b[:4] or raw_a[8:10] != raw_b[8:10]:
        res.append(("_MODEL_-blob:gzip-header-other", f"{raw_a[:10].hex()} vs {raw_b[:10].hex()}"))
    if raw_a[4:8] != raw_b[4:8]:
        res.append(
            (
                "_MODEL_-blob:gzip-header-mtime",
                f"gzip header MTIME bytes {raw_a[4:8].hex()} (={int.from_bytes(raw_a[4:8], 'little')}) vs "
                f"{raw_b[4:8].hex()} (={int.from_bytes(raw_b[4:8], 'little')})",
            )
        )
    if pk_a != pk_b:
        try:
            oa, ob = pickle.loads(pk_a), pickle.loads(pk_b)
        except Exception as ex:
            raise core.HarnessError(f"cannot unpickle a _MODEL_ blob (pydsdl importable?): {type(ex).__name__}: {ex}")
        found: typing.Set[typing.Tuple[str, str, bool]] = set()
        _obj_diff(oa, ob, "", type(oa).__module__, found, {})
        lazy = sorted(f for f in found if f[2])
        plain = sorted(f for f in found if not f[2])
        if plain:
            attrs = sorted({f[0] for f in plain})
            detail = _first_value_diff(oa, ob, attrs[0])
            res.append((f"_MODEL_-blob:pickled-attribute({','.join(attrs)})", f"unpickled models differ at attributes {attrs}; {detail}"))
        if lazy:
            owners = sorted({f[1] for f in lazy})
            res.append(
                (
                    f"_MODEL_-blob:pickled-lazy-cache-state({','.join(owners)})",
                    f"lazily computed attributes {sorted({f[0] for f in lazy})} of objects from {owners} are None in one pickle and "
                    f"filled in the other ({len(pk_a)} vs {len(pk_b)} pickle bytes): the pickled model carries cache state",
                )
            )
        if not found:
            res.append(("_MODEL_-blob:pickle-bytes-differ-objects-equal", f"pickle streams differ ({len(pk_a)} vs {len(pk_b)} bytes), object graphs equal"))
    elif raw_a[10:] != raw_b[10:] and not res:
        res.append(("_MODEL_-blob:deflate-stream", "identical pickle, different compressed stream"))
    return res


def _first_value_diff(oa, ob, attr: str) -> str:
    name = attr.strip("<>")
    for o1, o2 in ((oa, ob),):
        v1, v2 = getattr(o1, name, None), getattr(o2, name, None)
        if v1 is None and name.startswith("_"):
            v1, v2 = getattr(o1, name[1:], None), getattr(o2, name[1:], None)
        if v1 is not None and v1 != v2:
            return f"{name}: {str(v1)[:160]!r} vs {str(v2)[:160]!r}"
    return ""


PATH_RE = re.compile(r"(?<![\w.])/(?:[\w.+\-]+/)+[\w.+\-]*")
STR_RE = re.compile(r'"[^"\n]*"|\'[^\'\n]*\'')
NUM_RE = re.compile(r"\b0x[0-9A-Fa-f]+\b|\b\d+(?:\.\d+)?\b")
TS_RE = re.compile(r"\d{4}-\d\d-\d\d[ T]\d\d:\d\d:\d\d(?:\.\d+)?")
WORD_RE = re.compile(r"[A-Za-z_][A-Za-z0-9_]*")
UNIQ_RE = re.compile(r"(?<![A-Za-z0-9])_[A-Za-z]+(?:_[A-Za-z]+)*[0-9]+(?:_[0-9]+)?_(?![A-Za-z0-9])")  # _err3_, _size_bytes12_


def universe_names(u: dict) -> typing.Set[str]:
    names: typing.Set[str] = set()
    for r in u["roots"]:
        names.add(r["name"])
        for td in r["types"]:
            names.update(td["ns"])
            names.add(td["name"])
            bodies = [td["body"]] if td["kind"] != "service" else [td["body"]["request"], td["body"]["response"]]
            for b in bodies:
                for a in b["attrs"]:
                    if "name" in a:
                        names.add(a["name"])
    return {n.strip("_").lower() for n in names}


def normalise_line(line: str, names: typing.Set[str]) -> str:
    """Shape of a line with everything that depends on the drawn universe / paths / numbers masked."""
    s = line.strip()
    s = TS_RE.sub("<TIMESTAMP>", s)
    s = UNIQ_RE.sub("<U>", s)
    s = PATH_RE.sub("<PATH>", s)
    s = STR_RE.sub("<STR>", s)
    s = NUM_RE.sub("<N>", s)

    def word(m):
        w = m.group(0)
        parts = [p for p in w.lower().split("_") if p]
        if parts and all(p in names or p.isdigit() or p in ("request", "response") for p in parts):
            return "<ID>"
        return w

    s = WORD_RE.sub(word, s)
    s = re.sub(r"(<ID>[.:/]*)+", "<ID>", s)
    s = re.sub(r"\s+", " ", s)
    return s[:90]


HTML_UNIQ_RE = re.compile(r"(?<=[\w.])\d+(?=[\"'_)])")  # html tag ids: "<tag_id><n>"


def anchor(shape: str) -> str:
    """Coarse, universe-independent head of a normalised line: enough to tell constructs apart, not every line."""
    toks = shape.split(" ")
    out = ""
    for t in toks[:4]:
        if len(out) + len(t) > 36:
            break
        out = (out + " " + t).strip()
    return out or shape[:36]


def classify_line(target: str, la: typing.Optional[str], lb: typing.Optional[str], ctx_before: typing.List[str], names: typing.Set[str]) -> typing.Tuple[str, bool]:
    """(construct class, is_specific). Specific = a recogniser for a named construct fired; otherwise a generic class."""
    line = la if la is not None else lb
    assert line is not None
    st = line.strip()
    if TS_RE.search(st) and "Generated at" in st:
        return "Generated-at-timestamp", True
    if re.match(r"^(//|#)\s*Source file\s*:", st):
        return "Source-file-comment", True
    if target in ("c", "cpp") and ".dsdl" in st and st.startswith('"'):
        if any(l.lstrip().startswith("static_assert(") for l in ctx_before[-3:]):
            return "static_assert-message-with-source-path", True
    if la is not None and lb is not None:
        if la != lb and UNIQ_RE.sub("<U>", la) == UNIQ_RE.sub("<U>", lb):
            return "template-unique-name-index", True
        if target == "html" and HTML_UNIQ_RE.sub("<U>", la) == HTML_UNIQ_RE.sub("<U>", lb):
            return "template-unique-name-index", True
    if la is None or lb is None:
        return "line-only-in-one-run:" + anchor(normalise_line(line, names)), False
    na, nb = normalise_line(la, names), normalise_line(lb, names)
    if na == nb:
        # same shape, masked parts differ: say which kind of masked part
        if TS_RE.search(la) or TS_RE.search(lb):
            return "timestamp-in:" + anchor(na), False
        if PATH_RE.search(la) or PATH_RE.search(lb):
            return "path-in:" + anchor(na), False
        return "value-in:" + anchor(na), False
    return "line:" + anchor(na), False


def moved_shape(line: str, names: typing.Set[str], target: str = "") -> typing.Tuple[str, bool]:
    st = line.strip()
    if target == "html":
        return "reordered-lines:html-markup", True
    if st.startswith("#include"):
        return "reordered-lines:#include-directives", True
    if re.match(r"^(import|from)\s", st):
        return "reordered-lines:import-statements", True
    if UNIQ_RE.search(st):
        return "template-unique-name-index", True
    return "reordered-lines:" + anchor(normalise_line(line, names)), False


MAX_GENERIC_PER_FILE = 2


def diff_text(target: str, a: str, b: str, names: typing.Set[str]) -> typing.List[typing.Tuple[str, str]]:
    """
    [(construct class, detail)] for two differing texts (blobs already masked): one entry per distinct class.  Every
    differing line is looked at, so a second defect behind an already reported line of the same file is still seen;
    lines no recogniser knows fall into generic classes (coarse shape), at most MAX_GENERIC_PER_FILE per file so that one
    unknown root cause does not explode into one signature per line.
    """
    import collections

    la, lb = a.splitlines(), b.splitlines()
    res: typing.List[typing.Tuple[str, str]] = []
    seen: typing.Set[str] = set()
    generic = [0]

    def add(cls_spec: typing.Tuple[str, bool], detail: str) -> None:
        cls, specific = cls_spec
        if cls in seen:
            return
        if not specific:
            if generic[0] >= MAX_GENERIC_PER_FILE:
                return
            generic[0] += 1
        seen.add(cls)
        res.append((cls, detail))

    ops = [op for op in difflib.SequenceMatcher(a=la, b=lb, autojunk=False).get_opcodes() if op[0] != "equal"]
    removed = collections.Counter(l for _, i1, i2, _, _ in ops for l in la[i1:i2])
    added = collections.Counter(l for _, _, _, j1, j2 in ops for l in lb[j1:j2])
    # the same line left one place and appeared at another (bare punctuation such as "{" / "}" does not count)
    moved = {l for l in (removed & added) if len(re.findall(r"[A-Za-z0-9]", l)) >= 3}
    for l in sorted(moved, key=la.index):
        add(moved_shape(l, names, target), f"{l!r} is at line {la.index(l) + 1} in A and at line {lb.index(l) + 1} in B")
    for tag, i1, i2, j1, j2 in ops:
        blk_a = [(i, la[i]) for i in range(i1, i2) if la[i] not in moved]
        blk_b = [(j, lb[j]) for j in range(j1, j2) if lb[j] not in moved]
        if len(blk_a) == len(blk_b):
            pairs = [(x, y) for x, y in zip(blk_a, blk_b)]
        else:
            pairs = [(x, None) for x in blk_a] + [(None, y) for y in blk_b]
        for x, y in pairs:
            if x is not None:
                before = la[max(0, x[0] - 3): x[0]]
            else:
                before = lb[max(0, y[0] - 3): y[0]]
            cls = classify_line(target, x[1] if x else None, y[1] if y else None, before, names)
            add(cls, f"line {(x or y)[0] + 1}: {x[1] if x else None!r} vs {y[1] if y else None!r}")
    return res


def compare(target: str, opts: dict, ra: dict, rb: dict, names: typing.Set[str]) -> typing.Dict[typing.Tuple[str, str], str]:
    """{(file kind, construct class): detail} -- every distinct difference between two runs (empty = reproducible)."""
    out: typing.Dict[typing.Tuple[str, str], str] = {}
    if ra["rc"] != rb["rc"]:
        out[("run", "exit-status-differs")] = f"rc {ra['rc']} vs {rb['rc']}; stderr A: {ra['err'][-300:]!r}; stderr B: {rb['err'][-300:]!r}"
        return out
    fa, fb = ra["files"], rb["files"]
    for rel in sorted(set(fa) ^ set(fb)):
        k = (file_kind(rel, target, opts), "output-path-only-in-one-run")
        out.setdefault(k, f"{rel} generated only by run {'A' if rel in fa else 'B'}")
    for rel in sorted(set(fa) & set(fb)):
        if fa[rel] == fb[rel]:
            continue
        kind = file_kind(rel, target, opts)
        ta, tb = fa[rel].decode("utf-8", "replace"), fb[rel].decode("utf-8", "replace")
        if target == "py" and kind == "type file":
            ba, bb = BLOB_RE.findall(ta), BLOB_RE.findall(tb)
            if len(ba) == len(bb) and ba:
                for x, y in zip(ba, bb):
                    if x != y:
                        for cls, detail in classify_blob(x, y):
                            out.setdefault((kind, cls), f"{rel}: {detail}")
                cnt = [0, 0]

                def mask(m, i):
                    cnt[i] += 1
                    return f"_restore_constant_(<MODEL-BLOB-{cnt[i]}>)"

                ta = BLOB_RE.sub(lambda m: mask(m, 0), ta)
                tb = BLOB_RE.sub(lambda m: mask(m, 1), tb)
                if ta == tb:
                    continue
        found = diff_text(target, ta, tb, names)
        if not found:
            found = [("bytes-differ-lines-equal", f"{hashlib.sha256(fa[rel]).hexdigest()[:12]} vs {hashlib.sha256(fb[rel]).hexdigest()[:12]} (line terminators / encoding)")]
        for cls, detail in found:
            out.setdefault((kind, cls), f"{rel}: {detail}")
    return out


# ================================================================================================== one pair, end to end
def check_pair(u: dict, root: int, target: str, opts: dict, a: dict, b: dict, scratch: pathlib.Path) -> dict:
    """
    Runs A and B, compares; on differences attributes each (kind, construct) to an axis by single-axis re-runs of A.
    Returns {"findings": [(signature, what)], "rejected": bool, "hows": [...]}.
    """
    lay = Layout(scratch)
    names = universe_names(u)
    try:
        ra = run_once(u, root, target, opts, a, lay)
        rb = run_once(u, root, target, opts, b, lay)
        rejected = ra["rc"] != 0 and rb["rc"] != 0
        d_ab = compare(target, opts, ra, rb, names)
        findings: typing.List[typing.Tuple[str, str]] = []
        if d_ab:
            axes = axes_of(a, b)
            per_axis: typing.Dict[str, dict] = {}
            hows: typing.Dict[str, str] = {}
            if len(axes) == 1:
                per_axis[axes[0]] = d_ab
                hows[axes[0]] = rb["how"]
            else:
                for ax in axes:
                    rk = run_once(u, root, target, opts, with_axis(a, b, ax), lay)
                    per_axis[ax] = compare(target, opts, ra, rk, names)
                    hows[ax] = rk["how"]
            # identical re-run of A: run-to-run nondeterminism (id()/ASLR, real clock ...) must not be attributed to an axis.
            # Needed only for a construct that differs under EVERY single-axis change (or when there is just one / no axis).
            d_00: typing.Dict[typing.Tuple[str, str], str] = {}
            if not axes:
                d_00 = d_ab
            elif any(all(k in per_axis[ax] for ax in axes) for k in d_ab):
                r0 = run_once(u, root, target, opts, a, lay)
                d_00 = compare(target, opts, ra, r0, names)
            for (kind, cls), detail in sorted(d_ab.items()):
                if (kind, cls) in d_00:
                    findings.append(
                        (
                            f"{target}|{kind}|{cls}|axis=none(identical-rerun)",
                            f"two runs in the SAME environment differ. {d_00[(kind, cls)]}\n  run: {ra['how']}",
                        )
                    )
                    continue
                hit = [ax for ax in axes if (kind, cls) in per_axis[ax]]
                if not hit:
                    findings.append(
                        (
                            f"{target}|{kind}|{cls}|axis=interaction({'+'.join(axes)})",
                            f"{detail}\n  run A: {ra['how']}\n  run B: {rb['how']}\n  (no single-axis change of A reproduces it)",
                        )
                    )
                for ax in hit:
                    findings.append(
                        (
                            f"{target}|{kind}|{cls}|axis={ax}",
                            f"{per_axis[ax][(kind, cls)]}\n  run A: {ra['how']}\n  run B (A with only {ax} changed): {hows[ax]}",
                        )
                    )
        return {"findings": findings, "rejected": rejected, "err": ra["err"] if rejected else ""}
    finally:
        shutil.rmtree(scratch, ignore_errors=True)


# ================================================================================================================ driver
def draw_cases(ctx: core.Ctx, flavour: str, n: int, n_pairs: int, seed_offset: int) -> typing.List[dict]:
    """Cases are drawn up front by Hypothesis (seeded, generate phase only); execution is parallel afterwards."""
    import hypothesis
    from hypothesis import given

    cases: typing.List[dict] = []
    strat = _strategies()(flavour, n_pairs)

    @hypothesis.seed(ctx.seed * 1000003 + seed_offset)
    @core.hsettings(n)
    @given(strat)
    def collect(c):
        if len(cases) < n:
            cases.append(c)

    collect()
    if len(cases) < n:
        raise core.HarnessError(f"Hypothesis produced only {len(cases)} of {n} '{flavour}' cases")
    return cases


FLAVOURS = [("lookup", 3), ("siblings", 3), ("nested", 2), ("any", 2)]  # shares of every 10 universes


MINI_U = {
    "roots": [
        {
            "name": "rootns",
            "types": [
                {
                    "ns": ["rootns", "sub"], "name": "A", "major": 1, "minor": 0, "port_id": None, "kind": "struct",
                    "deprecated": False, "doc": [],
                    "body": {"union": False, "sealed": True, "extent_extra": 0,
                             "attrs": [{"k": "field", "type": {"t": "uint", "bits": 8, "cast": "saturated"}, "name": "a", "doc": None}]},
                }
            ],
        }
    ]
}


def _t(ns, name, union, attrs, extra=0):
    return {"ns": ns, "name": name, "major": 1, "minor": 0, "port_id": None, "kind": "union" if union else "struct", "deprecated": False,
            "doc": [], "body": {"union": union, "sealed": False, "extent_extra": extra, "attrs": attrs}}


def _f(t, n):
    return {"k": "field", "type": t, "name": n, "doc": None}


# Fixed corpus (runs in every campaign next to the generated universes): a dependency chain ACROSS sibling namespaces,
# r.q.T -> r.p.B -> r.C.  Found by the thorough tier (1 of ~1100 hash-seed pairs) and reduced by delta debugging: whether
# r.p is generated before r.q follows the hash order of a set, and that order is visible in T's output.
CORPUS_U = {
    "roots": [
        {
            "name": "r",
            "types": [
                _t(["r"], "C", False, [], extra=64),
                _t(["r", "p"], "B", True, [_f({"t": "varr", "elem": {"t": "float", "bits": 32, "cast": "saturated"}, "cap": 9, "incl": True}, "v"),
                                           _f({"t": "ref", "full": "r.C", "major": 1, "minor": 0}, "c")]),
                _t(["r", "q"], "T", True, [_f({"t": "ref", "full": "r.p.B", "major": 1, "minor": 0}, "b"),
                                           _f({"t": "varr", "elem": {"t": "utf8"}, "cap": 256, "incl": True}, "s")]),
                # a type with very many members: whatever is embedded per type (e.g. the serialized model in Python modules) is
                # far larger than for the small generated types, and size-dependent paths of the generator are taken
                _t(["r"], "Wide", False, [_f({"t": "varr", "elem": {"t": "uint", "bits": 8 + (i % 3) * 8, "cast": "saturated"}, "cap": 3 + i % 5, "incl": True}, f"m{i}") for i in range(96)], extra=8),
            ],
        }
    ]
}


# Second fixed corpus: one type depending on MANY types that tie under the usual normalising sort keys (equal short names in
# sibling namespaces, names and namespaces that differ only in leading zeros of a digit run, equal lengths, several versions).
# Whatever order is emitted for them must not come from the iteration order of a set (seeded change C07-E).
def _ties_universe() -> dict:
    u8 = {"t": "uint", "bits": 8, "cast": "saturated"}
    deps = [(["zoo", "v1"], "Cfg"), (["zoo", "v01"], "Cfg"), (["zoo", "v001"], "Cfg"), (["zoo", "v10"], "Cfg"), (["zoo", "v2"], "Cfg"), (["zoo"], "Sensor1"), (["zoo"], "Sensor01"),
            (["zoo"], "Sensor10"), (["zoo"], "Sensor2"), (["zoo", "a"], "Item"), (["zoo", "b"], "Item"), (["zoo", "c"], "Item"), (["zoo"], "Aa"), (["zoo"], "Bb"), (["zoo"], "Cc")]
    types = [_t(ns, n, False, [_f(u8, "x")]) for ns, n in deps]
    for major, minor in ((1, 1), (2, 0)):
        types.append(dict(_t(["zoo"], "Aa", False, [_f(u8, "x")]), major=major, minor=minor))
    refs = [{"t": "ref", "full": ".".join(ns + [n]), "major": 1, "minor": 0} for ns, n in deps] + [{"t": "ref", "full": "zoo.Aa", "major": 1, "minor": 1}, {"t": "ref", "full": "zoo.Aa", "major": 2, "minor": 0}]
    types.append(_t(["zoo"], "Hub", False, [_f(r, f"f{i}") for i, r in enumerate(refs)], extra=8))
    types.append(_t(["zoo", "deep"], "HubU", True, [_f(r, f"f{i}") for i, r in enumerate(reversed(refs))], extra=8))
    return {"roots": [{"name": "zoo", "types": types}]}


TIES_U = _ties_universe()


def ties_case() -> dict:
    a0 = {"t": 1700000000.0, "hs": 0, "inloc": 0, "outloc": 0, "cwd": "neutral", "spell": {"root": "abs", "out": "abs", "lookup": "abs"},
          "proc": "fresh", "warm": "c"}
    pairs = [[copy.deepcopy(a0), dict(copy.deepcopy(a0), hs=hs)] for hs in (1, 2, 3, 4, 5, 6, 7, 12345)]
    return {"u": TIES_U, "root": 0, "flavour": "corpus-ties",
            "targets": {t: {"opts": {}, "pairs": copy.deepcopy(pairs)} for t in TARGETS},
            "control": {"target": "c", "env": copy.deepcopy(a0)}}


def corpus_case() -> dict:
    a0 = {"t": 1700000000.0, "hs": 0, "inloc": 0, "outloc": 0, "cwd": "neutral", "spell": {"root": "abs", "out": "abs", "lookup": "abs"},
          "proc": "fresh", "warm": "c"}
    pairs = []
    for hs in (1, 12345):  # hash seeds 0 / 1 order the sibling namespaces {p, q} differently (CPython 3.12 str hash)
        pairs.append([copy.deepcopy(a0), dict(copy.deepcopy(a0), hs=hs)])
    pairs.append([copy.deepcopy(a0), dict(copy.deepcopy(a0), hs=1, t=a0["t"] + 86401.0, inloc=1, cwd="in")])
    pairs.append([copy.deepcopy(a0), dict(copy.deepcopy(a0), t=a0["t"] + 2.0)])  # nothing but the clock (seconds apart)
    return {"u": CORPUS_U, "root": 0, "flavour": "corpus",
            "targets": {t: {"opts": {}, "pairs": copy.deepcopy(pairs)} for t in TARGETS},
            "control": {"target": "py", "env": copy.deepcopy(a0)}}


def minimise(sig: str, rep: dict, scratch_root: pathlib.Path) -> typing.Optional[typing.Tuple[dict, str]]:
    """Cheap targeted reduction: single-axis pair, canonical one-type universe, default options -- first candidate that
    still yields exactly this signature wins. Returns (case, what) or None (keep the original)."""
    axis = sig.rsplit("|axis=", 1)[-1]
    cands = []
    if axis in AXES:
        b1 = with_axis(rep["a"], rep["b"], axis)
        a0 = {"t": 1700000000.0, "hs": 0, "inloc": 0, "outloc": 0, "cwd": "neutral", "spell": {"root": "abs", "out": "abs", "lookup": "abs"},
              "proc": "fresh", "warm": rep["target"]}
        b0 = copy.deepcopy(a0)
        if axis == "clock":
            b0["t"] = a0["t"] + abs(rep["b"]["t"] - rep["a"]["t"])
        elif axis == "hashseed":
            b0["hs"] = rep["b"]["hs"] if rep["b"]["hs"] != 0 else rep["a"]["hs"]
        elif axis == "input-location":
            b0["inloc"] = 1
        elif axis == "output-location":
            b0["outloc"] = 1
        elif axis == "cwd":
            a0["spell"] = b0["spell"] = copy.deepcopy(rep["a"]["spell"])
            a0["cwd"], b0["cwd"] = rep["a"]["cwd"], rep["b"]["cwd"]
        elif axis == "spelling":
            a0["spell"], b0["spell"] = copy.deepcopy(rep["a"]["spell"]), copy.deepcopy(rep["b"]["spell"])
        elif axis == "in-process":
            b0["proc"] = "second"
            b0["warm"] = rep["b"]["warm"] if rep["b"]["proc"] == "second" else rep["a"]["warm"]
        cands.append(dict(rep, u=MINI_U, root=0, opts={}, a=a0, b=b0))
        cands.append(dict(rep, u=MINI_U, root=0, a=a0, b=b0))
        cands.append(dict(rep, u=MINI_U, root=0, opts={}, b=b1))
        cands.append(dict(rep, u=MINI_U, root=0, b=b1))
        cands.append(dict(rep, opts={}, b=b1))
        if b1 != rep["b"]:
            cands.append(dict(rep, b=b1))
    else:
        cands.append(dict(rep, u=MINI_U, root=0, opts={}))
        cands.append(dict(rep, u=MINI_U, root=0))
    for c in cands:
        r = check_pair(c["u"], c["root"], c["target"], c["opts"], c["a"], c["b"], pathlib.Path(tempfile.mkdtemp(prefix="m", dir=scratch_root)))
        for s, what in r["findings"]:
            if s == sig:
                return c, what
    return None


def run(ctx: core.Ctx):
    global SRC
    ctx.rule = (
        "case = (dsdlgen universe, generated root, target in {c,cpp,py,html}, option set with auditing off, pair of run "
        "environments A/B differing in a drawn subset of {clock, hashseed, input-location, output-location, cwd, spelling, "
        "in-process}); evaluated = one compared pair; non-trivial = pair differing in >=2 axes incl. a location or the clock "
        "AND generated root namespace with >=1 nested namespace AND both runs succeeded; distinct by hash of "
        "(universe, root, target, options, A, B)"
    )
    ctx.assumptions = [
        "the fake clock (nnvg_wrap) replaces time.time/time_ns and datetime.now/utcnow/today; it is constant during one run",
        "PYTHONHASHSEED=random is represented by a Hypothesis-drawn 32-bit seed (no RNG outside Hypothesis)",
        "'second run inside one interpreter' = worker interpreter doing a warm-up run of a drawn target into a scratch outdir, "
        "then the observed run (both through vf.tool.run_inproc)",
        "every run starts from an empty output directory (regeneration over existing output is C12)",
        "relative spellings are computed with os.path.relpath from the run's cwd; they name the same directories",
        "file mtimes/modes are not compared (content and relative paths only, as the statement says)",
        "all runs of one campaign import nunavut (and its templates) from a private copy of <tree under test>/src taken at the "
        "start, so that a commit landing in the tree mid-campaign cannot masquerade as nondeterminism",
    ]
    n_univ, n_pairs = (10, 3) if ctx.quick else (80, 8)
    cases: typing.List[dict] = []
    for k, (flavour, share) in enumerate(FLAVOURS):
        cases += draw_cases(ctx, flavour, n_univ * share // 10, n_pairs, seed_offset=7 + k)
    cases.append(corpus_case())
    cases.append(ties_case())
    from .. import dsdlgen

    with tempfile.TemporaryDirectory(prefix="vf-c07-fe-") as td:  # generator soundness: the real front end accepts every universe
        for i, c in enumerate(cases):
            try:
                dsdlgen.read(c["u"], dsdlgen.materialise(c["u"], pathlib.Path(td) / f"u{i}")[0].parent)
            except Exception as ex:
                raise core.HarnessError(f"generated universe #{i} ({c['flavour']}) rejected by pydsdl: {type(ex).__name__}: {ex}")
    scratch_root = pathlib.Path(tempfile.mkdtemp(prefix="vf-c07-"))
    fp0 = snapshot_tree(scratch_root / "tree")
    ctx.extra["tree_fingerprint"] = fp0[:16]
    jobs = []  # (meta, args)
    for ci, c in enumerate(cases):
        for t in TARGETS:
            for a, b in c["targets"][t]["pairs"]:
                jobs.append({"ci": ci, "u": c["u"], "root": c["root"], "target": t, "opts": c["targets"][t]["opts"], "a": a, "b": b, "control": False})
        ctl = c["control"]
        jobs.append({"ci": ci, "u": c["u"], "root": c["root"], "target": ctl["target"], "opts": c["targets"][ctl["target"]]["opts"],
                     "a": ctl["env"], "b": copy.deepcopy(ctl["env"]), "control": True})
    try:
        def work(ij):
            i, j = ij
            return check_pair(j["u"], j["root"], j["target"], j["opts"], j["a"], j["b"], scratch_root / f"p{i}")

        with ThreadPoolExecutor(max_workers=JOBS) as ex:
            results = list(ex.map(work, list(enumerate(jobs))))
        ctx.extra["tool_pairs"] = len(jobs)
        ctx.extra["tool_runs_main_phase"] = dict(RUNS)
        if SRC is None or tree_fingerprint(SRC) != fp0:
            raise core.HarnessError("the private snapshot of the tree under test changed during the campaign")

        rejected = 0
        first_rep: typing.Dict[str, dict] = {}
        for j, r in zip(jobs, results):
            axes = axes_of(j["a"], j["b"])
            nested = has_nested_namespace(j["u"], j["root"])
            rep = {k: j[k] for k in ("u", "root", "target", "opts", "a", "b")}
            classes = ["target." + j["target"], "pair.control" if j["control"] else f"pair.axes={len(axes)}", "flavour." + cases[j["ci"]]["flavour"]]
            classes += ["axis." + ax for ax in axes]
            cc = clock_class(j["a"], j["b"])
            if cc:
                classes.append("clock.delta." + cc)
            if "hashseed" in axes and (j["a"]["hs"] not in HASHSEEDS or j["b"]["hs"] not in HASHSEEDS):
                classes.append("hashseed.random")
            classes.append("universe.nested" if nested else "universe.flat")
            if has_sibling_namespaces(j["u"], j["root"]):
                classes.append("universe.sibling_namespaces")
                if "hashseed" in axes:
                    classes.append("universe.sibling_namespaces+axis.hashseed")
            if len(j["u"]["roots"]) > 1:
                classes.append("universe.multi_root")
                if j["root"] > 0:
                    classes.append("universe.lookup_dir_used")
            for o in sorted(j["opts"]):
                classes.append(f"opt.{o}" + (f"={j['opts'][o]}" if o in ("support", "std", "endian") else ""))
            if not j["opts"]:
                classes.append("opt.<defaults>")
            for f in dsdlgen.features({"roots": [generated_root(j["u"], j["root"])]}):
                if f.startswith("kind."):
                    classes.append("universe." + f)
            if r["rejected"]:
                rejected += 1
                classes.append("run.rejected-by-tool")
            if r["findings"]:
                classes.append("pair.differs")
            nontrivial = (
                not j["control"] and not r["rejected"] and nested and len(axes) >= 2
                and any(ax in axes for ax in ("clock", "input-location", "output-location"))
            )
            ctx.case(
                rep, nontrivial,
                sample={"target": j["target"], "opts": j["opts"], "axes": axes, "A": j["a"], "B": j["b"],
                        "types": [".".join(td["ns"] + [td["name"]]) for td in generated_root(j["u"], j["root"])["types"]]},
                classes=classes,
            )
            for sig, what in r["findings"]:
                ctx.fail(sig, what, rep)
                first_rep.setdefault(sig, rep)
        ctx.extra["rejected_by_tool"] = rejected
        if rejected > len(jobs) // 5:
            bad = next(r for r in results if r["rejected"])
            raise core.HarnessError(f"{rejected}/{len(jobs)} pairs rejected by the tool, e.g.: {bad['err'][-600:]}")

        # minimal replays (bounded: one cheap reduction per signature that is not a listed known finding)
        if not os.environ.get("VF_NO_SHRINK"):
            todo = [s for s in ctx.failures if not ctx.is_known(s)][:16]
            with ThreadPoolExecutor(max_workers=JOBS) as ex:
                mins = list(ex.map(lambda s: minimise(s, first_rep[s], scratch_root), todo))
            ctx.extra["tool_runs_total"] = dict(RUNS)
            for s, m in zip(todo, mins):
                if m is not None:
                    ctx.set_min_replay(s, m[1], m[0])
        ctx.extra["tree_under_test_changed_during_run"] = tree_fingerprint()[:16] != ctx.extra["tree_fingerprint"]
    finally:
        SRC = None
        shutil.rmtree(scratch_root, ignore_errors=True)

    q = ctx.quick
    for t in TARGETS:
        ctx.require("target." + t, 25 if q else 500)
    for ax in AXES:
        ctx.require("axis." + ax, 25 if q else 500)
    for cc in CLOCK_DELTAS:
        ctx.require("clock.delta." + cc, 4 if q else 80)
    ctx.require("hashseed.random", 10 if q else 200)
    ctx.require("universe.nested", 90 if q else 1800)
    ctx.require("universe.lookup_dir_used", 30 if q else 600)
    ctx.require("universe.sibling_namespaces", 30 if q else 600)
    ctx.require("universe.sibling_namespaces+axis.hashseed", 5 if q else 100)
    ctx.require("universe.kind.service", 10 if q else 200)
    ctx.require("universe.kind.union", 10 if q else 200)
    ctx.require("opt.<defaults>", 4 if q else 80)
    ctx.require("pair.control", n_univ)
    ctx.require("flavour.corpus", 12)
    ctx.require("flavour.corpus-ties", 32)


def replay(ctx: core.Ctx, case):
    scratch = pathlib.Path(tempfile.mkdtemp(prefix="vf-c07-"))
    try:
        r = check_pair(case["u"], case["root"], case["target"], case["opts"], case["a"], case["b"], scratch / "p0")
        return r["findings"]
    finally:
        shutil.rmtree(scratch, ignore_errors=True)


if __name__ == "__main__":
    if sys.argv[1:2] == ["--worker"]:
        sys.exit(_worker())
