"""
C09 -- identifier stropping always yields valid, unreserved, deterministic identifiers.

Observed at : Language.filter_id(instance, id_type) of the c / cpp / py language objects (return value or exception).
Domain      : * every string of length <= L over SIGMA (17 characters: letters, E, digits, underscore, space, tab,
                punctuation, three non-ASCII code points), enumerated exhaustively in 16 processes;
              * every configured reserved identifier of every language (Python: + keyword.kwlist + dir(builtins)) and an
                instance of every configured reserved pattern, each with prefix/suffix/case/whitespace variants;
              * Hypothesis: st.text() up to 40 chars, SIGMA-texts, concatenations of reserved fragments, from_regex()
                instances of the configured patterns;
              x id_type {any, path, macro, typedef, function, enum} x language {c, cpp, py};
              * a sub-campaign with stropping_prefix / stropping_suffix / encoding_prefix overridden by strings of identifier
                characters (fixed grid in the pool + Hypothesis-drawn configurations).
Oracle      : the configuration is read *independently* from src/nunavut/lang/properties.yaml (+ the override).
  (a) grammar   C/C++: [A-Za-z_][A-Za-z0-9_]*; Python: str.isidentifier(), and ASCII-only as long as the configured encoding
                rules replace every character outside [a-zA-Z0-9_] (decided from the configuration at model build).
  (b) reserved  token not in the configured reserved identifiers (Python: + keywords + builtins, as lang/py documents) and no
                configured reserved pattern of 'all' or of the id_type matches ('any' = the patterns of every type, as
                TokenEncoder documents: "such that it could be any kind of identifier").
  (c) compiler  every distinct returned token that passed (a) and (b) is declared as variable, typedef, function, enumerator,
                tag, member, label/namespace/template parameter and macro name in generated translation units (each token
                in its own scope; one line-group per token so that diagnostics map back to the token) compiled with
                gcc -std=c11 / g++ -std=c++14 -fsyntax-only; flagged tokens are re-compiled alone before being reported.
                Python tokens go through compile() as assignment target, def, parameter, class, import alias, loop variable.
  (d) determinism  the result table of every shard is recomputed in a fresh interpreter with another PYTHONHASHSEED and in
                reverse evaluation order; digests must be identical.
  (e) identity  an input that satisfies (a) and (b) and in which no configured encoding rule finds a match is returned
                unchanged (and does not raise).
  An exception is an allowed outcome; RuntimeError and ValueError are what _common.py documents, any other type is reported.
Signatures  : "<lang>|<id-type class>|<clause>[:detail][|cfg-override]"; id-type class = the type whose reserved pattern is
              violated, "all-types" when the clause fails for the input under all six id types, else the requested type
              ("untyped" for id types without rules of their own); "token" for the compiler oracle.
"""
from __future__ import annotations

import builtins
import collections
import hashlib
import json
import keyword
import multiprocessing
import os
import pathlib
import re
import shutil
import subprocess
import sys
import tempfile
import typing
from concurrent.futures import ThreadPoolExecutor

from .. import core

LANGS = ("c", "cpp", "py")
ID_TYPES = ("any", "path", "macro", "typedef", "function", "enum")
SIGMA = ["a", "A", "E", "z", "Z", "_", "0", "9", " ", "\t", "\n", "-", ".", "+", "é", "❤", "\U0001F600"]
OVERRIDE_KEYS = ("stropping_prefix", "stropping_suffix", "encoding_prefix")
IDCH = "_aAzZxX09E"  # identifier characters the overrides are drawn from
DOCUMENTED_EXC = ("RuntimeError", "ValueError")
NPROC = 16
W = "vfC09"  # salt of every helper name in the generated translation units
MAX_CONFIRM = 300  # compiler-flagged tokens re-compiled alone per language (shortest first); a budget, not a verdict

# Instances of the reserved patterns shipped in properties.yaml.  Every configured pattern must match at least one of them
# (checked at start: a configuration change that adds a pattern without an instance is a harness error, not a pass).
PATTERN_INSTANCES = [
    "__x", "_X", "__", "_Z9", "__FILE__", "_Bool1",
    "isalpha", "toupper", "strlen", "memset", "wcslen", "isx", "tox",
    "int8_t", "uint8_t", "int_t", "uint_fast16_t", "intptr_t", "atomic_x", "memory_x", "cnd_t", "mtx_t", "thrd_t", "tss_t",
    "EINVAL", "E2BIG", "E0", "FE_INVALID", "FE_X", "INT8_MAX", "UINT8_MAX", "INT_MIN", "UINT64_C", "INT_FAST8_MIN",
    "PRId8", "SCNx16", "PRIX32", "LC_ALL", "SIGINT", "SIG_DFL", "SIGX", "TIME_UTC", "ATOMIC_FLAG_INIT",
    "memory_order_relaxed", "cnd_x", "mtx_plain", "thrd_success", "tss_x",
    "1", "1abc", "9_", "_Abc",
]  # fmt: skip


# ---------------------------------------------------------------------------------------------------------------------
# independent model of the configuration
# ---------------------------------------------------------------------------------------------------------------------
_YAML: typing.Dict[str, typing.Any] = {}


def _yaml() -> typing.Dict[str, typing.Any]:
    if not _YAML:
        import yaml

        _YAML.update(yaml.safe_load((core.REPO / "src/nunavut/lang/properties.yaml").read_text()))
    return _YAML


def cfg_key(cfg: typing.Optional[dict]) -> str:
    return json.dumps(cfg, sort_keys=True) if cfg else ""


class Model:
    """What properties.yaml (+ override) says about identifiers of one language -- no nunavut code involved."""

    def __init__(self, lang: str, cfg: typing.Optional[dict]):
        sec = dict(_yaml()["nunavut.lang." + lang])
        if cfg:
            for k_, v_ in cfg.items():
                if isinstance(v_, dict) and isinstance(sec.get(k_), dict):
                    sec[k_] = dict(sec[k_], **v_)  # configuration maps are merged key-wise (C13), lists are replaced
                else:
                    sec[k_] = v_
        self.lang = lang
        self.cfg = cfg or None
        self.reserved: typing.Set[str] = set(map(str, sec.get("reserved_identifiers") or []))
        self.configured_reserved = sorted(self.reserved)
        if lang == "py":
            # lang/py/__init__.py: PYTHON_RESERVED_IDENTIFIERS = keyword.kwlist + dir(builtins)
            self.reserved |= set(keyword.kwlist) | set(dir(builtins))
        self.patterns = {
            str(k).lower(): [re.compile(p) for p in v] for k, v in (sec.get("reserved_token_patterns_by_type") or {}).items()
        }
        self.rules = {
            str(k).lower(): [re.compile(p) for p in v]
            for k, v in (sec.get("token_encoding_rules_by_identifier_type") or {}).items()
        }
        self.prefix = str(sec.get("stropping_prefix") or "")
        self.suffix = str(sec.get("stropping_suffix") or "")
        self.encoding_prefix = str(sec.get("encoding_prefix") or "")
        self._pats: typing.Dict[str, list] = {}
        self._rules: typing.Dict[str, list] = {}
        for t in ID_TYPES:
            self._pats[t] = self._select(self.patterns, t)
            self._rules[t] = self._select(self.rules, t)
        # Python: may a non-ASCII character legitimately survive?  Not while a configured rule for all identifier types
        # replaces every character outside the ASCII identifier set (the shipped rule '[^a-zA-Z0-9_]+').
        probes = ["é", "❤", "\U0001F600", "٣", "ｉ"]
        self.ascii_only = any(all(r.search(p) for p in probes) for r in self.rules.get("all", []))

    @staticmethod
    def _select(table: dict, id_type: str) -> typing.List[typing.Tuple[str, typing.Pattern]]:
        out = [("all", p) for p in table.get("all", [])]
        if id_type == "any":
            for k in table:
                if k != "all":
                    out += [(k, p) for p in table[k]]
        elif id_type != "all":
            out += [(id_type, p) for p in table.get(id_type, [])]
        return out

    def idclass(self, id_type: str) -> str:
        """id types without rules of their own behave alike: one signature class for them."""
        if id_type == "any" or id_type in self.patterns or id_type in self.rules:
            return id_type
        return "untyped"

    def grammar(self, tok: str) -> typing.Optional[str]:
        """None if `tok` is an identifier of the language, else the kind of invalidity."""
        if tok == "":
            return "empty"
        if self.lang in ("c", "cpp"):
            if re.fullmatch(r"[A-Za-z_][A-Za-z0-9_]*", tok):
                return None
            return "leading-digit" if re.fullmatch(r"[A-Za-z0-9_]+", tok) else "illegal-character"
        if not tok.isidentifier():
            return "leading-digit" if re.fullmatch(r"[A-Za-z0-9_]+", tok) else "illegal-character"
        if self.ascii_only and not tok.isascii():
            return "non-ascii-not-encoded"
        return None

    def reserved_pattern(self, tok: str, id_type: str) -> typing.Optional[str]:
        for ptype, p in self._pats[id_type]:
            if p.match(tok):
                return ptype
        return None

    def needs_encoding(self, s: str, id_type: str) -> bool:
        return any(r.search(s) for _, r in self._rules[id_type])


_MODELS: typing.Dict[typing.Tuple[str, str], Model] = {}


def get_model(lang: str, cfg: typing.Optional[dict]) -> Model:
    k = (lang, cfg_key(cfg))
    if k not in _MODELS:
        if len(_MODELS) > 256:
            _MODELS.clear()
        _MODELS[k] = Model(lang, cfg)
    return _MODELS[k]


def self_check_models():
    """Oracle self-checks (failures are harness errors)."""
    for lang in LANGS:
        m = get_model(lang, None)
        for ptype, pats in m.patterns.items():
            for p in pats:
                inst = [i for i in PATTERN_INSTANCES if p.match(i)]
                if not inst:
                    raise core.HarnessError(f"no instance for reserved pattern {p.pattern!r} ({lang}/{ptype}) in PATTERN_INSTANCES")
                # the implementation matches at the start, the configuration does not say: make sure both readings
                # coincide (all shipped patterns are anchored), otherwise clause (b) would be ambiguous
                for i in inst:
                    if p.search("q" + i) and not p.match("q" + i):
                        raise core.HarnessError(f"reserved pattern {p.pattern!r} ({lang}) is not anchored: clause (b) ambiguous")
        for g, b in (("abc", None), ("_a1", None), ("1a", "leading-digit"), ("a b", "illegal-character"), ("", "empty")):
            if m.grammar(g) != b:
                raise core.HarnessError(f"grammar self-check failed for {lang}: {g!r} -> {m.grammar(g)!r}")
    # NOTE: whether the configured rules encode every non-ASCII character is NOT asserted here: a tree whose rules let such
    # characters through is judged by the grammar / compiler clauses (a change of the rules is a change under test, not a
    # harness problem).


# ---------------------------------------------------------------------------------------------------------------------
# implementation under test
# ---------------------------------------------------------------------------------------------------------------------
_LANGS: typing.Dict[typing.Tuple[str, str], typing.Any] = {}


def get_lang(lang: str, cfg: typing.Optional[dict]):
    from nunavut.lang import LanguageContextBuilder

    k = (lang, cfg_key(cfg))
    if k not in _LANGS:
        if len(_LANGS) > 64:
            _LANGS.clear()
        b = LanguageContextBuilder(include_experimental_languages=True).set_target_language(lang)
        for key in sorted(cfg or {}):
            b.set_target_language_configuration_override(key, cfg[key])
        _LANGS[k] = b.create().get_target_language()
    return _LANGS[k]


Outcome = typing.Union[str, typing.Tuple[str, str, str]]


def call(L, s: str, id_type: str) -> Outcome:
    try:
        r = L.filter_id(s, id_type)
    except Exception as e:  # pylint: disable=broad-except
        return ("!", type(e).__name__, str(e)[:160])
    if not isinstance(r, str):
        return ("?", type(r).__name__, repr(r)[:160])
    return r


def outcome_tag(o: Outcome) -> str:
    return o if isinstance(o, str) else o[0] + o[1]


def nt_key(lang: str, ck: str, id_type: str, s: str) -> str:
    return hashlib.sha256(f"{lang}\x1f{ck}\x1f{id_type}\x1f{s}".encode("utf-8", "surrogatepass")).hexdigest()[:16]


# ---------------------------------------------------------------------------------------------------------------------
# Python "compiler" oracle
# ---------------------------------------------------------------------------------------------------------------------
_PYC: typing.Dict[str, typing.Optional[str]] = {}


def py_compile_error(tok: str) -> typing.Optional[str]:
    if tok not in _PYC:
        if len(_PYC) > 200000:
            _PYC.clear()
        src = f"{tok} = 1\ndef {tok}({tok}): pass\nclass {tok}: pass\nimport os as {tok}\nfor {tok} in (): pass\n"
        try:
            compile(src, "<c09>", "exec", dont_inherit=True)
            _PYC[tok] = None
        except (SyntaxError, ValueError) as e:
            _PYC[tok] = f"{type(e).__name__}: {e}"
    return _PYC[tok]


# ---------------------------------------------------------------------------------------------------------------------
# the oracle for one input under all id types
# ---------------------------------------------------------------------------------------------------------------------
class Verdict(typing.NamedTuple):
    id_type: str
    nontrivial: bool
    classes: typing.List[str]
    fails: typing.List[typing.Tuple[str, str]]
    cc_token: typing.Optional[str]  # token to hand to the C/C++ compiler oracle


def judge(m: Model, s: str, id_type: str, out: Outcome, variant: bool) -> Verdict:
    lang = m.lang
    sig = lambda clause: clause  # noqa: E731  (the id-type class is decided over all id types of the input: signatures())
    where = f"{lang} filter_id({s!r}, {id_type!r})" + (f" with {m.cfg!r}" if m.cfg else "")
    in_bad = m.grammar(s)
    in_res = s in m.reserved
    in_pat = m.reserved_pattern(s, id_type)
    in_enc = m.needs_encoding(s, id_type)
    identity = in_bad is None and not in_res and in_pat is None and not in_enc
    nontrivial = (not identity) or variant
    classes = [f"{lang}.id.{id_type}", "cfg.override" if m.cfg else "cfg.default"] + (["cfg.override.reserved_identifiers"] if m.cfg and "reserved_identifiers" in m.cfg else [])
    if identity:
        classes.append(f"{lang}.in.already_valid_unreserved")
    if in_res:
        classes.append(f"{lang}.in.reserved_identifier")
    if in_pat is not None:
        classes.append(f"{lang}.in.reserved_pattern")
    if in_enc or in_bad is not None:
        classes.append(f"{lang}.in.needs_encoding")
    if variant:
        classes.append(f"{lang}.in.reserved_variant")
    fails: typing.List[typing.Tuple[str, str]] = []
    cc = None
    if not isinstance(out, str):
        if out[0] == "?":
            fails.append((sig("non-string-result"), f"{where} returned a {out[1]}: {out[2]}"))
        else:
            classes.append(f"{lang}.out.raised")
            if not m.cfg:
                classes.append(f"{lang}.out.raised_under_default_cfg")
            if out[1] not in DOCUMENTED_EXC:
                fails.append((sig(f"undocumented-exception:{out[1]}"), f"{where} raised {out[1]}: {out[2]}"))
            elif identity:
                fails.append(
                    (
                        sig("valid-unreserved-input-raised"),
                        f"{where} raised {out[1]} ({out[2]}) although the input is a valid identifier, not reserved, and "
                        "no encoding rule matches it",
                    )
                )
        return Verdict(id_type, nontrivial, classes, fails, cc)
    tok = out
    classes.append(f"{lang}.out.unchanged" if tok == s else f"{lang}.out.changed")
    if tok != s and in_bad is None and not in_enc and tok != m.prefix + s + m.suffix:
        classes.append(f"{lang}.out.not_plain_strop")  # double strop or failure handler
    ok = True
    bad = m.grammar(tok)
    if bad is not None:
        ok = False
        fails.append((sig(f"invalid-identifier:{bad}"), f"{where} returned {tok!r} which is not an identifier of {lang} ({bad})"))
    else:
        if tok in m.reserved:
            ok = False
            fails.append((sig("returns-reserved-identifier"), f"{where} returned the reserved identifier {tok!r}"))
        ptype = m.reserved_pattern(tok, id_type)
        if ptype is not None:
            ok = False
            fails.append(
                (
                    sig(f"returns-reserved-pattern:{ptype}"),
                    f"{where} returned {tok!r} which matches a reserved pattern configured for {ptype!r}",
                )
            )
    if identity and tok != s:
        fails.append(
            (
                sig("valid-unreserved-input-changed"),
                f"{where} returned {tok!r}: the input is a valid identifier, not reserved, no encoding rule matches it",
            )
        )
    if ok:
        if lang == "py":
            err = py_compile_error(tok)
            if err is not None:
                fails.append((sig("rejected-by-python-compile"), f"{where} returned {tok!r}; compile() says {err}"))
        else:
            cc = tok
    return Verdict(id_type, nontrivial, classes, fails, cc)


def signatures(m: Model, verdicts: typing.Sequence[Verdict]) -> typing.List[typing.Tuple[str, str, str]]:
    """
    (signature, what, id_type) for the failures of ONE input under the id types it was evaluated with.  The id-type class
    of a signature is: the type whose reserved pattern is violated (whether requested directly or through 'any');
    'all-types' when the same clause fails under all six id types (the defect does not depend on the id type); else the
    requested id type ('untyped' for types without rules of their own).
    """
    tail = "|cfg-override" if m.cfg else ""
    by: "collections.OrderedDict[str, list]" = collections.OrderedDict()
    for v in verdicts:
        for clause, what in v.fails:
            by.setdefault(clause, []).append((v.id_type, what))
    out = []
    for clause, lst in by.items():
        types = [t for t, _ in lst]
        if clause.startswith("returns-reserved-pattern:") and clause.split(":", 1)[1] != "all":
            out.append((f"{m.lang}|{clause.split(':', 1)[1]}|returns-reserved-pattern{tail}", lst[0][1], types[0]))
        elif set(types) >= set(ID_TYPES):
            out.append((f"{m.lang}|all-types|{clause}{tail}", lst[0][1], types[0]))
        else:
            seen = set()
            for t, what in lst:
                sg = f"{m.lang}|{m.idclass(t)}|{clause}{tail}"
                if sg not in seen:
                    seen.add(sg)
                    out.append((sg, what, t))
    return out


# ---------------------------------------------------------------------------------------------------------------------
# shards (pool workers)
# ---------------------------------------------------------------------------------------------------------------------
def shard_inputs(spec: dict) -> typing.List[str]:
    if spec["kind"] == "enum":
        n = spec["n"]
        b = len(SIGMA)
        return ["".join(SIGMA[(idx // b**k) % b] for k in reversed(range(n))) for idx in range(spec["lo"], spec["hi"])]
    return list(spec["inputs"])


def _digest(table_rows: typing.Iterable[typing.Tuple[str, typing.List[str]]]) -> str:
    h = hashlib.sha256()
    for s, tags in table_rows:
        h.update(json.dumps([s, tags]).encode())
    return h.hexdigest()


def fw_shard(spec: dict) -> dict:
    """Forward pass with the oracle."""
    lang, cfg = spec["lang"], spec.get("cfg")
    variant = bool(spec.get("variant"))
    L = get_lang(lang, cfg)
    m = get_model(lang, cfg)
    ck = cfg_key(cfg)
    evals = 0
    nkeys: typing.List[str] = []
    classes: typing.Counter[str] = collections.Counter()
    fails: typing.Dict[str, dict] = {}
    tokens: typing.Dict[str, list] = {}
    samples: typing.List[dict] = []
    rows = []
    for s in shard_inputs(spec):
        tags = []
        verdicts = []
        for t in ID_TYPES:
            o = call(L, s, t)
            tags.append(outcome_tag(o))
            v = judge(m, s, t, o, variant)
            verdicts.append(v)
            evals += 1
            for c in v.classes:
                classes[c] += 1
            if v.nontrivial:
                nkeys.append(nt_key(lang, ck, t, s))
                if len(samples) < 2 and isinstance(o, str) and o != s:
                    samples.append({"lang": lang, "cfg": cfg, "id_type": t, "input": s, "returned": o})
            if v.cc_token is not None:
                old = tokens.get(v.cc_token)
                if old is None or (len(s), s, t) < (len(old[0]), old[0], old[1]):
                    tokens[v.cc_token] = [s, t]
        for sg, what, _ in signatures(m, verdicts):
            case = {"lang": lang, "cfg": cfg, "items": [[s, t] for t in ID_TYPES]}
            ent = fails.get(sg)
            if ent is None:
                fails[sg] = {"count": 1, "what": what, "case": case}
            else:
                ent["count"] += 1
                if len(s) < len(ent["case"]["items"][0][0]):
                    ent["what"], ent["case"] = what, case
        rows.append((s, tags))
    return {
        "evals": evals,
        "nkeys": nkeys,
        "classes": dict(classes),
        "fails": fails,
        "tokens": tokens,
        "samples": samples,
        "digest": _digest(rows),
    }


def redo_shard(arg: typing.Tuple[dict, bool, bool]) -> typing.Any:
    """Recompute the result table of a shard (no oracle); optionally in reverse evaluation order."""
    spec, reverse, dump = arg
    L = get_lang(spec["lang"], spec.get("cfg"))
    inputs = shard_inputs(spec)
    types = list(ID_TYPES)
    got: typing.Dict[typing.Tuple[str, str], str] = {}
    for s in reversed(inputs) if reverse else inputs:
        for t in reversed(types) if reverse else types:
            got[(s, t)] = outcome_tag(call(L, s, t))
    rows = [(s, [got[(s, t)] for t in types]) for s in inputs]
    return rows if dump else _digest(rows)


def run_fresh(specs: typing.List[dict], reverse: bool, dump: bool, hashseed: str) -> list:
    """redo_shard over `specs` in a fresh interpreter with the given PYTHONHASHSEED."""
    tmp = pathlib.Path(tempfile.mkdtemp(prefix="vf-c09-"))
    try:
        (tmp / "spec.json").write_text(json.dumps({"specs": specs, "reverse": reverse, "dump": dump}))
        env = dict(os.environ, PYTHONHASHSEED=hashseed, PYTHONDONTWRITEBYTECODE="1")
        p = subprocess.run(
            [sys.executable, "-m", "vf.props.c09", "--redo", str(tmp / "spec.json"), str(tmp / "out.json")],
            cwd=str(core.VERIF),
            env=env,
            capture_output=True,
            text=True,
        )
        if p.returncode != 0:
            raise core.HarnessError(f"determinism helper process failed rc={p.returncode}: {p.stderr[-1500:]}")
        return json.loads((tmp / "out.json").read_text())
    finally:
        shutil.rmtree(tmp, ignore_errors=True)


def _redo_main(spec_file: str, out_file: str) -> int:
    doc = json.loads(pathlib.Path(spec_file).read_text())
    args = [(s, doc["reverse"], doc["dump"]) for s in doc["specs"]]
    if len(args) > 2:
        with multiprocessing.Pool(NPROC) as pool:
            out = pool.map(redo_shard, args, chunksize=1)
    else:
        out = [redo_shard(a) for a in args]
    pathlib.Path(out_file).write_text(json.dumps(out))
    return 0


def determinism_diff(m: Model, spec: dict, seed2: str) -> typing.List[typing.Tuple[str, str, dict]]:
    """A digest mismatch was seen for `spec`: find the differing entries and what they depend on."""
    a = run_fresh([spec], False, True, "0")[0]  # forward order, hash seed 0
    c = run_fresh([spec], False, True, seed2)[0]  # forward order, other hash seed
    b = run_fresh([spec], True, True, seed2)[0]  # reverse order, other hash seed
    res = []
    for other, axis in ((c, "hash-seed"), (b, "evaluation-order")):
        for (s, ta), (_, tb) in zip(a, other):
            if ta != tb:
                diff = [i for i in range(len(ta)) if ta[i] != tb[i]]
                i = diff[0]
                t = ID_TYPES[i]
                tail = "|cfg-override" if m.cfg else ""
                cls = "all-types" if len(diff) == len(ID_TYPES) else m.idclass(t)
                res.append(
                    (
                        f"{m.lang}|{cls}|result-depends-on-{axis}{tail}",
                        f"{m.lang} filter_id({s!r}, {t!r})" + (f" with {m.cfg!r}" if m.cfg else "") + f": {ta[i]!r} in one "
                        f"process, {tb[i]!r} in another one (different {axis}; same inputs evaluated in both)",
                        {"kind": "determinism", "spec": _shrink_spec(spec, s), "seed2": seed2},
                    )
                )
                break
        if res:
            break
    if not res:
        res.append(
            (
                f"{m.lang}|all-types|result-table-not-reproducible" + ("|cfg-override" if m.cfg else ""),
                f"result table digest of shard {json.dumps(spec)[:200]} differed between two processes but three further "
                "recomputations agree",
                {"kind": "determinism", "spec": spec, "seed2": seed2},
            )
        )
    return res


def _shrink_spec(spec: dict, s: str) -> dict:
    """Smaller shard that still contains `s` (evaluation-order effects need neighbours: keep <= 64 inputs around it)."""
    inputs = shard_inputs(spec)
    i = inputs.index(s)
    lo = max(0, i - 32)
    return {"lang": spec["lang"], "cfg": spec.get("cfg"), "kind": "list", "inputs": inputs[lo : lo + 64]}


# ---------------------------------------------------------------------------------------------------------------------
# C / C++ compiler oracle
# ---------------------------------------------------------------------------------------------------------------------
LINES_PER_TOKEN = 3


def tu_source(lang: str, tokens: typing.Sequence[str]) -> str:
    lines = []
    for i, t in enumerate(tokens):
        if lang == "c":
            lines.append(
                f"static void {W}w{i}(void) {{ {{ int {t}; (void){t}; }} {{ typedef int {t}; {t} {W}v; (void){W}v; }} "
                f"{{ extern void {t}(void); }} {{ enum {{ {t} }}; }} {{ struct {t} {{ int {W}m; }}; }} "
                f"{{ struct {W}s {{ int {t}; }}; }} {{ goto {t}; {t}: ; }} }}"
            )
        else:
            lines.append(
                f"namespace {W}n{i} {{ namespace {W}a {{ int {t}; }} namespace {W}b {{ typedef int {t}; {t} {W}v; }} "
                f"namespace {W}c {{ void {t}(); }} namespace {W}d {{ enum {{ {t} }}; }} "
                f"namespace {W}e {{ struct {t} {{ int {W}m; }}; }} "
                f"namespace {W}f {{ struct {W}s {{ int {t}; void {W}g(int {t}); }}; }} "
                f"namespace {W}g {{ namespace {t} {{ }} }} namespace {W}h {{ enum class {t} {{ {W}x }}; }} "
                f"namespace {W}i {{ template <typename {t}> struct {W}t {{ }}; }} }}"
            )
        lines.append(f"#define {t} 1")
        lines.append(f"#undef {t}")
    return "\n".join(lines) + "\n"


_ERR = re.compile(r"^[^:\s]+:(\d+):(?:\d+:)? (?:fatal )?error: (.*)$")


def cc_compile(lang: str, tokens: typing.Sequence[str], tmp: pathlib.Path, name: str) -> typing.Dict[str, str]:
    """Compile one TU; returns {token: first diagnostic} for every token with an error on one of its lines."""
    src = tmp / (name + (".c" if lang == "c" else ".cpp"))
    src.write_text(tu_source(lang, tokens))
    cmd = ["gcc", "-std=c11", "-x", "c"] if lang == "c" else ["g++", "-std=c++14", "-x", "c++"]
    p = subprocess.run(cmd + ["-fsyntax-only", "-w", str(src)], capture_output=True, text=True, cwd=str(tmp))
    src.unlink()
    bad: typing.Dict[str, str] = {}
    for line in p.stderr.splitlines():
        mm = _ERR.match(line)
        if mm:
            idx = (int(mm.group(1)) - 1) // LINES_PER_TOKEN
            if 0 <= idx < len(tokens):
                bad.setdefault(tokens[idx], mm.group(2))
    if p.returncode != 0 and not bad:
        raise core.HarnessError(f"{cmd[0]} failed without a diagnostic that maps to a token: {p.stderr[-1500:]}")
    if p.returncode == 0 and bad:
        raise core.HarnessError(f"{cmd[0]} exit 0 but error diagnostics: {p.stderr[-800:]}")
    return bad


def cc_oracle(ctx: core.Ctx, lang: str, tokens: typing.Dict[str, dict], chunk: int = 5000) -> typing.Dict[str, str]:
    """Batch-compile all tokens; tokens flagged in a batch are confirmed alone. Returns {token: diagnostic}."""
    tmp = pathlib.Path(tempfile.mkdtemp(prefix="vf-c09cc-"))
    try:
        # toolchain self-check: positive and negative controls, attributed to the right token
        ctl = cc_compile(lang, ["abc", "while", "_x9", "defined", "zX00E9"], tmp, "ctl")
        if set(ctl) != {"while", "defined"}:
            raise core.HarnessError(f"{lang} compiler oracle self-check failed: flagged {sorted(ctl)}")
        toks = sorted(t for t in tokens if not t.startswith(W))
        chunks = [toks[i : i + chunk] for i in range(0, len(toks), chunk)]
        with ThreadPoolExecutor(NPROC) as ex:
            flagged: typing.Dict[str, str] = {}
            for r in ex.map(lambda a: cc_compile(lang, a[1], tmp, f"b{a[0]}"), list(enumerate(chunks))):
                flagged.update(r)
            cand = sorted(flagged, key=lambda t: (len(t), t))
            ctx.event(f"cc.{lang}.tokens_compiled", len(toks))
            ctx.event(f"cc.{lang}.flagged_in_batch", len(cand))
            if len(cand) > MAX_CONFIRM:
                ctx.extra[f"cc_{lang}_unconfirmed_flagged"] = len(cand) - MAX_CONFIRM
                cand = cand[:MAX_CONFIRM]
            confirmed: typing.Dict[str, str] = {}
            for t, r in zip(cand, ex.map(lambda a: cc_compile(lang, [a[1]], tmp, f"s{a[0]}"), list(enumerate(cand)))):
                if r:
                    confirmed[t] = r[t]
        if flagged and not confirmed:
            raise core.HarnessError(
                f"{lang}: a batch translation unit fails on {sorted(flagged)[:5]} but none of them fails alone: " "tokens interfere"
            )
        return confirmed
    finally:
        shutil.rmtree(tmp, ignore_errors=True)


# ---------------------------------------------------------------------------------------------------------------------
# input lists
# ---------------------------------------------------------------------------------------------------------------------
def variants(w: str, p: str, s: str, e: str) -> typing.List[str]:
    cap = w[:1].upper() + w[1:]
    v = [
        w, w.upper(), w.lower(), w.capitalize(), w.swapcase(), w.title(), cap,
        "_" + w, "__" + w, "___" + w, w + "_", w + "__", "_" + w + "_", "__" + w + "__",
        p + w + s, p + p + w + s + s, p + w, w + s, s + w, w + p,
        " " + w, w + " ", "\t" + w, w + "\n", " " + w + " ", w.replace("_", " "),
        "_" + cap, "__" + cap, "_" + w.upper(), "__" + w.upper(),
        "1" + w, w + "1", "é" + w, w + "é", w + ".", "-" + w, w + "-" + w,
        e + w, w + e, w + e + "005F",
    ]  # fmt: skip
    if p and w.startswith(p):
        v.append(w[len(p) :])
    if s and w.endswith(s):
        v.append(w[: -len(s)])
    if w.startswith("_"):
        v.append(w.lstrip("_"))
        v.append("_" + w.lstrip("_"))
    out = []
    seen = set()
    for x in v:
        if x and x not in seen:
            seen.add(x)
            out.append(x)
    return out


# Keywords of the languages themselves (ISO C11, ISO C++14 incl. alternative tokens and identifiers with special meaning,
# names the preprocessor refuses as macro names).  Inputs only -- the oracle for them is the compiler, not this list; they
# make sure that a word missing from the configured list is still tried.
STD_WORDS = (
    "auto break case char const continue default do double else enum extern float for goto if inline int long register "
    "restrict return short signed sizeof static struct switch typedef union unsigned void volatile while _Alignas _Alignof "
    "_Atomic _Bool _Complex _Generic _Imaginary _Noreturn _Static_assert _Thread_local "
    "alignas alignof and and_eq asm bitand bitor bool catch char16_t char32_t class compl constexpr const_cast decltype "
    "delete dynamic_cast explicit export false friend mutable namespace new noexcept not not_eq nullptr operator or or_eq "
    "private protected public reinterpret_cast static_assert static_cast template this thread_local throw true try typeid "
    "typename using virtual wchar_t xor xor_eq override final defined _Pragma __VA_ARGS__ __has_include __cplusplus __func__ "
    "__FILE__ __LINE__ typeof main"
).split()


def all_words() -> typing.List[str]:
    words: typing.Set[str] = set(STD_WORDS) | set(keyword.kwlist) | set(keyword.softkwlist) | set(dir(builtins))
    for lang in LANGS:
        words |= get_model(lang, None).reserved
    return sorted(words)


def variant_inputs(lang: str, cfg: typing.Optional[dict], words: typing.Sequence[str]) -> typing.List[str]:
    m = get_model(lang, cfg)
    seen: typing.Set[str] = set()
    out = []
    for w in list(words) + PATTERN_INSTANCES:
        for x in variants(w, m.prefix, m.suffix, m.encoding_prefix):
            if x not in seen:
                seen.add(x)
                out.append(x)
    return out


SHORT_WORDS = ["if", "int", "while", "_Bool", "__has_include", "print", "None", "in", "is", "id", "not", "_Pragma", "true", "NULL"]


def override_inputs(lang: str, cfg: dict, quick: bool) -> typing.List[str]:
    m = get_model(lang, cfg)
    p, s, e = m.prefix, m.suffix, m.encoding_prefix
    sig2 = ["a", "A", "E", "_", "9", " ", "-", "é"] if quick else SIGMA
    out = [a for a in SIGMA] + [a + b for a in sig2 for b in sig2]
    for w in SHORT_WORDS + (PATTERN_INSTANCES[::3] if quick else PATTERN_INSTANCES):
        out += [w, p + w + s, p + w, w + s, p + p + w + s + s, "_" + w, w + "_", " " + w, w[:1].upper() + w[1:], e + w]
    out += [p, s, e, p + s, e + "0031", e + "00E9", p + "1" + s, p + "_X" + s, p + "__x" + s, "1" + s, "x" + s, p + "x", "x__" + s]
    seen: typing.Set[str] = set()
    res = []
    for x in out:
        if x and x not in seen:
            seen.add(x)
            res.append(x)
    return res


def chunked(seq: typing.Sequence, n: int) -> typing.List[typing.Sequence]:
    return [seq[i : i + n] for i in range(0, len(seq), n)]


# ---------------------------------------------------------------------------------------------------------------------
# in-process evaluation of a case {lang, cfg, items: [[input, id_type], ...]}  (Hypothesis campaigns and replay)
# ---------------------------------------------------------------------------------------------------------------------
def check_case(ctx: core.Ctx, case: dict, cc_tokens: typing.Optional[dict], variant: bool = False):
    lang, cfg = case["lang"], case.get("cfg") or None
    try:
        L = get_lang(lang, cfg)
    except Exception as e:  # configuration rejected: not what this property is about
        raise core.HarnessError(f"cannot build language {lang} with {cfg!r}: {type(e).__name__}: {e}")
    m = get_model(lang, cfg)
    ck = cfg_key(cfg)
    res = []
    by_input: "collections.OrderedDict[str, list]" = collections.OrderedDict()
    for s, t in case["items"]:
        if s != "" and t not in by_input.setdefault(s, []):
            by_input[s].append(t)
    for s, types in by_input.items():
        verdicts = []
        compiled: typing.Set[str] = set()
        for t in types:
            o = call(L, s, t)
            v = judge(m, s, t, o, variant)
            verdicts.append(v)
            ctx.case(
                nt_key(lang, ck, t, s),
                v.nontrivial,
                sample={"lang": lang, "cfg": cfg, "id_type": t, "input": s, "returned": outcome_tag(o)},
                classes=v.classes,
            )
            if v.cc_token is not None:
                if cc_tokens is None:  # replay: compile now
                    if v.cc_token not in compiled:
                        compiled.add(v.cc_token)
                        bad = cc_oracle(ctx, lang, {v.cc_token: {}})
                        if bad:
                            res.append(_cc_failure(m, s, t, v.cc_token, bad[v.cc_token]))
                else:
                    old = cc_tokens[lang].get(v.cc_token)
                    ex = {"lang": lang, "cfg": cfg, "items": [[s, t]]}
                    if old is None or _case_order(ex) < _case_order(old):
                        cc_tokens[lang][v.cc_token] = ex
        res += [(sg, what) for sg, what, _ in signatures(m, verdicts)]
    if cfg and "reserved_identifiers" in cfg and isinstance(cfg["reserved_identifiers"], list):
        # a context with a user-extended reserved list has just been used in this process: a language object created NOW with
        # the default configuration must treat the added words like any process would (the result depends only on the input)
        from nunavut.lang import LanguageContextBuilder

        m0 = get_model(lang, None)
        fresh = LanguageContextBuilder(include_experimental_languages=True).set_target_language(lang).create().get_target_language()
        for w in [x for x in cfg["reserved_identifiers"] if x not in m0.configured_reserved]:
            verdicts0 = []
            for t in ID_TYPES:
                v0 = judge(m0, w, t, call(fresh, w, t), variant)
                verdicts0.append(v0)
                ctx.case(nt_key(lang, "default-after-override", t, w), True, sample=None, classes=[f"{lang}.default-context-after-override"])
            res += [(sg + "|default-context-created-after-an-override-context", what) for sg, what, _ in signatures(m0, verdicts0)]
    return res


def _case_order(ex: dict):
    s, t = ex["items"][0]
    return (ex.get("cfg") is not None, len(s), s, ID_TYPES.index(t) if t in ID_TYPES else 99, cfg_key(ex.get("cfg")))


def _cc_failure(m: Model, s: str, t: str, tok: str, diag: str) -> typing.Tuple[str, str]:
    std = "gcc -std=c11" if m.lang == "c" else "g++ -std=c++14"
    return (
        f"{m.lang}|token|accepted-by-configuration-rejected-by-compiler" + ("|cfg-override" if m.cfg else ""),
        f"{m.lang} filter_id({s!r}, {t!r})" + (f" with {m.cfg!r}" if m.cfg else "") + f" returned {tok!r}: valid and unreserved "
        f"under the configuration, but {std} rejects it as an identifier ({diag})",
    )


# ---------------------------------------------------------------------------------------------------------------------
# strategies
# ---------------------------------------------------------------------------------------------------------------------
def input_strategy(words: typing.List[str]):
    from hypothesis import strategies as st

    frag = st.sampled_from(words + PATTERN_INSTANCES + ["_", "__", " ", "\t", "\n", "1", "9", "-", ".", "é", "A", "E", "x", "zX", "_t"])
    pats = sorted({p.pattern for lang in LANGS for ps in get_model(lang, None).patterns.values() for p in ps})
    return st.one_of(
        st.text(min_size=1, max_size=40),
        st.text(alphabet=SIGMA + list("bXt19"), min_size=1, max_size=12),
        st.lists(frag, min_size=1, max_size=4).map("".join),
        st.one_of([st.from_regex(p) for p in pats]).map(lambda s: s[:40]).filter(lambda s: len(s) > 0),
    )


def default_case_strategy(words):
    from hypothesis import strategies as st

    return st.builds(
        lambda lang, s: {"lang": lang, "cfg": None, "items": [[s, t] for t in ID_TYPES]},
        st.sampled_from(LANGS),
        input_strategy(words),
    )


def override_case_strategy(words):
    from hypothesis import strategies as st

    idtext = st.text(alphabet=IDCH, max_size=3)
    cfg = st.dictionaries(st.sampled_from(OVERRIDE_KEYS), idtext, min_size=1, max_size=3)

    @st.composite
    def case(draw):
        lang = draw(st.sampled_from(LANGS))
        c = draw(cfg)
        extra: typing.List[str] = []
        if draw(st.integers(0, 2)) == 0:
            # user-extended reserved word list (lang/_common.py documents overriding `reserved_identifiers`): the configured
            # words plus 1..3 further identifiers, which are then among the inputs.  Only the affixes may differ otherwise, so
            # language objects that differ in nothing but this list meet in one process.
            extra = draw(st.lists(st.sampled_from(["payload", "a", "zX", "value_9", "Z", "x0", "_E"]), min_size=1, max_size=3, unique=True))
            c = dict(c) if draw(st.booleans()) else {}
            c["reserved_identifiers"] = get_model(lang, None).configured_reserved + extra
        elif draw(st.integers(0, 2)) == 0:
            # user-added reserved patterns for single identifier categories (documented key reserved_token_patterns_by_type);
            # inputs that match them are among the inputs
            cats = draw(st.lists(st.sampled_from(["function", "typedef", "macro", "enum"]), min_size=1, max_size=2, unique=True))
            pats = {"function": "^(get|set)_[a-z]+$", "typedef": "^tmp[0-9]*$", "macro": "^[A-Z]+_GUARD$", "enum": "^k[A-Z]"}
            c = dict(c) if draw(st.booleans()) else {}
            c["reserved_token_patterns_by_type"] = {k_: [pats[k_]] for k_ in cats}
            extra = [w for k_ in cats for w in {"function": ["get_speed", "set_x"], "typedef": ["tmp", "tmp12"], "macro": ["HEADER_GUARD"], "enum": ["kRed"]}[k_]]
        m = get_model(lang, c)
        base = draw(st.lists(input_strategy(words), min_size=1, max_size=4)) + extra
        items = []
        for s in base:
            deco = draw(st.sampled_from(["", "strop", "pre", "suf", "enc"]))
            if deco == "strop":
                s = m.prefix + s + m.suffix
            elif deco == "pre":
                s = m.prefix + s
            elif deco == "suf":
                s = s + m.suffix
            elif deco == "enc":
                s = m.encoding_prefix + s
            if s:
                items += [[s, t] for t in ID_TYPES]
        return {"lang": lang, "cfg": c, "items": items}

    return case()


def hyp_campaign(job: typing.Tuple[str, str, int, int, int]) -> dict:
    """One Hypothesis campaign in a worker process with a private Ctx; returns what the parent merges."""
    kind, tier, seed, n, seed_offset = job
    wctx = core.Ctx("C09", tier, seed)
    words = all_words()
    cc_tokens: typing.Dict[str, typing.Dict[str, dict]] = {"c": {}, "cpp": {}}
    strategy = default_case_strategy(words) if kind == "default" else override_case_strategy(words)
    core.explore(wctx, strategy, lambda c: check_case(wctx, c, cc_tokens), n, seed_offset=seed_offset)
    return {
        "evals": wctx.evaluations,
        "nkeys": list(wctx._nontrivial),  # pylint: disable=protected-access
        "classes": dict(wctx.hist),
        "samples": wctx.samples,
        "fails": {sg: dict(ent) for sg, ent in wctx.failures.items()},
        "cc_tokens": cc_tokens,
    }


GRID_QUICK = (["", "_", "__", "9", "_A"], ["", "_", "9"], ["", "zX", "9", "_Z"])
GRID_THOROUGH = (
    ["", "_", "__", "a", "A", "9", "_A", "zX", "E", "is"],
    ["", "_", "__", "a", "9", "_t"],
    ["", "zX", "_", "__", "9", "E", "_Z", "a"],
)


# ---------------------------------------------------------------------------------------------------------------------
def run(ctx: core.Ctx):
    q = ctx.quick
    L = 3 if q else 5
    ctx.rule = (
        "case = (language, configuration, id_type, input string); non-trivial = the input is not already a valid, "
        "unreserved identifier that no encoding rule matches (i.e. it needs encoding or stropping), or it is a generated "
        "variant of a reserved word / reserved-pattern instance; distinct by hash of the case"
    )
    ctx.assumptions = [
        "configuration read independently from src/nunavut/lang/properties.yaml; Python reserved = keyword.kwlist + dir(builtins) as lang/py documents",
        "'any' must avoid the reserved patterns of every id type (TokenEncoder documents 'any' as the union)",
        "reserved patterns are matched at the start of the token (all shipped patterns are anchored; self-checked)",
        "C/C++ identifier = [A-Za-z_][A-Za-z0-9_]*; Python identifier = str.isidentifier() and ASCII (the shipped rules encode every non-ASCII character; self-checked)",
        "compiler oracle: gcc 12 -std=c11 / g++ 12 -std=c++14 -fsyntax-only without headers, CPython compile(); tokens in nested scopes/namespaces, so file-scope reservations (leading underscore) are outside this oracle, as lang/cpp documents",
        "RuntimeError / ValueError are the documented failure outcomes of TokenEncoder.strop",
    ]
    self_check_models()
    words = all_words()
    ctx.max_samples = 12
    seed2 = str(1000 + ctx.seed)
    if os.environ.get("PYTHONHASHSEED") == seed2:
        seed2 = str(2000 + ctx.seed)

    # ---------------------------------------------------------------- shards
    specs: typing.List[dict] = []
    per = 512 if q else 16384
    n_enum = 0
    for lang in LANGS:
        for n in range(1, L + 1):
            total = len(SIGMA) ** n
            n_enum += total if lang == "c" else 0
            for lo in range(0, total, per):
                specs.append({"lang": lang, "cfg": None, "kind": "enum", "n": n, "lo": lo, "hi": min(total, lo + per)})
    n_var = 0
    for lang in LANGS:
        vi = variant_inputs(lang, None, words)
        n_var += len(vi)
        for ch in chunked(vi, 1500):
            specs.append({"lang": lang, "cfg": None, "kind": "list", "inputs": ch, "variant": True})
    grid = GRID_QUICK if q else GRID_THOROUGH
    n_cfg = 0
    for p in grid[0]:
        for s in grid[1]:
            for e in grid[2]:
                cfg = {"stropping_prefix": p, "stropping_suffix": s, "encoding_prefix": e}
                n_cfg += 1
                for lang in LANGS:
                    specs.append({"lang": lang, "cfg": cfg, "kind": "list", "inputs": override_inputs(lang, cfg, q)})
    # long shards first for load balance; the order is fixed (no dependence on it: every shard is self-contained)
    order = sorted(range(len(specs)), key=lambda i: -(specs[i]["hi"] - specs[i]["lo"] if specs[i]["kind"] == "enum" else len(specs[i]["inputs"])))
    specs = [specs[i] for i in order]

    cc_tokens: typing.Dict[str, typing.Dict[str, dict]] = {"c": {}, "cpp": {}}
    digests = []
    sample_kinds: typing.Set[tuple] = set()
    with multiprocessing.Pool(NPROC) as pool:
        for spec, r in zip(specs, pool.imap(fw_shard, specs, chunksize=1)):
            ctx.bulk(r["evals"], r["nkeys"], r["classes"])
            for smp in r["samples"]:  # at most one literal sample per (language, default/override, shard kind)
                k = (spec["lang"], spec.get("cfg") is None, spec["kind"], bool(spec.get("variant")))
                if k not in sample_kinds and len(ctx.samples) < 9:
                    sample_kinds.add(k)
                    ctx.samples.append(smp)
            for sg, ent in r["fails"].items():
                ctx.fail(sg, ent["what"], ent["case"])
                ctx.failures[sg]["count"] += ent["count"] - 1
                if ctx.is_known(sg):
                    ctx.excluded_known[sg] += ent["count"] - 1
            if spec["lang"] in cc_tokens:
                tab = cc_tokens[spec["lang"]]
                for tok, (s, t) in r["tokens"].items():
                    ex = {"lang": spec["lang"], "cfg": spec.get("cfg"), "items": [[s, t]]}
                    old = tab.get(tok)
                    if old is None or _case_order(ex) < _case_order(old):
                        tab[tok] = ex
            digests.append(r["digest"])

    # ---------------------------------------------------------------- (d) determinism: fresh interpreter, other hash seed,
    # reverse evaluation order
    again = run_fresh(specs, True, False, seed2)
    if len(again) != len(digests):
        raise core.HarnessError("determinism helper returned a different number of shards")
    mismatches = [i for i in range(len(specs)) if digests[i] != again[i]]
    ctx.event("det.shards_compared", len(specs))
    ctx.event("det.shards_differing", len(mismatches))
    seen_det: typing.Set[str] = set()
    for i in mismatches[:12]:
        m = get_model(specs[i]["lang"], specs[i].get("cfg"))
        for sg, what, rc in determinism_diff(m, specs[i], seed2):
            if sg in seen_det and len(seen_det) >= 3:
                continue
            seen_det.add(sg)
            ctx.fail(sg, what, rc)
    if len(mismatches) > 12:
        ctx.extra["determinism_mismatching_shards_not_diffed"] = len(mismatches) - 12

    # ---------------------------------------------------------------- Hypothesis campaigns (in-process)
    # several independent Hypothesis campaigns (own seed offsets) in worker processes; each collects and shrinks its own
    # failures with core.explore and returns counters, failures and the tokens for the compiler oracle
    n_def, n_ovr = (5000, 400) if q else (48000, 4800)
    jobs = [("default", ctx.tier, ctx.seed, n_def // 8, 10 + i) for i in range(8)]
    jobs += [("override", ctx.tier, ctx.seed, n_ovr // 4, 100 + i) for i in range(4)]
    with multiprocessing.Pool(len(jobs)) as pool:
        for r in pool.imap(hyp_campaign, jobs, chunksize=1):
            ctx.bulk(r["evals"], r["nkeys"], r["classes"])
            for smp in r["samples"][:1]:
                if len(ctx.samples) < ctx.max_samples:
                    ctx.samples.append(smp)
            for sg, ent in r["fails"].items():
                ctx.fail(sg, ent["what"], ent["replay"])
                ctx.failures[sg]["count"] += ent["count"] - 1
                if ctx.is_known(sg):
                    ctx.excluded_known[sg] += ent["count"] - 1
            for lang, tab in r["cc_tokens"].items():
                for tok, ex in tab.items():
                    old = cc_tokens[lang].get(tok)
                    if old is None or _case_order(ex) < _case_order(old):
                        cc_tokens[lang][tok] = ex

    # ---------------------------------------------------------------- (c) C / C++ compiler oracle over all distinct tokens
    for lang in ("c", "cpp"):
        bad = cc_oracle(ctx, lang, cc_tokens[lang])
        for tok in sorted(bad, key=lambda t: (len(t), t)):
            ex = cc_tokens[lang][tok]
            s, t = ex["items"][0]
            sg, what = _cc_failure(get_model(lang, ex.get("cfg")), s, t, tok, bad[tok])
            ctx.fail(sg, what, ex)

    ctx.extra["exhaustive_subdomain"] = (
        f"all {n_enum} strings of length 1..{L} over {len(SIGMA)} characters x {len(ID_TYPES)} id types x {len(LANGS)} languages"
    )
    ctx.extra["domain"] = {
        "sigma": SIGMA,
        "reserved_words": len(words),
        "pattern_instances": len(PATTERN_INSTANCES),
        "variant_inputs_total": n_var,
        "override_grid_configurations": n_cfg,
        "shards": len(specs),
        "distinct_tokens_compiled": {k: len(v) for k, v in cc_tokens.items()},
        "determinism_hash_seeds": ["0", seed2],
    }
    for lang in LANGS:
        ctx.require(f"{lang}.in.reserved_identifier", 500)
        ctx.require(f"{lang}.in.reserved_variant", 5000)
        ctx.require(f"{lang}.in.needs_encoding", 10000)
        ctx.require(f"{lang}.in.already_valid_unreserved", 2000)
        ctx.require(f"{lang}.out.changed", 10000)
        ctx.require(f"{lang}.out.raised", 50)
        for t in ID_TYPES:
            ctx.require(f"{lang}.id.{t}", 5000)
    for lang in ("c", "cpp"):
        ctx.require(f"{lang}.in.reserved_pattern", 500)
        ctx.require(f"{lang}.out.not_plain_strop", 100)
        ctx.require(f"cc.{lang}.tokens_compiled", 2000)
    ctx.require("cfg.override", 10000)
    ctx.require("cfg.override.reserved_identifiers", 500)
    ctx.require("det.shards_compared", 20)


def replay(ctx: core.Ctx, case):
    if case.get("kind") == "determinism":
        m = get_model(case["spec"]["lang"], case["spec"].get("cfg"))
        res = determinism_diff(m, case["spec"], case.get("seed2", "1001"))
        return [(sg, what) for sg, what, _ in res if "not-reproducible" not in sg]
    return check_case(ctx, case, None)


if __name__ == "__main__":
    if len(sys.argv) == 4 and sys.argv[1] == "--redo":
        sys.exit(_redo_main(sys.argv[2], sys.argv[3]))
    sys.exit(2)
