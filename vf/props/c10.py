"""
C10 -- per-type output ignores sibling types, processing order and earlier runs.

Model  : for every type T of a generated namespace N and every configuration, the bytes of T's file when T's dependency
         closure ALONE is generated in a FRESH process.
Machine: a Hypothesis RuleBasedStateMachine issues runs inside ONE long-lived interpreter (the check process, in-process CLI):
         dependency-closed subsets of N in drawn order of creation, the whole namespace, alternating configurations (built-in
         templates of c / cpp / py, or a user template set exercising the unique-name filter, {% include %}, leading/trailing
         blank lines) with line post-processors; plus whole-namespace runs in fresh processes with other PYTHONHASHSEEDs
         (nested namespaces are iterated from a set).  Invariant after every step: every type file produced equals the model.
All runs use the same absolute input and output paths (wiped in between) so that location effects (C07) cannot interfere.
"""
from __future__ import annotations

import json
import os
import pathlib
import shutil
import tempfile
import typing

import hypothesis
from hypothesis import strategies as st
from hypothesis.stateful import RuleBasedStateMachine, initialize, invariant, precondition, rule, run_state_machine_as_test

from .. import core, dsdlgen, tool

USER_TEMPLATES = {
    "Any.j2": "\n\n\nTYPE {{ T.full_name }} {{ T.version.major }}.{{ T.version.minor }}   \n"
    "{% for f in T.fields_except_padding if T.fields_except_padding is defined %}{{ 'v' | to_template_unique_name }} {{ f.name }}\t \n{% endfor %}"
    "{% include 'part.j2' %}\n\n\n\nEND {{ 'v' | to_template_unique_name }}\n\n\n",
    "part.j2": "PART {{ 'p' | to_template_unique_name }} {{ 'v' | to_template_unique_name }}\n\n\n",
}

FAKE_T = 1700000000.0  # the clock is owned by the harness: time dependence is C07's subject, not C10's

CONFIGS = [
    {"name": "c", "argv": ["--target-language", "c"], "ext": ".h"},
    {"name": "c+pp", "argv": ["--target-language", "c", "--pp-max-emptylines", "0", "--pp-trim-trailing-whitespace"], "ext": ".h"},
    {"name": "cpp", "argv": ["--target-language", "cpp", "--experimental-languages", "--language-standard", "c++17"], "ext": ".hpp"},
    {"name": "py", "argv": ["--target-language", "py"], "ext": ".py"},
    # the same target with another support namespace (a documented key of the language section, set by a configuration file):
    # what an earlier run in the interpreter used for it must not show in the includes of a later one
    {"name": "c+supns", "argv": ["--target-language", "c", "--configuration=@SUPCFG_c@"], "ext": ".h"},
    {"name": "cpp+supns", "argv": ["--target-language", "cpp", "--experimental-languages", "--language-standard", "c++17", "--configuration=@SUPCFG_cpp@"], "ext": ".hpp"},
    {"name": "user", "argv": ["--target-language", "c", "--output-extension", ".txt", "--templates", "@TPL@"], "ext": ".txt"},
    {"name": "user+limit1", "argv": ["--target-language", "c", "--output-extension", ".txt", "--templates", "@TPL@", "--pp-max-emptylines", "1"], "ext": ".txt"},
    {"name": "user+limit2+trim", "argv": ["--target-language", "c", "--output-extension", ".txt", "--templates", "@TPL@", "--pp-max-emptylines", "2", "--pp-trim-trailing-whitespace"], "ext": ".txt"},
]


def _dt(ns, name, major, minor, attrs, union=False, sealed=True, kind=None):
    return {"ns": ns, "name": name, "major": major, "minor": minor, "port_id": None, "kind": kind or ("union" if union else "struct"), "deprecated": False, "doc": [],
            "body": {"union": union, "sealed": sealed, "extent_extra": 8, "attrs": attrs}}


def _df(name, t):
    return {"k": "field", "type": t, "name": name, "doc": None}


def _dref(full, major=1, minor=0):
    return {"t": "ref", "full": full, "major": major, "minor": minor}


_U8 = {"t": "uint", "bits": 8, "cast": "saturated"}
DIRECTED_UNIVERSE = {
    "roots": [
        {
            "name": "dirx",
            "types": [
                # tokens that only the TYPED reserved patterns of the C target catch (function / typedef / macro / enum), as
                # attribute here and as namespace (path) component of sibling types below
                _dt(["dirx", "parts"], "Wheel", 1, 0, [_df("r", {"t": "float", "bits": 32, "cast": "saturated"}), _df("memory", _U8), _df("int_t", _U8), _df("strength", _U8),
                                                        _df("mtx_a", _U8), _df("memory_order_x", _U8)]),
                _dt(["dirx", "memory"], "M", 1, 0, [_df("x", _U8)]),
                _dt(["dirx", "int_t"], "T", 1, 0, [_df("x", _U8)]),
                _dt(["dirx", "strength", "mtx_a"], "S", 1, 0, [_df("x", _U8)]),
                _dt(["dirx", "memory_order_x"], "O", 1, 0, [_df("memory", _U8)]),
                _dt(["dirx", "parts"], "Tyre", 1, 0, [_df("psi", {"t": "uint", "bits": 9, "cast": "saturated"}), _df("worn", {"t": "bool"})]),
                # two versions of one type with different dependencies and different standard-header needs
                _dt(["dirx"], "Axle", 1, 0, [_df("wheels", {"t": "farr", "elem": _dref("dirx.parts.Wheel"), "n": 2}), _df("locked", {"t": "farr", "elem": {"t": "bool"}, "n": 12})]),
                _dt(["dirx"], "Axle", 2, 0, [_df("tyres", {"t": "varr", "elem": _dref("dirx.parts.Tyre"), "cap": 2, "incl": True})]),
                _dt(["dirx"], "Axle", 2, 1, [_df("tyres", {"t": "varr", "elem": _dref("dirx.parts.Tyre"), "cap": 2, "incl": True})]),
                # versions of one type whose digits read the same when written without a separator (1.10 / 11.0 / 1.1 with 10.x)
                _dt(["dirx"], "Gauge", 1, 10, [_df("a", _U8)]),
                _dt(["dirx"], "Gauge", 11, 0, [_df("b", {"t": "uint", "bits": 16, "cast": "saturated"}), _df("t", _dref("dirx.parts.Tyre"))]),
                _dt(["dirx"], "Gauge", 1, 1, [_df("a", _U8)]),
                _dt(["dirx"], "Gauge", 110, 0, [_df("c", {"t": "bool"})]),
                _dt(["dirx"], "Panel", 1, 0, [_df("g1", _dref("dirx.Gauge", 1, 10)), _df("g2", _dref("dirx.Gauge", 11, 0)), _df("g3", _dref("dirx.Gauge", 110, 0)), _df("g4", _dref("dirx.Gauge", 1, 1))]),
                # two MINOR versions of one type with different dependencies
                dict(_dt(["dirx"], "Hub", 1, 0, [_df("w", _dref("dirx.parts.Wheel"))], sealed=False), body={"union": False, "sealed": False, "extent_extra": 0, "extent_bits": 1024, "attrs": [_df("w", _dref("dirx.parts.Wheel"))]}),
                dict(_dt(["dirx"], "Hub", 1, 1, [], sealed=False), body={"union": False, "sealed": False, "extent_extra": 0, "extent_bits": 1024, "attrs": [_df("t", _dref("dirx.parts.Tyre")), _df("m", _dref("dirx.memory.M"))]}),
                _dt(["dirx", "deep", "er"], "Either", 1, 0, [_df("old", _dref("dirx.Axle", 1, 0)), _df("new", _dref("dirx.Axle", 2, 0)), _df("n", _U8)], union=True),
                _dt(["dirx"], "Car", 1, 0, [_df("front", _dref("dirx.Axle", 2, 1)), _df("rear", _dref("dirx.Axle", 1, 0)), _df("e", _dref("dirx.deep.er.Either"))], sealed=False),
                {"ns": ["dirx"], "name": "Inspect", "major": 1, "minor": 0, "port_id": None, "kind": "service", "deprecated": False, "doc": [],
                 "body": {"request": {"union": False, "sealed": True, "extent_extra": 0, "attrs": [_df("car", _dref("dirx.Car"))]},
                          "response": {"union": True, "sealed": True, "extent_extra": 0, "attrs": [_df("ok", {"t": "bool"}), _df("bad", _dref("dirx.parts.Tyre"))]}}},
            ],
        }
    ]
}


def type_key(td: dict) -> str:
    return ".".join(td["ns"] + [td["name"]]) + f".{td['major']}.{td['minor']}"


def deps_of(td: dict) -> typing.Set[str]:
    return dsdlgen._refs_in(td["body"])


def make_variant(u: dict) -> typing.Optional[dict]:
    """
    A later revision of the same namespace: one type keeps its name, version and bit layout but refers to ANOTHER type (a clone
    of its former dependency under a new name).  Earlier runs in the same process must not influence what is generated for it.
    """
    import copy

    root = u["roots"][0]
    keys = {type_key(td): td for td in root["types"]}
    for td in root["types"]:
        if td["kind"] == "service":
            continue
        for a in td["body"]["attrs"]:
            t = a.get("type") if a["k"] == "field" else None
            while t and t["t"] in ("farr", "varr"):
                t = t["elem"]
            if t and t["t"] == "ref":
                dep_key = f"{t['full']}.{t['major']}.{t['minor']}"
                if dep_key not in keys:
                    continue
                v = copy.deepcopy(u)
                vroot = v["roots"][0]
                dep = copy.deepcopy(keys[dep_key])
                dep["name"] = dep["name"] + "Rev"
                dep["port_id"] = None  # a fixed port-ID may be used by one definition only
                if type_key(dep) in keys:
                    continue
                # place the clone right after the original (dependency order) and rewire the reference
                idx = [type_key(x) for x in vroot["types"]].index(dep_key)
                vroot["types"].insert(idx + 1, dep)
                for vt in vroot["types"]:
                    if type_key(vt) == type_key(td):
                        for va in vt["body"]["attrs"]:
                            x = va.get("type") if va["k"] == "field" else None
                            while x and x["t"] in ("farr", "varr"):
                                x = x["elem"]
                            if x and x["t"] == "ref" and f"{x['full']}.{x['major']}.{x['minor']}" == dep_key:
                                x["full"] = ".".join(dep["ns"] + [dep["name"]])
                # and a field of some type is RENAMED (same type, same position: name, version and bit layout of the composite
                # stay what they were, which is all that PyDSDL's equality looks at)
                for vt in vroot["types"]:
                    if vt["kind"] == "service":
                        continue
                    fields = [va for va in vt["body"]["attrs"] if va["k"] == "field"]
                    names = {va.get("name") for va in vt["body"]["attrs"]}
                    if fields and fields[-1]["name"] + "Rev" not in names:
                        fields[-1]["name"] += "Rev"
                        break
                return v
    return None


def coincide(u: dict, pick: int) -> dict:
    """Rename one nested namespace component to the name of a field of another type (same token as path and as attribute)."""
    import copy

    from pydsdl._serializable._name import check_name

    root = u["roots"][0]
    fields = [a["name"] for td in root["types"] if td["kind"] != "service" for a in td["body"]["attrs"] if a["k"] == "field"]
    nested = sorted({tuple(td["ns"]) for td in root["types"] if len(td["ns"]) > 1})
    if not fields or not nested:
        return u
    # prefer names that only the typed reserved patterns catch (they are treated differently as path and as attribute)
    special = [f for f in fields if dsdlgen.name_class_of(f) == "pattern"] or [f for f in fields if dsdlgen.name_class_of(f) != "plain"]
    if special:
        fields = special
    name = fields[pick % len(fields)]
    ns = nested[pick % len(nested)]
    siblings = {tuple(td["ns"][: len(ns)])[-1].lower() for td in root["types"] if len(td["ns"]) >= len(ns) and tuple(td["ns"][: len(ns) - 1]) == ns[:-1]}
    siblings |= {td["name"].lower() for td in root["types"] if tuple(td["ns"]) == ns[:-1]}
    if name.lower() in siblings or name.strip("_").lower() in {x.strip("_") for x in siblings}:
        return u
    try:
        check_name(name)
    except Exception:
        return u
    v = copy.deepcopy(u)
    old_prefix = ".".join(ns)
    new_ns = list(ns[:-1]) + [name]
    new_prefix = ".".join(new_ns)

    def fix_ref(t):
        while t and t["t"] in ("farr", "varr"):
            t = t["elem"]
        if t and t["t"] == "ref" and (t["full"].startswith(old_prefix + ".")):
            t["full"] = new_prefix + t["full"][len(old_prefix) :]

    for td in v["roots"][0]["types"]:
        if tuple(td["ns"][: len(ns)]) == ns:
            td["ns"] = new_ns + td["ns"][len(ns) :]
        bodies = [td["body"]] if td["kind"] != "service" else [td["body"]["request"], td["body"]["response"]]
        for b in bodies:
            for a in b["attrs"]:
                if a["k"] == "field":
                    fix_ref(a["type"])
    return v


class ApiRunFailed(Exception):
    pass


class Env:
    def __init__(self, u: dict):
        self.u = u
        self.tmp = pathlib.Path(tempfile.mkdtemp(prefix="vf-c10-"))
        self.variants = [u] + ([make_variant(u)] if make_variant(u) else [])
        self.vi = 0
        self.select(0)
        self.tpl = self.tmp / "tpl"
        self.tpl.mkdir()
        self.model = {}
        self._paths: typing.Dict[tuple, typing.Dict[str, str]] = {}
        self.runs = 0
        self._init_tpl()

    def select(self, vi: int):
        self.vi = vi % len(self.variants)
        self.root = self.variants[self.vi]["roots"][0]
        self.types = {type_key(td): td for td in self.root["types"]}
        self.order = list(self.types)

    def _init_tpl(self):
        for n, text in USER_TEMPLATES.items():
            (self.tpl / n).write_text(text)
        for lang in ("c", "cpp"):
            (self.tmp / f"supns_{lang}.yaml").write_text(f"nunavut.lang.{lang}:\n  support_namespace: vendor.helpers\n")

    def close(self):
        shutil.rmtree(self.tmp, ignore_errors=True)

    def closure(self, keys: typing.Iterable[str]) -> typing.List[str]:
        out: typing.Set[str] = set()
        todo = list(keys)
        while todo:
            k = todo.pop()
            if k in out:
                continue
            out.add(k)
            todo += [d for d in deps_of(self.types[k]) if d in self.types]
        return [k for k in self.order if k in out]

    def rel_file(self, key: str, cfg: dict) -> str:
        """Output path of a type relative to --outdir (names may be stropped: the tree under test's own mapping is used,
        which is C11's subject)."""
        mk = (self.vi, cfg["argv"][1], cfg["ext"])
        if mk not in self._paths:
            import nunavut
            import pydsdl
            from nunavut.lang import LanguageContextBuilder

            d = pathlib.Path(tempfile.mkdtemp(prefix="vf-c10map-"))
            try:
                for td in self.root["types"]:
                    p = d / dsdlgen.typedef_relpath(td)
                    p.parent.mkdir(parents=True, exist_ok=True)
                    p.write_text(dsdlgen.typedef_text(td))
                types = pydsdl.read_namespace(str(d / self.root["name"]), [], allow_unregulated_fixed_port_id=True)
                lctx = LanguageContextBuilder(include_experimental_languages=True).set_target_language(cfg["argv"][1]).set_target_language_extension(cfg["ext"]).create()
                ns = nunavut.build_namespace_tree(types, str(d / self.root["name"]), "OUT", lctx)
                self._paths[mk] = {f"{t.full_name}.{t.version.major}.{t.version.minor}": str(pathlib.Path(path).relative_to("OUT")) for t, path in ns.get_all_datatypes()}
            finally:
                shutil.rmtree(d, ignore_errors=True)
        return self._paths[mk][key]

    def materialise(self, keys: typing.List[str], creation_order: typing.Optional[typing.List[int]] = None) -> pathlib.Path:
        d = self.tmp / "in"
        shutil.rmtree(d, ignore_errors=True)
        ks = list(keys)
        if creation_order:
            ks = [ks[i % len(ks)] for i in creation_order] + ks
        seen = set()
        for k in ks:
            if k in seen:
                continue
            seen.add(k)
            td = self.types[k]
            p = d / dsdlgen.typedef_relpath(td)
            p.parent.mkdir(parents=True, exist_ok=True)
            p.write_text(dsdlgen.typedef_text(td))
        return d / self.root["name"]

    def argv(self, cfg: dict, rootdir: pathlib.Path, out: pathlib.Path) -> typing.List[str]:
        a = [x.replace("@TPL@", str(self.tpl)).replace("@SUPCFG_c@", str(self.tmp / "supns_c.yaml")).replace("@SUPCFG_cpp@", str(self.tmp / "supns_cpp.yaml")) for x in cfg["argv"]]
        return a + ["--allow-unregulated-fixed-port-id", "--outdir", str(out), str(rootdir)]

    def run(self, keys: typing.List[str], cfg: dict, inproc: bool, hashseed: str = "0", creation_order=None) -> typing.Tuple[int, typing.Dict[str, bytes], str]:
        rootdir = self.materialise(keys, creation_order)
        out = self.tmp / "out"
        shutil.rmtree(out, ignore_errors=True)
        self.runs += 1
        if inproc:
            rc, so, se = tool.run_inproc(self.argv(cfg, rootdir, out), fake_time=FAKE_T)
        else:
            rc, so, se = tool.run_sub(self.argv(cfg, rootdir, out), hashseed=hashseed, fake_time=FAKE_T)
        files = tool.tree_files(out) if out.exists() else {}
        return rc, files, se

    def api_calls(self, keys: typing.List[str], lang: str, omits: typing.List[bool]) -> typing.List[typing.Dict[str, bytes]]:
        """One interpreter, one pair of generator objects, one generate_all() per entry of omits. Files per call."""
        import subprocess
        import sys

        rootdir = self.materialise(keys)
        out = self.tmp / "out"
        job = {"t": FAKE_T, "lang": lang, "root": str(rootdir), "out": str(out), "calls": [{"omit": bool(o)} for o in omits]}
        env = dict(os.environ, PYTHONHASHSEED="0", PYTHONDONTWRITEBYTECODE="1")
        self.runs += len(omits)
        p = subprocess.run([sys.executable, "-m", "vf.props.c10", "--api-worker"], input=json.dumps(job), capture_output=True, text=True, env=env, timeout=900)
        shutil.rmtree(out, ignore_errors=True)
        if p.returncode != 0:
            raise ApiRunFailed(p.stderr[-1200:])
        return [{k: bytes.fromhex(v) for k, v in call.items()} for call in json.loads(p.stdout.strip().splitlines()[-1])]

    def helper_calls(self, keys: typing.List[str], calls: typing.List[dict]) -> typing.List[typing.Dict[str, bytes]]:
        """One interpreter, one nunavut.generate_types() call per entry of calls ({"lang", "omit"}). Files per call."""
        import subprocess
        import sys

        rootdir = self.materialise(keys)
        out = self.tmp / "out"
        job = {"t": FAKE_T, "route": "helper", "root": str(rootdir), "out": str(out), "calls": calls}
        env = dict(os.environ, PYTHONHASHSEED="0", PYTHONDONTWRITEBYTECODE="1")
        self.runs += len(calls)
        p = subprocess.run([sys.executable, "-m", "vf.props.c10", "--api-worker"], input=json.dumps(job), capture_output=True, text=True, env=env, timeout=900)
        shutil.rmtree(out, ignore_errors=True)
        if p.returncode != 0:
            raise ApiRunFailed(p.stderr[-1200:])
        return [{k: bytes.fromhex(v) for k, v in call.items()} for call in json.loads(p.stdout.strip().splitlines()[-1])]

    def helper_model(self, keys: typing.List[str], lang: str, omit: bool) -> typing.Dict[str, bytes]:
        mk = ("helper", self.vi, lang, omit)
        if mk not in self.model:
            self.model[mk] = self.helper_calls(keys, [{"lang": lang, "omit": omit}])[0]
        return self.model[mk]

    def api_model(self, keys: typing.List[str], lang: str, omit: bool) -> typing.Dict[str, bytes]:
        mk = ("api", self.vi, lang, omit)
        if mk not in self.model:
            self.model[mk] = self.api_calls(keys, lang, [omit])[0]
        return self.model[mk]

    _UNSHARE_OK: typing.Optional[bool] = None

    def prefetch_models(self, cfgs: typing.List[dict], jobs: int = 12) -> int:
        """
        The per-type model runs (dependency closure of ONE type, fresh process) are independent of each other: run them in
        parallel, each in a private mount namespace in which its own input / output directories are bind-mounted onto the
        canonical absolute paths (so that every model run sees exactly the paths a sequential run sees).  Falls back to the lazy
        sequential computation when mount namespaces are not available.
        """
        import concurrent.futures
        import subprocess

        if Env._UNSHARE_OK is None:
            try:
                Env._UNSHARE_OK = subprocess.run(["unshare", "-m", "true"], capture_output=True, timeout=20).returncode == 0
            except (OSError, subprocess.SubprocessError):
                Env._UNSHARE_OK = False
        if not Env._UNSHARE_OK:
            return 0
        todo = [(k, c) for c in cfgs for k in self.order if (self.vi, k, c["name"]) not in self.model]
        if not todo:
            return 0
        can_in, can_out = self.tmp / "in", self.tmp / "out"
        shutil.rmtree(can_in, ignore_errors=True)
        shutil.rmtree(can_out, ignore_errors=True)
        can_in.mkdir()
        can_out.mkdir()
        base = self.tmp / "prefetch"
        shutil.rmtree(base, ignore_errors=True)

        def one(i_kc):
            i, (key, cfg) = i_kc
            d = base / str(i)
            for k in self.closure([key]):
                td = self.types[k]
                f = d / "in" / dsdlgen.typedef_relpath(td)
                f.parent.mkdir(parents=True, exist_ok=True)
                f.write_text(dsdlgen.typedef_text(td))
            (d / "out").mkdir(parents=True, exist_ok=True)
            argv = self.argv(cfg, can_in / self.root["name"], can_out)
            env = dict(os.environ, PYTHONHASHSEED="0", PYTHONDONTWRITEBYTECODE="1", PYTHONPATH=str(core.REPO / "src"))
            env.pop("DSDL_INCLUDE_PATH", None)
            inner_cmd = [tool.PY, tool.WRAP, "--fake-time", repr(float(FAKE_T)), "--"] + [str(a) for a in argv]
            script = 'mount --bind "$1" "$2" && mount --bind "$3" "$4" && shift 4 && exec "$@"'
            p = subprocess.run(["unshare", "-m", "sh", "-c", script, "sh", str(d / "in"), str(can_in), str(d / "out"), str(can_out)] + inner_cmd,
                               capture_output=True, text=True, env=env, timeout=600)
            files = tool.tree_files(d / "out") if p.returncode == 0 else {}
            shutil.rmtree(d, ignore_errors=True)
            return key, cfg, p.returncode, files, p.stderr

        n = 0
        with concurrent.futures.ThreadPoolExecutor(max_workers=jobs) as ex:
            for key, cfg, rc, files, se in ex.map(one, enumerate(todo)):
                self.runs += 1
                if rc != 0:
                    continue  # left to the lazy path, which reports the failure with its context
                blob = files.get(self.rel_file(key, cfg))
                if blob is not None:
                    self.model[(self.vi, key, cfg["name"])] = blob
                    n += 1
        shutil.rmtree(base, ignore_errors=True)
        shutil.rmtree(can_in, ignore_errors=True)
        shutil.rmtree(can_out, ignore_errors=True)
        return n

    def model_bytes(self, key: str, cfg: dict) -> typing.Optional[bytes]:
        mk = (self.vi, key, cfg["name"])
        if mk not in self.model:
            rc, files, se = self.run(self.closure([key]), cfg, inproc=False)
            if rc != 0:
                raise core.HarnessError(f"model run failed for {key} {cfg['name']}: {se[-800:]}")
            self.model[mk] = files.get(self.rel_file(key, cfg))
            if self.model[mk] is None:
                raise core.HarnessError(f"model run did not produce {self.rel_file(key, cfg)}: {sorted(files)}")
        return self.model[mk]


API_LANGS = {"c": ("c", ".h", {}), "cpp": ("cpp", ".hpp", {"std": "c++17"}), "py": ("py", ".py", {})}


def _api_worker() -> int:
    """
    python -m vf.props.c10 --api-worker  (job on stdin): the documented library route -- read_namespace, build_namespace_tree,
    DSDLCodeGenerator / SupportGenerator -- with ONE pair of generator objects used for every call of the job (each call may pass other
    per-call arguments), under the fake clock.  Prints {call index: {relative path: hex}}.
    """
    import json as _json
    import sys as _sys

    from .. import nnvg_wrap

    job = _json.loads(_sys.stdin.read())
    nnvg_wrap._fake_time(float(job["t"]))
    import nunavut
    import pydsdl
    from nunavut.lang import Language, LanguageContextBuilder

    if job.get("route") == "helper":
        # nunavut.generate_types(): "the most direct way to generate code" -- default settings, possibly another language per call
        res = []
        out = pathlib.Path(job["out"])
        for call in job["calls"]:
            shutil.rmtree(out, ignore_errors=True)
            l_, _, opt_ = API_LANGS[call["lang"]]
            nunavut.generate_types(l_, pathlib.Path(job["root"]), out, omit_serialization_support=call["omit"], allow_unregulated_fixed_port_id=True,
                                   language_options=dict(opt_), include_experimental_languages=True)
            res.append({k: v.hex() for k, v in tool.tree_files(out).items()})
        _sys.stdout.write("\n" + _json.dumps(res) + "\n")
        return 0
    lang, _, options = API_LANGS[job["lang"]]
    lctx = (LanguageContextBuilder(include_experimental_languages=True).set_target_language(lang)
            .set_target_language_configuration_override(Language.WKCV_LANGUAGE_OPTIONS, options).create())
    types = pydsdl.read_namespace(job["root"], [], allow_unregulated_fixed_port_id=True)
    ns = nunavut.build_namespace_tree(types, job["root"], job["out"], lctx)
    from nunavut.jinja import DSDLCodeGenerator, SupportGenerator  # the documented library use (nunavut/__init__.py)

    gen, sup = DSDLCodeGenerator(ns), SupportGenerator(ns)
    res = []
    out = pathlib.Path(job["out"])
    for call in job["calls"]:
        shutil.rmtree(out, ignore_errors=True)
        sup.generate_all(False, True, call["omit"], False)
        gen.generate_all(False, True, call["omit"], False)
        res.append({k: v.hex() for k, v in tool.tree_files(out).items()})
    _sys.stdout.write("\n" + _json.dumps(res) + "\n")
    return 0


def first_diff(a: bytes, b: bytes) -> str:
    la, lb = a.decode(errors="replace").split("\n"), b.decode(errors="replace").split("\n")
    for i, (x, y) in enumerate(zip(la, lb)):
        if x != y:
            return f"line {i + 1}: model {x[:100]!r} vs produced {y[:100]!r}"
    return f"length differs: model {len(la)} lines vs produced {len(lb)} lines"


def _model_blob(text: str) -> typing.Optional[typing.Tuple[str, bytes]]:
    """(file text with the _MODEL_ blob removed, decoded pickle) for generated Python modules."""
    import base64
    import gzip
    import re

    m = re.search(r"_restore_constant_\(\s*((?:'[^']*'\s*)+)\)", text)
    if not m:
        return None
    blob = "".join(re.findall(r"'([^']*)'", m.group(1)))
    try:
        return text[: m.start(1)] + text[m.end(1) :], gzip.decompress(base64.b85decode(blob))
    except Exception:
        return None


def classify(a: bytes, b: bytes) -> str:
    """Root-cause discriminator from the shape of the first difference."""
    ma, mb = _model_blob(a.decode(errors="replace")), _model_blob(b.decode(errors="replace"))
    if ma and mb and ma[0] == mb[0]:
        # only the embedded pickle differs: do the two pickles denote equal models?
        import pickle

        try:
            if pickle.loads(ma[1]) == pickle.loads(mb[1]):
                return "pickled-model-cache-state"
        except Exception:
            pass
        return "pickled-model-differs"
    la, lb = a.decode(errors="replace").split("\n"), b.decode(errors="replace").split("\n")
    if [l for l in la if l.strip()] == [l for l in lb if l.strip()]:
        return "blank-lines-differ"
    import re

    norm = lambda ls: [re.sub(r"\d+", "N", l) for l in ls if l.strip()]
    if norm(la) == norm(lb):
        return "numbering-differs"
    return "content-differs"


def compare(ctx: core.Ctx, env: Env, keys: typing.List[str], cfg: dict, files: typing.Dict[str, bytes], how: str, trace: list) -> bool:
    ok = True
    for pos, k in enumerate(keys):
        rel = env.rel_file(k, cfg)
        exp = env.model_bytes(k, cfg)
        got = files.get(rel)
        if got is None:
            ctx.fail(f"C10|{cfg['name'].split('+')[0]}|type-file-missing|{how}", f"{rel} not produced when generating {keys}", {"universe": env.u, "trace": trace})
            ok = False
        elif got != exp:
            kind = classify(exp, got)
            sig = f"C10|{cfg['name']}|{kind}" if kind == "pickled-model-cache-state" else f"C10|{cfg['name']}|{kind}|{how}"
            ctx.fail(
                sig,
                f"{rel} (position {pos} of {len(keys)} in the run) differs from the file generated alone in a fresh process: {first_diff(exp, got)}",
                {"universe": env.u, "trace": trace},
            )
            if not ctx.is_known(sig):  # a listed finding does not end the machine: the search continues behind it
                ok = False
    return ok


def make_machine(ctx: core.Ctx, configs: typing.List[dict]):
    class Runs(RuleBasedStateMachine):
        def __init__(self):
            super().__init__()
            self.env: typing.Optional[Env] = None
            self.trace: typing.List[dict] = []
            self.shared_types = 0
            self.inproc_runs = 0
            self.seen_keys: typing.Set[str] = set()
            self.not_first = False

        @initialize(u=dsdlgen.universe(profile="adversarial_nomacro", max_roots=1, max_types=6, services=True, max_type_bits=2000), pick=st.integers(0, 50), do=st.booleans())
        def setup(self, u, pick, do):
            # the same token as attribute name and as namespace (path) component -- a stropping-memo trap
            self.env = Env(coincide(u, pick) if (do or pick % 2) else u)
            for vi in range(len(self.env.variants)):
                self.env.select(vi)
                ctx.event("model_runs_prefetched_in_parallel", self.env.prefetch_models(configs))
            self.env.select(0)
            if len(self.env.variants) > 1:
                # directed prologue: revision 0, revision 1, revision 0 of the namespace in this interpreter
                cfg = ["c", "cpp", "py"][pick % 3]
                for v in (0, 1, 0):
                    self.step({"seeds": None, "cfg": cfg, "inproc": True, "variant": v})

        def step(self, step: dict) -> None:
            env = self.env
            assert env is not None
            cfg = [c for c in CONFIGS if c["name"] == step["cfg"]][0]
            env.select(step.get("variant", 0))
            keys = env.closure([env.order[i % len(env.order)] for i in step["seeds"]]) if step["seeds"] is not None else list(env.order)
            self.trace.append(step)
            if step.get("abort"):
                # a generation that ABORTS in the middle (an external post-processor that exits non-zero right after the first type
                # file was rendered) inside this interpreter: whatever it leaves behind must not show in later runs
                cfg_fail = dict(cfg, argv=list(cfg["argv"]) + ["--generate-support", "never", "--pp-run-program", "false"])
                rc, _, _ = env.run(keys, cfg_fail, inproc=True)
                ctx.event("aborted-run-in-interpreter" + ("" if rc != 0 else ".did-not-fail"))
                # ... followed at once by a run that generates the type files only (no support file is rendered in between)
                cfg_ns = dict(cfg, argv=list(cfg["argv"]) + ["--generate-support", "never"])
                rc, files, se = env.run(keys, cfg_ns, inproc=True)
                if rc != 0:
                    ctx.fail(f"C10|{cfg['name'].split('+')[0]}|run-failed|inproc-after-aborted-run", f"generating {keys}: {se[-600:]}", {"universe": env.variants[0], "trace": list(self.trace)})
                    raise AssertionError("run failed")
                self.inproc_runs += 1
                if not compare(ctx, env, keys, cfg, files, "same-interpreter|after-aborted-run", list(self.trace)):
                    raise AssertionError("type file differs from model")
                return
            rc, files, se = env.run(keys, cfg, inproc=step["inproc"], hashseed=step.get("hashseed", "0"), creation_order=step.get("creation"))
            if rc != 0:
                ctx.fail(f"C10|{cfg['name'].split('+')[0]}|run-failed|{'inproc' if step['inproc'] else 'fresh'}", f"generating {keys}: {se[-600:]}", {"universe": env.variants[0], "trace": list(self.trace)})
                raise AssertionError("run failed")
            if step["inproc"]:
                self.inproc_runs += 1
                if self.seen_keys & set(keys):
                    self.shared_types += 1
                if any(k in self.seen_keys and pos > 0 for pos, k in enumerate(keys)):
                    self.not_first = True
                self.seen_keys |= set(keys)
            how = ("same-interpreter" if step["inproc"] else f"fresh-process-hashseed") + ("|subset" if step["seeds"] is not None else "|whole-namespace")
            if not compare(ctx, env, keys, cfg, files, how, list(self.trace)):
                raise AssertionError("type file differs from model")

        @rule(cfg=st.sampled_from(["c", "c+pp", "cpp", "user", "user+limit1"]))
        def aborted_run_inproc(self, cfg):
            self.step({"seeds": None, "cfg": cfg, "inproc": True, "abort": True})

        @rule(seeds=st.lists(st.integers(0, 5), min_size=1, max_size=3), cfg=st.sampled_from([c["name"] for c in configs]), creation=st.lists(st.integers(0, 5), max_size=4))
        def run_subset_inproc(self, seeds, cfg, creation):
            self.step({"seeds": seeds, "cfg": cfg, "inproc": True, "creation": creation})

        @rule(cfg=st.sampled_from([c["name"] for c in configs]), variant=st.integers(0, 1))
        def run_revision_inproc(self, cfg, variant):
            # a later / earlier revision of the namespace in the same interpreter (a type keeps its name and layout but
            # refers to another type)
            self.step({"seeds": None, "cfg": cfg, "inproc": True, "variant": variant})

        @rule(lang=st.sampled_from(["c", "c", "cpp", "py"]), omits=st.lists(st.booleans(), min_size=2, max_size=3), variant=st.integers(0, 1))
        def reuse_generator_objects(self, lang, omits, variant):
            self.api_step({"api": True, "lang": lang, "omits": omits, "variant": variant})

        def api_step(self, step: dict) -> None:
            """
            Library route: ONE pair of generator objects, several generate_all() calls with per-call arguments (here: with and
            without serialization support).  Every call must produce, for every type, what the same single call produces on
            fresh generator objects in a fresh process.
            """
            env = self.env
            assert env is not None
            env.select(step.get("variant", 0))
            keys = list(env.order)
            lang, omits = step["lang"], step["omits"]
            self.trace.append(step)
            cfg = {"name": lang, "argv": ["--target-language", API_LANGS[lang][0]], "ext": API_LANGS[lang][1]}
            try:
                calls = env.api_calls(keys, lang, omits)
                models = {o: env.api_model(keys, lang, o) for o in sorted(set(omits))}
            except ApiRunFailed as e:
                ctx.fail(f"C10|{lang}|run-failed|api", f"library route failed for {keys}: {e}", {"universe": env.variants[0], "trace": list(self.trace)})
                raise AssertionError("api run failed")
            ctx.event("api.reused-generator-calls", len(omits))
            if len(set(omits)) > 1:
                ctx.event("api.reused-generator-with-other-arguments")
            self.inproc_runs += len(omits)
            self.shared_types += 1
            self.not_first = True
            for i, (o, files) in enumerate(zip(omits, calls)):
                for k in keys:
                    rel = env.rel_file(k, cfg)
                    exp, got = models[o].get(rel), files.get(rel)
                    if exp is None:
                        raise core.HarnessError(f"api model lacks {rel}: {sorted(models[o])}")
                    if got != exp:
                        kind = "type-file-missing" if got is None else classify(exp, got)
                        sig = f"C10|{lang}|{kind}|reused-generator-objects|call-{'first' if i == 0 else 'later'}"
                        ctx.fail(sig, f"{rel}: call {i + 1} of {omits} (omit_serialization_support per call) on one generator differs from the same call on fresh "
                                 f"generator objects in a fresh process: {first_diff(exp, got) if got is not None else 'missing'}", {"universe": env.variants[0], "trace": list(self.trace)})
                        raise AssertionError("type file differs from model")

        @rule(calls=st.lists(st.tuples(st.sampled_from(["c", "cpp", "py"]), st.booleans()), min_size=2, max_size=4), variant=st.integers(0, 1))
        def helper_calls_in_one_interpreter(self, calls, variant):
            self.helper_step({"helper": True, "calls": [{"lang": l, "omit": o} for l, o in calls], "variant": variant})

        def helper_step(self, step: dict) -> None:
            """
            nunavut.generate_types() several times in ONE interpreter, each call possibly for another language: every call must
            produce, for every type, what the same single call produces in a fresh process.
            """
            env = self.env
            assert env is not None
            env.select(step.get("variant", 0))
            keys = list(env.order)
            self.trace.append(step)
            try:
                got_calls = env.helper_calls(keys, step["calls"])
                models = {(c["lang"], c["omit"]): env.helper_model(keys, c["lang"], c["omit"]) for c in step["calls"]}
            except ApiRunFailed as e:
                ctx.fail("C10|helper|run-failed|api", f"nunavut.generate_types failed for {keys}: {e}", {"universe": env.variants[0], "trace": list(self.trace)})
                raise AssertionError("helper run failed")
            ctx.event("api.helper-calls", len(step["calls"]))
            if len({c["lang"] for c in step["calls"]}) > 1:
                ctx.event("api.helper-calls-for-several-languages")
            self.inproc_runs += len(step["calls"])
            self.shared_types += 1
            self.not_first = True
            for i, (c, files) in enumerate(zip(step["calls"], got_calls)):
                lang = c["lang"]
                cfg = {"name": lang, "argv": ["--target-language", API_LANGS[lang][0]], "ext": API_LANGS[lang][1]}
                for k in keys:
                    rel = env.rel_file(k, cfg)
                    exp, got = models[(lang, c["omit"])].get(rel), files.get(rel)
                    if exp is None:
                        raise core.HarnessError(f"helper model lacks {rel}")
                    if got != exp:
                        kind = "type-file-missing" if got is None else classify(exp, got)
                        sig = f"C10|{lang}|{kind}|generate_types-helper|call-{'first' if i == 0 else 'later'}"
                        ctx.fail(sig, f"{rel}: call {i + 1} of {step['calls']} (nunavut.generate_types in one interpreter) differs from the same call alone in a "
                                 f"fresh process: {first_diff(exp, got) if got is not None else 'missing'}", {"universe": env.variants[0], "trace": list(self.trace)})
                        raise AssertionError("type file differs from model")

        @rule(cfg=st.sampled_from([c["name"] for c in configs]))
        def run_whole_inproc(self, cfg):
            self.step({"seeds": None, "cfg": cfg, "inproc": True})

        @rule(cfg=st.sampled_from([c["name"] for c in configs]), hashseed=st.sampled_from(["1", "2", "12345", "999"]))
        def run_whole_fresh_other_hashseed(self, cfg, hashseed):
            self.step({"seeds": None, "cfg": cfg, "inproc": False, "hashseed": hashseed})

        def teardown(self):
            if self.env is not None:
                ctx.case(
                    ("c10", self.env.u, self.trace),
                    nontrivial=self.inproc_runs >= 2 and self.shared_types >= 1 and self.not_first,
                    sample={"types": self.env.order, "steps": self.trace[:6]},
                    classes=["machines", f"steps={min(len(self.trace), 8)}"] + sorted({"cfg." + (s["cfg"] if "cfg" in s else "helper" if s.get("helper") else "api-" + s["lang"]) for s in self.trace}) + (["fresh_hashseed_run"] if any(not s.get("inproc", True) for s in self.trace) else [])
                    + (["revision_run"] if len({s.get("variant", 0) for s in self.trace if s.get("inproc", True)}) > 1 else []) + (["has_revision_variant"] if len(self.env.variants) > 1 else []),
                )
                ctx.event("tool_runs", self.env.runs)
                ctx.event("model_files", len(self.env.model))
                self.env.close()

    return Runs


def run(ctx: core.Ctx):
    ctx.rule = (
        "case = one machine: a generated namespace and a sequence of <= 8 generator runs (subsets / whole namespace / other hash "
        "seed; alternating configurations) checked against per-type model files; non-trivial = >= 2 runs in the same "
        "interpreter sharing >= 1 type which is not first in processing order in at least one of them; distinct by hash of "
        "(universe, step sequence)"
    )
    ctx.assumptions = [
        "model = the type's dependency closure generated alone in a fresh process with the same options and absolute paths",
        "only type files (<Short>_<M>_<m><ext>) are compared: namespace files legitimately list siblings",
        "html target not included (its pages embed namespace navigation)",
    ]
    n = 8 if ctx.quick else 80
    machine = make_machine(ctx, CONFIGS)
    # directed history first: a namespace with two versions of one type that have DIFFERENT dependencies, nested namespaces, a
    # union and a service; whole namespace / each version alone / whole again in one interpreter, then the library route
    m = machine()
    m.env = Env(DIRECTED_UNIVERSE)
    try:
        ctx.event("model_runs_prefetched_in_parallel", m.env.prefetch_models([c for c in CONFIGS if c["name"] in ("c", "c+supns", "cpp", "cpp+supns", "py", "user+limit1")]))
        nkeys = len(m.env.order)
        axles = [i for i, k in enumerate(m.env.order) if ".Axle." in k]
        for cfg in ("c", "c+supns", "cpp", "cpp+supns", "py", "user+limit1"):
            if cfg in ("c", "cpp", "user+limit1"):
                m.step({"seeds": None, "cfg": cfg, "inproc": True, "abort": True})
            m.step({"seeds": None, "cfg": cfg, "inproc": True})
            if cfg.endswith("+supns"):
                m.step({"seeds": None, "cfg": cfg.split("+")[0], "inproc": True})
                continue
            for i in axles:
                m.step({"seeds": [i], "cfg": cfg, "inproc": True})
            m.step({"seeds": None, "cfg": cfg, "inproc": True})
        for lang in ("c", "cpp", "py"):
            m.api_step({"api": True, "lang": lang, "omits": [False, True, False], "variant": 0})
            m.api_step({"api": True, "lang": lang, "omits": [True, False], "variant": 0})
        # the helper route across languages in one interpreter (a language that configures no post-processors before and after
        # languages that do)
        m.helper_step({"helper": True, "calls": [{"lang": "cpp", "omit": False}, {"lang": "c", "omit": False}, {"lang": "cpp", "omit": False}, {"lang": "py", "omit": True}, {"lang": "cpp", "omit": True}], "variant": 0})
        ctx.event("directed_history_completed")
    except AssertionError:
        pass
    finally:
        m.teardown()
    try:
        run_state_machine_as_test(hypothesis.seed(ctx.seed)(machine), settings=core.hsettings(n, shrink=not os.environ.get("VF_NO_SHRINK"), stateful_step_count=6 if ctx.quick else 12))
    except AssertionError:
        pass
    ctx.require("machines", 5)


def replay(ctx: core.Ctx, case):
    env = Env(case["universe"])
    out: typing.List[typing.Tuple[str, str]] = []
    sub = core.Ctx(ctx.prop, ctx.tier, ctx.seed)
    try:
        for step in case["trace"]:
            if step.get("api") or step.get("helper"):
                M = make_machine(sub, CONFIGS)
                m = M()
                m.env = env
                try:
                    m.api_step(step) if step.get("api") else m.helper_step(step)
                except AssertionError:
                    break
                continue
            cfg = [c for c in CONFIGS if c["name"] == step["cfg"]][0]
            env.select(step.get("variant", 0))
            keys = env.closure([env.order[i % len(env.order)] for i in step["seeds"]]) if step["seeds"] is not None else list(env.order)
            rc, files, se = env.run(keys, cfg, inproc=step["inproc"], hashseed=step.get("hashseed", "0"), creation_order=step.get("creation"))
            if rc != 0:
                out.append((f"C10|{cfg['name'].split('+')[0]}|run-failed", se[-300:]))
                break
            how = ("same-interpreter" if step["inproc"] else "fresh-process-hashseed") + ("|subset" if step["seeds"] is not None else "|whole-namespace")
            compare(sub, env, keys, cfg, files, how, [])
        out += [(s, e["what"]) for s, e in sub.failures.items()]
    finally:
        env.close()
    return out


if __name__ == "__main__":
    import sys

    if "--api-worker" in sys.argv:
        sys.exit(_api_worker())
