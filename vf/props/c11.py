"""
C11 -- types map one-to-one onto files in the output tree; the namespace model handed to templates is a tree.

Domain : sets of full DSDL type names under one root namespace (depth 1..6, empty intermediate namespaces, several
         versions of one short name incl. major 0, keywords / reserved patterns as namespace components, root name and
         short names), optionally a second root namespace whose types reference types of the first
         x target language {c, cpp, py, html} x extension override x namespace-stem override
         x --outdir spelling {relative, absolute, trailing slash, ./x/../out}.
         Names that collide case-insensitively (forbidden by DSDL, although pydsdl only notices on reference) or that
         the language's documented one-way stropping folds onto one identifier are excluded by construction and counted.
Oracle : invariants on nunavut.build_namespace_tree (see check_tree), order / PYTHONHASHSEED independence of the
         observable model, equality of "generated" and "referenced" relative paths across root namespaces, and -- for a
         subset -- the files the real CLI creates inside a sandbox that encloses --outdir.
Levels : A  in-process API (Hypothesis)          H  same observation in subprocesses with other hash seeds
         R  real CLI runs (in-process and subprocess) for the richest cases of every language x outdir spelling
"""
from __future__ import annotations

import collections
import json
import os
import pathlib
import re
import shutil
import subprocess
import sys
import tempfile
import typing

from hypothesis import strategies as st

from .. import core, tool

LANGS = ["c", "cpp", "py", "html"]
SPELLINGS = ["rel", "abs", "slash", "dotdot", "nested", "abs_slash"]
DEFAULT_EXT = {"c": ".h", "cpp": ".hpp", "py": ".py", "html": ".html"}  # documented defaults (properties.yaml)
DEFAULT_STEM = {"c": "_namespace_", "cpp": "_namespace_", "py": "__init__", "html": "index"}
NS_FILES_BY_DEFAULT = {"c": False, "cpp": False, "py": True, "html": True}  # has_standard_namespace_files
EXTS = {
    "c": [None, None, ".h", ".hh", ".g.h", ".c"],
    "cpp": [None, None, ".hpp", ".hh", ".x"],
    "py": [None, None, ".py", ".pyi"],
    "html": [None, None, ".html", ".htm"],
}
STEMS = [None, None, "_n_", "idx", "Namespace0"]
VERSIONS = [[1, 0], [1, 0], [1, 1], [0, 1], [2, 0], [0, 2], [1, 10], [255, 255], [3, 7], [0, 255]]
BODY = "uint8 x\n@sealed\n"
# kinds of composite types (one kind per short name, so that versions of one name stay compatible)
KINDS = ["struct", "struct", "struct", "delimited", "union", "service"]
BODIES = {
    "struct": BODY,
    "delimited": "uint8 x\n@extent 64\n",
    "union": "@union\nuint8 a\nuint16 b\n@sealed\n",
    "service": "uint8 x\n@sealed\n---\nuint8 y\n@sealed\n",
}

# ---------------------------------------------------------------------------------------------------------- DSDL names
_DSDL_WORDS = {
    "truncated", "saturated", "true", "false", "bool", "optional", "aligned", "const", "struct", "super", "template",
    "enum", "self", "and", "or", "not", "auto", "type", "con", "prn", "aux", "nul",
}  # fmt: skip
_DSDL_PATTERNS = [
    re.compile(p) for p in (r"void\d*$", r"u?int\d*$", r"u?q\d+_\d+$", r"float\d*$", r"com\d$", r"lpt\d$", r"_.*_$")
]


def dsdl_ok(name: str) -> bool:
    """The naming rule of the DSDL specification as pydsdl implements it (case-insensitive disallowed names)."""
    if not re.fullmatch(r"[A-Za-z_][A-Za-z0-9_]*", name):
        return False
    low = name.lower()
    return low not in _DSDL_WORDS and not any(p.match(low) for p in _DSDL_PATTERNS)


PLAIN = ["a", "b", "c", "alpha", "Beta", "g7", "x_y", "node", "Msg", "T", "data9", "Zz", "q", "uav", "Type1"]
KEYWORDS = [
    "register", "for", "class", "def", "None", "if", "while", "switch", "namespace", "new", "delete", "this", "union",
    "default", "double", "long", "return", "static", "volatile", "is", "in", "del", "print", "id", "str", "min", "max",
    "lambda", "import", "with", "pass", "list", "len", "object", "NULL", "errno", "assert", "char", "friend", "typename",
    "try", "catch",
]  # fmt: skip
PATTERNED = [
    "_Upper", "__x", "_x", "x__", "a__b", "___y", "_Ab", "_9", "_", "__9z", "A_1_0", "B_1", "for_", "_register", "_for",
    "register_", "None_", "_upper", "__Upper",
]  # fmt: skip
# names the property excepts when they meet as siblings: case-only differences and stropping folds (per language)
COLLIDING = [
    ["__x", "_x", "___x"], ["for", "for_"], ["register", "_register"], ["_Upper", "__Upper", "_upper"],
    ["None", "None_"], ["class", "_class", "class_"], ["Beta", "beta", "BETA"], ["Msg", "msg"], ["_Ab", "_ab", "__Ab"],
    ["def", "def_", "Def"], ["__9z", "_9z"],
]  # fmt: skip
assert all(dsdl_ok(n) for n in PLAIN + KEYWORDS + PATTERNED + sum(COLLIDING, []))

name_st = st.one_of(
    st.sampled_from(PLAIN),
    st.sampled_from(KEYWORDS),
    st.sampled_from(PATTERNED),
    st.from_regex(r"[A-Za-z_][A-Za-z0-9_]{0,5}", fullmatch=True).filter(dsdl_ok),
)


@st.composite
def case_strategy(draw):
    lang = draw(st.sampled_from(LANGS))
    n = draw(st.integers(1, 8))
    comps = draw(st.lists(name_st, min_size=1, max_size=5, unique=True))
    shorts = draw(st.lists(name_st, min_size=1, max_size=4, unique=True))
    # now and then a whole group of names that collide (case / stropping fold) so that the exclusion is exercised
    which = draw(st.integers(0, 11))
    if which < 2:
        grp = draw(st.sampled_from(COLLIDING))
        tgt = comps if which == 0 else shorts
        k = draw(st.integers(0, len(tgt)))
        tgt[k:k] = [g for g in grp if g not in tgt]
    return {
        "lang": lang,
        "ext": draw(st.sampled_from(EXTS[lang])),
        "stem": draw(st.sampled_from(STEMS)),
        "outdir": draw(st.sampled_from(SPELLINGS)),
        "root": draw(name_st),
        "comps": comps,
        "shorts": shorts,
        "types": [
            {
                "ns": draw(st.lists(st.integers(0, 7), max_size=5)),
                "s": draw(st.integers(0, 6)),
                "v": draw(st.sampled_from(VERSIONS)),
            }
            for _ in range(n)
        ],
        "keys": draw(st.lists(st.integers(0, 9), min_size=n, max_size=n)),
        "kinds": draw(st.lists(st.integers(0, len(KINDS) - 1), min_size=7, max_size=7)),
        "root2": draw(
            st.one_of(
                st.none(),
                st.fixed_dictionaries({"name": name_st, "refs": st.lists(st.integers(0, 7), min_size=1, max_size=3)}),
            )
        ),
    }


# ------------------------------------------------------------------------------------- stropping rules, read as documented
class Strop:
    """The documented stropping rules for the 'path' identifier type, read from the language configuration."""

    def __init__(self, lang: str):
        import builtins
        import keyword

        import yaml

        cfg = yaml.safe_load((core.REPO / "src/nunavut/lang/properties.yaml").read_text())["nunavut.lang." + lang]
        self.enabled = bool(cfg.get("enable_stropping", False))
        self.reserved = set(cfg.get("reserved_identifiers") or [])
        if lang == "py":
            self.reserved |= set(keyword.kwlist) | set(dir(builtins))
        self.patterns = [re.compile(p) for p in (cfg.get("reserved_token_patterns_by_type") or {}).get("all", [])]
        self.encoding = [re.compile(p) for p in (cfg.get("token_encoding_rules_by_identifier_type") or {}).get("all", [])]

    def needs(self, name: str) -> bool:
        if not self.enabled:
            return False
        return (
            name in self.reserved
            or any(p.match(name) for p in self.patterns)
            or any(p.search(name) for p in self.encoding)
        )

    def valid(self, out: str) -> bool:
        return bool(re.fullmatch(r"[A-Za-z_][A-Za-z0-9_]*", out)) and not self.needs(out)


class LangInfo:
    def __init__(self, lang: str, ext: typing.Optional[str], stem: typing.Optional[str], strop: Strop, fresh):
        self.name = lang
        self.ext = ext if ext is not None else DEFAULT_EXT[lang]
        self.stem = stem if stem is not None else DEFAULT_STEM[lang]
        self.strop = strop
        self.lctx = make_lctx(lang, ext, stem)
        self.L = self.lctx.get_target_language()
        self._fresh = fresh  # a second, independently created language object of the same target (determinism)
        self._memo: typing.Dict[str, typing.Tuple[typing.Optional[str], typing.Optional[str]]] = {}

    def component(self, name: str) -> typing.Tuple[typing.Optional[str], typing.Optional[str]]:
        """(what the language's path id filter returns, problem or None); memoised, checked against a fresh context."""
        if name not in self._memo:
            try:
                got = self.L.filter_id(name, "path")
                again = self._fresh.filter_id(name, "path")
                prob = None
                if got != again:
                    prob = f"not deterministic: {got!r} then {again!r} in a fresh language context"
                elif not self.strop.needs(name) and got != name:
                    prob = f"name needs no stropping by the documented rules but became {got!r}"
                elif not self.strop.valid(got):
                    prob = f"stropped form {got!r} is not a valid non-reserved identifier by the documented rules"
                self._memo[name] = (got, prob)
            except Exception as e:  # the filter must be total on DSDL names
                self._memo[name] = (None, f"path id filter raised {type(e).__name__}: {e}")
        return self._memo[name]

    def fold(self, name: str) -> str:
        got, _ = self.component(name)
        return (got if got is not None else name).lower()


def make_lctx(lang: str, ext: typing.Optional[str], stem: typing.Optional[str]):
    from nunavut.lang import Language, LanguageContextBuilder

    b = LanguageContextBuilder(include_experimental_languages=True).set_target_language(lang)
    if ext is not None:
        b.set_target_language_extension(ext)
    if stem is not None:
        b.set_target_language_configuration_override(Language.WKCV_NAMESPACE_FILE_STEM, stem)
    return b.create()


class Env:
    def __init__(self):
        self.tmp = pathlib.Path(tempfile.mkdtemp(prefix="vf-c11-")).resolve()
        self.n = 0
        self._langs: typing.Dict[tuple, LangInfo] = {}
        self._strops: typing.Dict[str, Strop] = {}
        self._fresh: typing.Dict[str, typing.Any] = {}
        self.api_cases = 0
        self.wid = 0
        self.hash_every = 60
        self.real_per_combo = 1
        self.reservoir: typing.Dict[typing.Tuple[str, str], typing.List[typing.Tuple[int, int, dict]]] = {}

    def lang(self, lang, ext, stem) -> LangInfo:
        k = (lang, ext, stem)
        if k not in self._langs:
            if lang not in self._strops:
                self._strops[lang] = Strop(lang)
                self._fresh[lang] = make_lctx(lang, None, None).get_target_language()
            self._langs[k] = LangInfo(lang, ext, stem, self._strops[lang], self._fresh[lang])
        return self._langs[k]

    def newdir(self) -> pathlib.Path:
        self.n += 1
        d = self.tmp / f"k{self.n}"
        d.mkdir()
        return d

    def close(self):
        shutil.rmtree(self.tmp, ignore_errors=True)


# ------------------------------------------------------------------------------------------------------------- model
def normalize(case, li: LangInfo) -> dict:
    """Resolve the drawn indices into a valid, collision-free type set (exclusions are counted, never repaired)."""
    excl: typing.Counter[str] = collections.Counter()
    root = case["root"]
    comps: typing.List[str] = []
    low: typing.Set[str] = set()
    folds: typing.Set[str] = set()
    for c in case["comps"]:
        if c in comps:
            continue
        if c.lower() in low:
            excl["case"] += 1
            continue
        if li.fold(c) in folds:
            excl["fold"] += 1
            continue
        low.add(c.lower())
        folds.add(li.fold(c))
        comps.append(c)
    shorts: typing.List[str] = []
    for s in case["shorts"]:
        if s in comps or s in shorts:
            if s in comps:
                excl["case"] += 1  # a type and a namespace of one name
            continue
        if s.lower() in low:
            excl["case"] += 1
            continue
        low.add(s.lower())
        shorts.append(s)
    k = 0
    while not shorts:
        if f"t{k}" not in low:
            shorts.append(f"T{k}")
        k += 1
    kd = case.get("kinds") or [0]
    kinds = {s: KINDS[kd[i % len(kd)]] for i, s in enumerate(shorts)}
    types: typing.List[tuple] = []
    seen: typing.Set[tuple] = set()
    per_ns: typing.Dict[tuple, typing.Set[str]] = {}
    for t in case["types"]:
        ns = tuple(comps[i % len(comps)] for i in t["ns"])
        s = shorts[t["s"] % len(shorts)]
        M, m = t["v"]
        key = (ns, s, M, m)
        if key in seen:
            continue
        fk = li.fold(f"{s}_{M}_{m}")
        if fk in per_ns.setdefault(ns, set()):
            excl["fold"] += 1
            continue
        per_ns[ns].add(fk)
        seen.add(key)
        types.append(key)
    root2 = None
    if case.get("root2"):
        name = case["root2"]["name"]
        if name.lower() == root.lower():
            excl["case"] += 1
        elif li.fold(name) == li.fold(root):
            excl["fold"] += 1
        else:
            cands = [i for i, t in enumerate(types) if kinds[t[1]] != "service"]  # a service cannot be a field type
            if cands:
                root2 = {"name": name, "deps": sorted({cands[r % len(cands)] for r in case["root2"]["refs"]})}
    namespaces = {()}
    for ns, _, _, _ in types:
        for i in range(1, len(ns) + 1):
            namespaces.add(ns[:i])
    bearing = {ns for ns, _, _, _ in types}
    gaps = {ns for ns in namespaces if ns and ns not in bearing}
    versions: typing.Dict[tuple, int] = collections.Counter((ns, s) for ns, s, _, _ in types)
    return {
        "root": root,
        "types": types,
        "kinds": kinds,
        "root2": root2,
        "excluded": dict(excl),
        "namespaces": namespaces,
        "gaps": gaps,
        "root_empty": () not in bearing,
        "multiversion": any(v >= 2 for v in versions.values()),
        "depth": max(len(ns) for ns, _, _, _ in types) + 1,
    }


def tname(root: str, t: tuple) -> str:
    ns, s, M, m = t
    return ".".join((root,) + ns + (s,)) + f".{M}.{m}"


def nsname(root: str, ns: tuple) -> str:
    return ".".join((root,) + tuple(ns))


def dep_name(base: pathlib.Path, j: int) -> str:
    """Dependents get a name that is unique in this process: Language.get_dependency_builder memoises by type name, and the
    language objects cached by this harness would otherwise see unrelated types of one name from different cases."""
    return f"D{j}{base.name}"


def materialise(model, base: pathlib.Path) -> typing.Tuple[pathlib.Path, typing.Optional[pathlib.Path]]:
    r1 = base / "in" / model["root"]
    for ns, s, M, m in model["types"]:
        d = r1.joinpath(*ns)
        d.mkdir(parents=True, exist_ok=True)
        (d / f"{s}.{M}.{m}.dsdl").write_text(BODIES[model["kinds"][s]])
    r2 = None
    if model["root2"]:
        r2 = base / "in2" / model["root2"]["name"]
        for j, k in enumerate(model["root2"]["deps"]):
            d = r2 / "n" if j % 2 else r2
            d.mkdir(parents=True, exist_ok=True)
            (d / f"{dep_name(base, j)}.1.0.dsdl").write_text(f"{tname(model['root'], model['types'][k])} f\n@sealed\n")
    return r1, r2


def read_types(model, r1: pathlib.Path):
    import pydsdl

    try:
        types = pydsdl.read_namespace(str(r1), [])
    except Exception as e:
        raise core.HarnessError(f"generator produced a type set the front end rejects: {type(e).__name__}: {e}")
    want = sorted(tname(model["root"], t) for t in model["types"])
    got = sorted(str(t) for t in types)
    if want != got:
        raise core.HarnessError(f"front end read {got!r}, generator meant {want!r}")
    return types


def order_types(types, keys):
    idx = sorted(range(len(types)), key=lambda i: (keys[i] if i < len(keys) else 0, i))
    return [types[i] for i in idx]


def outdir_arg(spelling: str, cwd: pathlib.Path, sandbox: pathlib.Path) -> typing.Tuple[str, pathlib.Path]:
    """(--outdir argument as spelled, the directory it denotes)."""
    if spelling == "rel":
        return "out", cwd / "out"
    if spelling == "slash":
        return "out/", cwd / "out"
    if spelling == "dotdot":
        return "./x/../out", cwd / "out"  # cwd/x exists: the spelling denotes a path that can be resolved
    if spelling == "abs":
        return str(sandbox / "absout"), sandbox / "absout"
    if spelling == "abs_slash":
        return str(sandbox / "absout") + "/", sandbox / "absout"
    if spelling == "nested":
        return "deep/er/out", cwd / "deep" / "er" / "out"  # the ancestors do not exist yet
    raise core.HarnessError(f"unknown outdir spelling {spelling!r}")


# ------------------------------------------------------------------------------------------------------- observation
def ident(node, rootdir: pathlib.Path) -> str:
    """Unstropped dotted name of a Namespace node, through its public source_file_path."""
    src, base = str(node.source_file_path), str(rootdir)
    if src == base:
        return rootdir.name
    if not src.startswith(base + os.sep):
        raise ValueError(f"{src!r} is not below {base!r}")
    return ".".join([rootdir.name] + src[len(base) + 1 :].split(os.sep))


def observe(root_ns, types, rootdir: pathlib.Path) -> dict:
    """Canonical JSON-able view of the model (for order / hash-seed comparisons)."""
    nodes = list(root_ns.get_all_namespaces())
    nss = []
    find = {}
    for n, p in nodes:
        i = ident(n, rootdir)
        nss.append(
            {
                "id": i,
                "full_name": n.full_name,
                "path": str(p),
                "folder": str(n.output_folder),
                "parent": ident(n._parent, rootdir) if n._parent is not None else None,
                "children": sorted(ident(c, rootdir) for c in n.get_nested_namespaces()),
                "types": sorted(str(t) for t, _ in n.get_nested_types()),
            }
        )
        row = {}
        for t in types:
            try:
                row[str(t)] = str(n.find_output_path_for_type(t))
            except KeyError:
                row[str(t)] = "<KeyError>"
        find[i] = row
    return {
        "root": ident(root_ns, rootdir),
        "namespaces": sorted(nss, key=lambda d: (d["id"], d["path"])),
        "datatypes": sorted([str(t), str(p)] for t, p in root_ns.get_all_datatypes()),
        "all": sorted(
            [("ns:" + ident(t, rootdir)) if hasattr(t, "get_nested_namespaces") else ("dt:" + str(t)), str(p)]
            for t, p in root_ns.get_all_types()
        ),
        "find": find,
    }


def norm(p, base: typing.Optional[pathlib.Path] = None) -> str:
    s = str(p)
    if base is not None and not os.path.isabs(s):
        s = os.path.join(str(base), s)
    return os.path.normpath(s)


# ------------------------------------------------------------------------------------------------------------ oracle
def expected_paths(model, li: LangInfo, outdir: str, root: str, types: typing.List[tuple]):
    """type name -> (normalised expected path, [stropped dirs], file name, uses a stropped component), problems."""
    probs = []
    exp = {}
    for t in types:
        ns, s, M, m = t
        dirs = []
        stropped = False
        for c in (root,) + ns:
            got, prob = li.component(c)
            if prob:
                probs.append((c, prob))
            dirs.append(got if got is not None else c)
            stropped |= got is not None and got != c
        stem = f"{s}_{M}_{m}"
        got, prob = li.component(stem)
        if prob:
            probs.append((stem, prob))
        fstem = got if got is not None else stem
        stropped |= fstem != stem
        exp[tname(root, t)] = (norm(os.path.join(outdir, *dirs, fstem + li.ext)), dirs, fstem + li.ext, stropped)
    return exp, probs


def check_tree(model, li: LangInfo, outdir: str, root_ns, types, rootdir: pathlib.Path, exp) -> typing.List[tuple]:
    """All invariants of the statement on one built tree.  Returns [(signature, what)]."""
    res: typing.List[typing.Tuple[str, str]] = []
    lang = li.name
    root = model["root"]
    ctxs = f"lang={lang} ext={li.ext} outdir={outdir!r} types={[tname(root, t) for t in model['types']]}"

    def bad(sig, what):
        res.append((sig, f"{what} [{ctxs}]"))

    want_types = {tname(root, t): t for t in model["types"]}
    stropped_ns = {ns for ns in model["namespaces"] if any(li.component(c)[0] != c for c in (root,) + ns)}

    # ---- 0. the traversals terminate (no cycle through nested namespaces)
    try:
        dts = list(root_ns.get_all_datatypes())
        list(root_ns.get_all_namespaces())
        list(root_ns.get_all_types())
    except RecursionError:
        bad("tree|cycle-in-nested-namespaces", "a traversal of the tree does not terminate")
        return res
    # ---- 1. every type exactly once
    cnt = collections.Counter(str(t) for t, _ in dts)
    missing = sorted(set(want_types) - set(cnt))
    dup = sorted(k for k, v in cnt.items() if v > 1)
    extra = sorted(set(cnt) - set(want_types))
    if missing or dup or extra:
        cls = "plain"
        hit = [want_types[k][0] for k in missing + dup if k in want_types]
        if hit and all(ns in stropped_ns for ns in hit):
            cls = "stropped-namespace"
        elif any(ns[:i] in model["gaps"] for ns in hit for i in range(1, len(ns) + 1)):
            cls = "below-empty-intermediate"
        elif any(len(ns) >= 1 for ns in hit):
            cls = "nested"
        bad(
            f"tree|type-missing-or-duplicated|{cls}",
            f"get_all_datatypes(): missing {missing}, duplicated {dup}, unexpected {extra}",
        )
    # ---- 2. every namespace from the root to a type exactly once (get_all_namespaces: "at and below this namespace")
    nodes = list(root_ns.get_all_namespaces())
    try:
        ids = [ident(n, rootdir) for n, _ in nodes]
    except ValueError as e:
        bad("tree|namespace-outside-root-directory", f"a namespace node has a source_file_path outside the root: {e}")
        return res
    want_ns = {nsname(root, ns): ns for ns in model["namespaces"]}
    ncnt = collections.Counter(ids)
    nmissing = sorted(set(want_ns) - set(ncnt))
    if ident(root_ns, rootdir) != root:
        bad(
            "tree|returned-root-is-not-the-root-namespace",
            f"build_namespace_tree returned node {ident(root_ns, rootdir)!r}, root namespace is {root!r}",
        )
    if nmissing:
        kinds = set()
        for k in nmissing:
            ns = want_ns[k]
            kinds.add("root" if not ns else ("empty-intermediate" if ns in model["gaps"] else "type-bearing"))
        bad(
            "tree|ancestor-namespace-missing|" + "+".join(sorted(kinds)),
            f"get_all_namespaces() lacks {nmissing} (has {sorted(ncnt)})",
        )
    if any(v > 1 for v in ncnt.values()):
        bad("tree|namespace-duplicated", f"get_all_namespaces() yields {sorted(k for k, v in ncnt.items() if v > 1)} more than once")
    if set(ncnt) - set(want_ns):
        bad("tree|unexpected-namespace", f"get_all_namespaces() yields {sorted(set(ncnt) - set(want_ns))} which is on no type's way")
    # get_all_types = namespaces + datatypes, each once
    allc = collections.Counter(
        ("ns:" + ident(t, rootdir)) if hasattr(t, "get_nested_namespaces") else ("dt:" + str(t))
        for t, _ in root_ns.get_all_types()
    )
    want_all = collections.Counter(["ns:" + k for k in ids] + ["dt:" + str(t) for t, _ in dts])
    if allc != want_all:
        bad(
            "tree|get_all_types-disagrees-with-namespaces-plus-datatypes",
            f"get_all_types() {dict(allc)} vs get_all_namespaces()+get_all_datatypes() {dict(want_all)}",
        )
    # ---- 3. parent / child links
    by_obj = {id(n): (n, i) for (n, _), i in zip(nodes, ids)}
    for (n, _), i in zip(nodes, ids):
        empty = "|empty-namespace" if want_ns.get(i) in model["gaps"] or (i == root and model["root_empty"]) else ""
        kids = list(n.get_nested_namespaces())
        for c in kids:
            ci = ident(c, rootdir)
            if c._parent is not n:
                bad("tree|child-parent-link-inconsistent" + empty, f"{i!r} lists child {ci!r} whose parent link is {c._parent and ident(c._parent, rootdir)!r}")
            if ci.rsplit(".", 1)[0] != i or ci.count(".") != i.count(".") + 1:
                bad("tree|child-not-directly-below-parent", f"{i!r} lists {ci!r} as nested namespace")
        if n is root_ns:
            if n._parent is not None:
                bad("tree|root-has-parent", f"root {i!r} has parent {ident(n._parent, rootdir)!r}")
        else:
            p = n._parent
            if p is None:
                bad("tree|non-root-without-parent" + empty, f"{i!r} is reachable from the root but has no parent link")
            elif sum(1 for c in p.get_nested_namespaces() if c is n) != 1:
                bad("tree|parent-does-not-list-child" + empty, f"parent {ident(p, rootdir)!r} of {i!r} does not list it exactly once")
        # acyclic: walking parents ends at the root
        cur, steps = n, 0
        while cur._parent is not None and steps <= len(nodes) + 1:
            cur = cur._parent
            steps += 1
        if cur is not root_ns or n.get_root_namespace() is not root_ns:
            bad("tree|parent-walk-does-not-reach-root" + empty, f"from {i!r}: ended at {ident(cur, rootdir)!r} after {steps} steps")
        for t, _ in n.get_nested_types():
            if t.full_namespace != i:
                bad("tree|type-under-wrong-namespace", f"{t} is listed by namespace node {i!r}")
        # ---- 4. namespace folder / file
        if i in want_ns:
            dirs = [li.component(c)[0] or c for c in (root,) + want_ns[i]]
            if norm(n.output_folder) != norm(os.path.join(outdir, *dirs)):
                bad(f"path|namespace-folder|{lang}", f"{i!r}.output_folder = {str(n.output_folder)!r}, expected {os.path.join(outdir, *dirs)!r}")
            want_file = norm(os.path.join(outdir, *dirs, li.stem + li.ext))
            for got in (dict_path(nodes, n), n.find_output_path_for_type(n)):
                if norm(got) != want_file:
                    bad(f"path|namespace-file|{lang}", f"{i!r} is generated to {str(got)!r}, expected {want_file!r}")
                    break
    # ---- 5. path of every type
    tmap: typing.Dict[str, str] = {}
    out_n = norm(outdir)
    node_by_id = {i: n for (n, _), i in zip(nodes, ids)}
    for t, p in dts:
        k = str(t)
        tmap.setdefault(k, norm(p))
        if k not in exp:
            continue
        want, dirs, fname, strp = exp[k]
        got = norm(p)
        if got != want:
            rel = os.path.relpath(got, out_n)
            parts = rel.split(os.sep)
            if rel.startswith(".."):
                which = "outdir-prefix"
            elif parts[:-1] != dirs:
                which = "namespace-components" + ("|stropped" if strp else "")
            elif parts[-1].split(".")[0] != fname.split(".")[0]:
                which = "file-name" + ("|stropped" if fname.split(".")[0] != "_".join(k.rsplit(".", 3)[1:]) else "")
            else:
                which = "extension"
            bad(f"path|format|{lang}|{which}", f"{k} -> {str(p)!r}, expected {want!r}")
        nsn = node_by_id.get(t.full_namespace)
        if nsn is not None and norm(pathlib.Path(str(p)).parent) != norm(nsn.output_folder):
            bad(
                f"path|type-not-in-namespace-folder|{lang}",
                f"{k} -> {str(p)!r} but its namespace's output_folder is {str(nsn.output_folder)!r}",
            )
    # ---- 6. injective
    rev: typing.Dict[str, typing.List[str]] = {}
    for k, p in tmap.items():
        rev.setdefault(p, []).append(k)
    shared = {p: v for p, v in rev.items() if len(v) > 1}
    if shared:
        bad("path|not-injective", f"distinct types share a file: {shared}")
    nsfiles = {norm(p): i for (n, p), i in zip(nodes, ids)}
    both = sorted(set(nsfiles) & set(rev))
    if both:
        bad("path|type-and-namespace-share-file", f"{[(rev[p], nsfiles[p]) for p in both]}")
    # ---- 7. total lookup, from every node
    for (n, _), i in zip(nodes, ids):
        for t in types:
            k = str(t)
            where = "from-root" if n is root_ns else ("from-own-namespace" if t.full_namespace == i else "from-other-namespace")
            try:
                got = n.find_output_path_for_type(t)
            except KeyError:
                bad(f"lookup|find_output_path_for_type-fails|{where}", f"KeyError looking up {k} from node {i!r}")
                continue
            if k in tmap and norm(got) != tmap[k]:
                bad(f"lookup|find_output_path_for_type-differs|{where}", f"{k} from node {i!r}: {str(got)!r}, map says {tmap[k]!r}")
    return res


def dict_path(nodes, n):
    for m, p in nodes:
        if m is n:
            return p
    raise core.HarnessError("node vanished")


def check_xroot(model, li: LangInfo, outdir: str, r1, r2, root_ns, exp, env) -> typing.List[tuple]:
    """The relative path a type is generated to == the relative path under which a dependent in another root refers to it."""
    import nunavut
    import pydsdl
    from nunavut.lang._common import IncludeGenerator

    res = []
    lang = li.name
    try:
        types2 = pydsdl.read_namespace(str(r2), [str(r1)])
    except Exception as e:
        raise core.HarnessError(f"front end rejects the dependent root namespace: {type(e).__name__}: {e}")
    out_n = norm(outdir)
    gen_rel = {k: os.path.relpath(v[0], out_n).replace(os.sep, "/") for k, v in exp.items()}
    tree_rel = {str(t): os.path.relpath(norm(p), out_n).replace(os.sep, "/") for t, p in root_ns.get_all_datatypes()}
    for d in types2:
        dep = d.attributes[0].data_type
        k = str(dep)
        if k not in gen_rel:
            raise core.HarnessError(f"dependent {d} refers to {k} which is not in the model")
        want = tree_rel.get(k, gen_rel[k])
        got = IncludeGenerator.make_path(dep, li.L, li.ext).as_posix()
        if got != want:
            res.append((f"xroot|include-path-differs|{lang}|make_path", f"{k}: generated to {want!r}, referenced from {d} as {got!r}"))
        if lang in ("c", "cpp"):
            incs = IncludeGenerator(li.L, d, False).generate_include_filepart_list(li.ext, True)
            if f'"{want}"' not in incs and f"<{want}>" not in incs:
                res.append((f"xroot|include-path-differs|{lang}|include-list", f"{k}: generated to {want!r}, includes of {d}: {incs!r}"))
        if lang == "py":
            from nunavut.lang.py import filter_full_reference_name, filter_imports

            ref = filter_full_reference_name(li.L, dep)
            if ref.replace(".", "/") + li.ext != want:
                res.append((f"xroot|include-path-differs|{lang}|module-reference", f"{k}: generated to {want!r}, referenced from {d} as module {ref!r}"))
            imps = filter_imports(li.L, d)
            if want.rsplit("/", 1)[0].replace("/", ".") not in imps:
                res.append((f"xroot|include-path-differs|{lang}|imports", f"{k}: generated to {want!r}, {d} imports {imps!r}"))
        # an equal (not identical) type object from another front-end run is found in the first tree
        try:
            p = root_ns.find_output_path_for_type(dep)
            if os.path.relpath(norm(p), out_n).replace(os.sep, "/") != want:
                res.append(("lookup|find_output_path_for_type-differs|equal-type-object", f"{k}: {str(p)!r} vs {want!r}"))
        except KeyError:
            res.append(("lookup|find_output_path_for_type-fails|equal-type-object", f"KeyError for {k} read as a dependency"))
    # both roots into one outdir: still injective, and the second root stays below its own folder
    try:
        ns2 = nunavut.build_namespace_tree(types2, str(r2), outdir, li.lctx)
    except Exception as e:
        return res + [("tree|build-raises|" + type(e).__name__, f"second root {r2.name!r}: {e}")]
    all_paths = collections.Counter([norm(p) for _, p in root_ns.get_all_datatypes()] + [norm(p) for _, p in ns2.get_all_datatypes()])
    if any(v > 1 for v in all_paths.values()):
        res.append(("path|not-injective|across-roots", f"{[p for p, v in all_paths.items() if v > 1]}"))
    r2dir = li.component(r2.name)[0] or r2.name
    for t, p in ns2.get_all_datatypes():
        if not norm(p).startswith(norm(os.path.join(outdir, r2dir)) + os.sep):
            res.append((f"path|format|{lang}|second-root", f"{t} -> {str(p)!r} is not below {os.path.join(outdir, r2dir)!r}"))
    return res


def classes_of(case, model, stropped: bool) -> typing.List[str]:
    cl = [
        "lang." + case["lang"],
        "outdir." + case["outdir"],
        "ext.override" if case.get("ext") else "ext.default",
        "stem.override" if case.get("stem") else "stem.default",
        f"depth={model['depth']}",
        f"ntypes={min(len(model['types']), 8)}",
    ]
    if model["gaps"]:
        cl.append("nt.gap")
    if model["root_empty"]:
        cl.append("root.empty")
    if model["multiversion"]:
        cl.append("nt.multiversion")
    if stropped:
        cl.append("nt.stropped")
    if model["root2"]:
        cl.append("root2")
    if any(t[2] == 0 for t in model["types"]):
        cl.append("major0")
    cl += sorted({"kind." + model["kinds"][t[1]] for t in model["types"]})
    return cl


def richness(model, stropped: bool) -> int:
    return (
        len(model["types"])
        + 3 * bool(model["gaps"])
        + 3 * model["multiversion"]
        + 3 * stropped
        + 2 * bool(model["root2"])
        + model["depth"]
    )


def sample_of(case, model):
    return {
        "lang": case["lang"],
        "ext": case.get("ext"),
        "stem": case.get("stem"),
        "outdir": case["outdir"],
        "types": [tname(model["root"], t) for t in model["types"]],
        "root2": model["root2"] and model["root2"]["name"],
    }


# ------------------------------------------------------------------------------------------------------- level A / H
def check_api(ctx: core.Ctx, case, env: Env, hashseed: typing.Optional[bool] = None) -> typing.List[tuple]:
    import nunavut
    import nunavut.jinja

    li = env.lang(case["lang"], case.get("ext"), case.get("stem"))
    model = normalize(case, li)
    base = env.newdir()
    res: typing.List[typing.Tuple[str, str]] = []
    try:
        r1, r2 = materialise(model, base)
        types_sorted = read_types(model, r1)
        types = order_types(types_sorted, case.get("keys", []))
        (base / "cwd" / "x").mkdir(parents=True)
        outdir, _ = outdir_arg(case["outdir"], base / "cwd", base)
        exp, probs = expected_paths(model, li, outdir, model["root"], model["types"])
        stropped = any(v[3] for v in exp.values())
        nontrivial = bool(model["gaps"]) or model["multiversion"] or stropped
        env.api_cases += 1
        do_hash = hashseed if hashseed is not None else (nontrivial and env.api_cases % env.hash_every == 0)
        classes = classes_of(case, model, stropped) + (["hashseed.sub"] if do_hash else [])
        ctx.case(("api", case), nontrivial, sample=sample_of(case, model), classes=classes)
        for k, v in model["excluded"].items():
            ctx.event("excluded." + k, v)
        if nontrivial and ctx.counting:
            slot = env.reservoir.setdefault((case["lang"], case["outdir"]), [])
            slot.append((-richness(model, stropped), env.wid * 1000000 + env.api_cases, case))
            slot.sort(key=lambda e: e[:2])
            del slot[env.real_per_combo :]
        for name, prob in probs[:3]:
            kind = "filter-raises" if "raised" in prob else ("not-deterministic" if "deterministic" in prob else ("plain-name-altered" if "needs no" in prob else "stropped-component-invalid"))
            res.append((f"path|{kind}|{li.name}", f"component {name!r}: {prob}"))
        try:
            root_ns = nunavut.build_namespace_tree(types, str(r1), outdir, li.lctx)
        except Exception as e:
            return res + [("tree|build-raises|" + type(e).__name__, f"build_namespace_tree on {[str(t) for t in types]} lang={li.name}: {e}")]
        rootdir = r1.resolve()
        res += check_tree(model, li, outdir, root_ns, types, rootdir, exp)
        # jinja filter used by templates: relative to the folder that holds the root namespace
        if env.api_cases % 4 == 0 and not res:
            g = nunavut.jinja.DSDLCodeGenerator(root_ns)
            out_n = norm(outdir)
            for t, p in root_ns.get_all_datatypes():
                want = os.path.relpath(norm(p), out_n).replace(os.sep, "/")
                got = g.filter_type_to_include_path(t)
                if got != want:
                    res.append((f"xroot|type_to_include_path-differs|{li.name}", f"{t}: generated to {want!r}, filter gives {got!r} (outdir {outdir!r})"))
        # order independence
        try:
            obs = observe(root_ns, types_sorted, rootdir)
            other = nunavut.build_namespace_tree(list(reversed(types_sorted)), str(r1), outdir, li.lctx)
            obs2 = observe(other, types_sorted, rootdir)
            if obs != obs2:
                diff = [k for k in obs if obs[k] != obs2[k]]
                res.append(("order|result-depends-on-input-order|" + "+".join(diff), f"keys {case.get('keys')} vs reversed front-end order: {diff} differ; {[str(t) for t in types]}"))
        except (ValueError, RecursionError) as e:  # a tree check_tree has already reported as broken
            if not res:
                res.append(("tree|model-cannot-be-observed|" + type(e).__name__, str(e)))
            obs = None
        except Exception as e:
            res.append(("order|build-raises-for-other-input-order|" + type(e).__name__, f"reversed front-end order of {[str(t) for t in types_sorted]}: {e}"))
            obs = None
        if r2 is not None:
            res += check_xroot(model, li, outdir, r1, r2, root_ns, exp, env)
        if do_hash and obs is not None:
            for seed in (("1", "987654321") if hashseed else (("1", "987654321", "31337")[env.api_cases % 3],)):
                o = sub_observe({"r1": str(r1), "outdir": outdir, "lang": li.name, "ext": case.get("ext"), "stem": case.get("stem"), "keys": case.get("keys", [])}, seed)
                if o != obs:
                    diff = [k for k in obs if obs[k] != o.get(k)]
                    res.append(("hashseed|result-depends-on-PYTHONHASHSEED|" + "+".join(diff), f"PYTHONHASHSEED={seed} vs 0: {diff} differ for {[str(t) for t in types]}"))
                    break
    finally:
        shutil.rmtree(base, ignore_errors=True)
    return res


def sub_observe(req: dict, seed: str) -> dict:
    env = dict(os.environ)
    env["PYTHONHASHSEED"] = seed
    env["PYTHONDONTWRITEBYTECODE"] = "1"
    env["PYTHONPATH"] = os.pathsep.join([str(core.REPO / "src"), str(core.VERIF), str(core.VERIF / ".deps")])
    env["VERIF_REPO"] = str(core.REPO)
    p = subprocess.run(
        [tool.PY, "-c", "from vf.props import c11; c11.sub_main()"],
        input=json.dumps(req),
        env=env,
        capture_output=True,
        text=True,
        timeout=300,
    )
    if p.returncode != 0:  # the same build succeeded in this process a moment ago
        raise core.HarnessError(f"hash-seed child failed: {p.stderr[-1500:]}")
    return json.loads(p.stdout)


def sub_main():
    """Child process: same observation under another PYTHONHASHSEED."""
    import nunavut
    import pydsdl

    req = json.load(sys.stdin)
    r1 = pathlib.Path(req["r1"])
    types_sorted = pydsdl.read_namespace(str(r1), [])
    types = order_types(types_sorted, req["keys"])
    lctx = make_lctx(req["lang"], req["ext"], req["stem"])
    root_ns = nunavut.build_namespace_tree(types, str(r1), req["outdir"], lctx)
    json.dump(observe(root_ns, types_sorted, r1.resolve()), sys.stdout)


# ------------------------------------------------------------------------------------------------------------ level R
def snap_diff(before, after):
    """Paths created / removed / changed (directory mtimes ignored)."""
    ch = []
    for k in sorted(set(before) | set(after)):
        a, b = before.get(k), after.get(k)
        if a is None or b is None:
            ch.append(k)
        elif a[0] == "f" and (a[1], a[3], a[4]) != (b[1], b[3], b[4]):
            ch.append(k)
        elif a[0] == "d" and a[3] != b[3]:
            ch.append(k)
    return ch


def cli_argv(case, li: LangInfo, outdir: str, root: str, lookup: typing.Optional[str] = None):
    argv = ["--target-language", li.name, "--experimental-languages", "--outdir", outdir]
    if case.get("ext"):
        argv += ["--output-extension", case["ext"]]
    if case.get("stem"):
        argv += ["--namespace-output-stem", case["stem"]]
    if lookup:
        argv += ["--lookup-dir", lookup]
    return argv + [root]


def check_empty_root(ctx: core.Ctx, lang: str, spelling: str, support: typing.Optional[str]) -> typing.List[tuple]:
    sb = pathlib.Path(tempfile.mkdtemp(prefix="vf-c11e-"))
    try:
        root = sb / "in" / "emptyroot"
        (root / "still" / "nothing").mkdir(parents=True)  # directories only, no definitions
        cwd = sb / "cwd"
        (cwd / "x").mkdir(parents=True)
        outdir, outabs = outdir_arg(spelling, cwd, sb)
        argv = ["--target-language", lang, "--experimental-languages", "--outdir", outdir]
        if support:
            argv += ["--generate-support", support]
        argv += [str(root) if spelling.startswith("abs") else os.path.relpath(root, cwd)]
        before = tool.snapshot(sb)
        rc, _, err = tool.run_sub(argv, cwd=str(cwd))
        after = tool.snapshot(sb)
        created = snap_diff(before, after)
        ctx.case(("empty-root", lang, spelling, support), bool(created), sample={"level": "cli", "empty root namespace": True, "argv": argv, "rc": rc, "created": created[:4]},
                 classes=["empty-root", "empty-root.rc0" if rc == 0 else "empty-root.rejected"] + (["empty-root.creates-files"] if created else []))
        outrel = os.path.relpath(outabs, sb)
        outside = [k for k in created if not (k.rstrip("/") == outrel or k.startswith(outrel + "/") or outrel.startswith(k.rstrip("/") + "/"))]
        if outside:
            return [("run|file-outside-outdir|empty-root-namespace", f"nnvg {' '.join(argv)} (cwd={cwd}) created or changed outside --outdir {outdir!r}: {outside[:6]}")]
        return []
    finally:
        shutil.rmtree(sb, ignore_errors=True)


NOSTROP_KEYWORDS = {"c": ["register", "typedef", "double"], "cpp": ["register", "new", "namespace"], "py": ["def", "class", "print"]}


def check_nostrop(ctx: core.Ctx, lang: str, spelling: str) -> typing.List[tuple]:
    """
    Stropping switched off by configuration (`enable_stropping: false`, a documented key of every language section): the
    namespace components are then used verbatim.  Directed namespaces whose components are keywords of the target: every type
    file is at <outdir>/<components>/<Short>_<M>_<m><ext>, and the relative path under which a type is REFERENCED (include /
    import in the same root namespace and in a dependent root namespace) names the file that was generated.
    """
    sb = pathlib.Path(tempfile.mkdtemp(prefix="vf-c11n-"))
    try:
        kws = NOSTROP_KEYWORDS[lang]
        r1, r2 = sb / "in" / "regns", sb / "in" / "app"
        defs = {
            r1 / kws[0] / "Value.1.0.dsdl": "uint8 x\n@sealed\n",
            r1 / kws[0] / kws[1] / "Deep.1.2.dsdl": f"regns.{kws[0]}.Value.1.0 v\n@sealed\n",
            r1 / kws[2] / "Other.2.0.dsdl": f"regns.{kws[0]}.{kws[1]}.Deep.1.2[<=2] ds\n@extent 512\n",
            r1 / "User.1.0.dsdl": f"regns.{kws[0]}.Value.1.0 v\nregns.{kws[2]}.Other.2.0 o\n@sealed\n",
            r2 / "Client.1.0.dsdl": f"regns.{kws[0]}.Value.1.0 v\nregns.{kws[0]}.{kws[1]}.Deep.1.2 d\n@sealed\n",
        }
        for f, text in defs.items():
            f.parent.mkdir(parents=True, exist_ok=True)
            f.write_text(text)
        cfg = sb / "in" / "nostrop.yaml"
        cfg.write_text(f"nunavut.lang.{lang}:\n  enable_stropping: false\n")
        cwd = sb / "cwd"
        (cwd / "x").mkdir(parents=True)
        outdir, outabs = outdir_arg(spelling, cwd, sb)
        ext = DEFAULT_EXT[lang]
        res: typing.List[tuple] = []
        before = tool.snapshot(sb)
        for root, lookup in ((r1, None), (r2, r1)):
            argv = ["--target-language", lang, "--experimental-languages", "--outdir", outdir, f"--configuration={cfg}"]
            if lookup:
                argv += ["--lookup-dir", str(lookup)]
            argv += [str(root)]
            rc, _, err = tool.run_sub(argv, cwd=str(cwd))
            if rc != 0:
                return [("nostrop|run-fails", f"nnvg {' '.join(argv)}: {err[-400:]}")]
        created = snap_diff(before, tool.snapshot(sb))
        outrel = os.path.relpath(outabs, sb)
        outside = [k for k in created if not (k.rstrip("/") == outrel or k.startswith(outrel + "/") or outrel.startswith(k.rstrip("/") + "/"))]
        if outside:
            res.append(("run|file-outside-outdir|stropping-disabled", f"created outside --outdir: {outside[:5]}"))
        want = {}
        for f in defs:
            root = r1 if str(f).startswith(str(r1)) else r2
            comps = [root.name] + list(f.relative_to(root).parts[:-1])
            short, major, minor, _ = f.name.split(".")
            want[".".join(comps + [short])] = "/".join(comps + [f"{short}_{major}_{minor}{ext}"])
        files = {os.path.relpath(os.path.join(dp, fn), outabs) for dp, _, fns in os.walk(outabs) for fn in fns}
        ctx.case(("nostrop", lang, spelling), True, sample={"level": "cli", "stropping disabled": True, "lang": lang, "outdir": spelling, "types": sorted(want)},
                 classes=["nostrop", "nostrop.lang." + lang])
        for t, rel in sorted(want.items()):
            if rel not in files:
                near = sorted(x for x in files if x.endswith("/" + rel.rsplit("/", 1)[1]))
                res.append((f"nostrop|type-file-not-at-verbatim-namespace-path|{lang}", f"enable_stropping: false: {t} expected at {rel!r}; files with that name: {near}"))
        # what dependents refer to must be what was generated
        for rel in sorted(files):
            if "nunavut" in rel.split("/")[0]:
                continue
            text = (outabs / rel).read_text(errors="replace")
            if lang in ("c", "cpp"):
                for inc in re.findall(r'^\s*#\s*include\s*[<"]((?:regns|app)/[^>"]+)[>"]', text, re.M):
                    if inc not in files:
                        res.append((f"nostrop|referenced-path-differs-from-generated-path|{lang}", f"{rel} includes {inc!r}, which is not among the generated files {sorted(f for f in files if f.endswith(ext))[:8]}"))
            else:
                for mod in re.findall(r"^\s*import\s+((?:regns|app)[\w.]*)", text, re.M) + re.findall(r"^\s*from\s+((?:regns|app)[\w.]*)\s+import", text, re.M):
                    cand = mod.replace(".", "/")
                    if cand + ".py" not in files and cand + "/__init__.py" not in files:
                        res.append((f"nostrop|referenced-path-differs-from-generated-path|{lang}", f"{rel} imports {mod!r}, which no generated file provides"))
        out: typing.Dict[str, tuple] = {}
        for r in res:
            out.setdefault(r[0], r)
        return list(out.values())
    finally:
        shutil.rmtree(sb, ignore_errors=True)


def check_real(ctx: core.Ctx, case, env: Env, sub: bool = False) -> typing.List[tuple]:
    li = env.lang(case["lang"], case.get("ext"), case.get("stem"))
    lang = li.name
    model = normalize(case, li)
    sb = env.newdir()
    res: typing.List[typing.Tuple[str, str]] = []
    try:
        r1, r2 = materialise(model, sb)
        read_types(model, r1)
        cwd = sb / "cwd"
        (cwd / "x").mkdir(parents=True)
        outdir, outabs = outdir_arg(case["outdir"], cwd, sb)
        exp, _ = expected_paths(model, li, outdir, model["root"], model["types"])
        stropped = any(v[3] for v in exp.values())
        nontrivial = bool(model["gaps"]) or model["multiversion"] or stropped
        ctx.case(
            ("real", sub, case),
            nontrivial,
            sample={"level": "cli", **sample_of(case, model)},
            classes=["real", "real.lang." + lang, "real.outdir." + case["outdir"], "real.sub" if sub else "real.inproc"]
            + (["real.root2"] if r2 else []),
        )
        ctxs = f"lang={lang} outdir={outdir!r} types={[tname(model['root'], t) for t in model['types']]}"
        rootarg = str(r1) if case["outdir"] == "abs" else os.path.relpath(r1, cwd)
        argv = cli_argv(case, li, outdir, rootarg)

        def run(a, seed="0"):
            if sub:
                return tool.run_sub(a, cwd=str(cwd), hashseed=seed)
            return tool.run_inproc(a, cwd=str(cwd))

        rc, listed, err = run(argv + ["--list-outputs"])
        if rc != 0:
            return [(f"run|cli-failed|{lang}|list-outputs", f"argv={argv} rc={rc} stderr={err[-600:]!r} [{ctxs}]")]
        listed_n = {norm(p, cwd) for p in listed.split(";") if p.strip()}
        before = tool.snapshot(sb)
        rc, _, err = run(argv, seed="4242")
        if rc != 0:
            return [(f"run|cli-failed|{lang}", f"argv={argv} rc={rc} stderr={err[-600:]!r} [{ctxs}]")]
        after = tool.snapshot(sb)
        outrel = os.path.relpath(outabs, sb)
        # allowed: --outdir itself, anything below it, and (new) ancestor directories of it
        outside = [
            k
            for k in snap_diff(before, after)
            if not (k.rstrip("/") == outrel or k.startswith(outrel + "/") or outrel.startswith(k.rstrip("/") + "/"))
        ]
        if outside:
            res.append(("run|file-outside-outdir", f"created or changed outside --outdir {outdir!r}: {outside[:6]} [{ctxs}]"))
        on_disk = {norm(outabs / k) for k, v in tool.snapshot(outabs, content=False).items() if v[0] == "f"} if outabs.exists() else set()
        want_types = {norm(v[0], cwd): k for k, v in exp.items()}
        rootdir_out = norm(outabs / (li.component(model["root"])[0] or model["root"]))
        want_nsfiles = set()
        for ns in model["namespaces"]:
            dirs = [li.component(c)[0] or c for c in (model["root"],) + ns]
            want_nsfiles.add(norm(os.path.join(str(outabs), *dirs, li.stem + li.ext)))
        miss = sorted(want_types[p] for p in set(want_types) - on_disk)
        if miss:
            res.append((f"run|predicted-file-missing|{lang}", f"no file for {miss}; on disk: {sorted(os.path.relpath(p, outabs) for p in on_disk)} [{ctxs}]"))
        for p in sorted(on_disk):
            if p in want_types:
                continue
            if p in want_nsfiles:
                ctx.event("real.namespace_file")
                continue
            if not p.startswith(rootdir_out + os.sep) and p in listed_n:
                ctx.event("real.support_file")
                continue
            res.append((f"run|unexpected-file-in-outdir|{lang}", f"{os.path.relpath(p, outabs)!r} is neither a predicted type file, a namespace file nor a listed support file [{ctxs}]"))
        if NS_FILES_BY_DEFAULT[lang] and not (want_nsfiles <= on_disk):
            ctx.event("real.namespace_file_absent")
        # second root: referenced types are not generated; the reference text names the generated file
        if r2 is not None and not res:
            root2arg = str(r2) if case["outdir"] == "abs" else os.path.relpath(r2, cwd)
            argv2 = cli_argv(case, li, outdir, root2arg, lookup=rootarg)
            before2 = tool.snapshot(sb)
            rc, _, err = run(argv2, seed="7")
            if rc != 0:
                return res + [(f"run|cli-failed|{lang}|second-root", f"argv={argv2} rc={rc} stderr={err[-600:]!r} [{ctxs}]")]
            after2 = tool.snapshot(sb)
            r2out = os.path.relpath(outabs / (li.component(r2.name)[0] or r2.name), sb)
            stray = []
            for k in snap_diff(before2, after2):
                if k.rstrip("/") == r2out or k.startswith(r2out + "/"):
                    continue
                if norm(sb / k) in listed_n and not norm(sb / k).startswith(rootdir_out + os.sep):
                    continue  # support files are rewritten
                stray.append(k)
            if stray:
                sig = "run|file-outside-outdir|second-root" if any(not (k.rstrip("/") == outrel or k.startswith(outrel + "/")) for k in stray) else "run|referenced-root-touched-by-dependent-run"
                res.append((sig, f"generating {r2.name!r} with --lookup-dir changed {stray[:6]} [{ctxs}]"))
            out_n = norm(outabs)
            for j, k in enumerate(model["root2"]["deps"]):
                want_abs = norm(exp[tname(model["root"], model["types"][k])][0], cwd)
                want = os.path.relpath(want_abs, out_n).replace(os.sep, "/")
                ddir = outabs / (li.component(r2.name)[0] or r2.name)
                dfile = (ddir / "n" if j % 2 else ddir) / f"{dep_name(sb, j)}_1_0{li.ext}"
                if not dfile.exists():
                    res.append((f"run|predicted-file-missing|{lang}|second-root", f"{dfile} [{ctxs}]"))
                    continue
                text = dfile.read_text()
                if lang in ("c", "cpp"):
                    ok = f'#include "{want}"' in text or f"#include <{want}>" in text
                elif lang == "py":
                    mod = want[: -len(li.ext)].replace("/", ".") if li.ext else want.replace("/", ".")
                    ok = mod in text and re.search(r"^import " + re.escape(mod.rsplit(".", 1)[0]) + r"\s*$", text, re.M) is not None
                else:
                    ok = True
                if not ok:
                    res.append((f"xroot|include-path-differs|{lang}|generated-text", f"{dfile.name} does not refer to {want!r} (the file its dependency is generated to) [{ctxs}]"))
                if not os.path.exists(want_abs):
                    res.append((f"run|predicted-file-missing|{lang}|dependency", f"{want} [{ctxs}]"))
    finally:
        shutil.rmtree(sb, ignore_errors=True)
    return res


# ------------------------------------------------------------------------------------------------------------ driver
def self_check(env: Env):
    """The name pools are valid DSDL (asked of the front end itself), and the oracle helpers behave."""
    import pydsdl

    d = env.newdir()
    try:
        names = PLAIN + KEYWORDS + PATTERNED
        for i, n in enumerate(names):
            (d / "r" / n).mkdir(parents=True)
            (d / "r" / n / f"T{i}.1.0.dsdl").write_text(BODY)
            (d / "s").mkdir(exist_ok=True)
            (d / "s" / f"{n}.1.0.dsdl").write_text(BODY)
        try:
            a = pydsdl.read_namespace(str(d / "r"), [])
            b = pydsdl.read_namespace(str(d / "s"), [])
        except Exception as e:
            raise core.HarnessError(f"name pool is not valid DSDL: {e}")
        if len(a) != len(names) or len(b) != len(names):
            raise core.HarnessError("name pool: front end did not read every pool name")
        for bad in ("bool", "Int8", "_x_", "9a", "CON", "a-b", ""):
            if dsdl_ok(bad):
                raise core.HarnessError(f"dsdl_ok accepts {bad!r}")
    finally:
        shutil.rmtree(d, ignore_errors=True)
    if norm("./x/../out/") != "out" or norm("out/", pathlib.Path("/s")) != "/s/out":
        raise core.HarnessError("norm() self-check failed")


def run(ctx: core.Ctx):
    ctx.rule = (
        "case = type set under one root (1..8 types, depth 1..6, names from plain / keyword / reserved-pattern pools and "
        "random identifiers; case-insensitive and stropping-folded collisions excluded by construction and counted) x "
        "{c,cpp,py,html} x extension x namespace stem x outdir spelling x input order (+ optional dependent second "
        "root). Non-trivial = the set has an empty intermediate namespace, or >= 2 versions of one name, or a path "
        "component the language strops. Distinct by hash of the whole case."
    )
    ctx.assumptions = [
        "type sets are materialised as minimal .dsdl files and parsed by pydsdl.read_namespace (front end trusted)",
        "a name 'needs stropping' iff the documented rules in lang/properties.yaml (reserved identifiers, 'all' patterns, "
        "encoding rules; Python keywords+builtins) say so; then the expected component is what the path id filter "
        "returns, required to be deterministic and a valid non-reserved identifier; otherwise the component is exact",
        "'./x/../out' is used with x existing (the spelling must denote a resolvable path); ancestors of --outdir may be created",
        "paths are compared after os.path.normpath; Namespace nodes are identified by source_file_path; parent links are "
        "read from Namespace._parent (no public accessor exists)",
        "namespace files and support files found by a real run are classified (stem+extension in a predicted namespace "
        "folder / listed by --list-outputs outside the root folder), not predicted",
    ]
    import multiprocessing

    q = ctx.quick
    hash_every = 120 if q else 400
    per_combo = 1 if q else 12
    slice_n, workers = (500, 3) if q else (4000, 6)  # + one slice in this process (with shrinking): 2000 / 28000 cases
    env = Env()
    env.hash_every, env.real_per_combo = hash_every, per_combo
    pool = multiprocessing.get_context("fork").Pool(workers)
    try:
        self_check(env)
        jobs = [
            pool.apply_async(_api_worker, ((ctx.tier, ctx.seed, slice_n, 10 + w, hash_every, per_combo),))
            for w in range(workers)
        ]
        core.explore(ctx, case_strategy(), lambda c: check_api(ctx, c, env), slice_n)
        reservoir = {k: list(v) for k, v in env.reservoir.items()}
        for j in jobs:
            packed = j.get()
            _merge(ctx, packed)
            for k, v in packed["reservoir"]:
                reservoir.setdefault(tuple(k), []).extend((a, b, c) for a, b, c in v)
        # real runs: the richest non-trivial cases seen for every language x outdir spelling
        todo = []
        for lang in LANGS:
            for sp in SPELLINGS:
                slot = sorted(reservoir.get((lang, sp), []), key=lambda e: (e[0], e[1]))[:per_combo]
                for rank, (_, _, case) in enumerate(slot):
                    todo.append((ctx.tier, ctx.seed, case, False))
                    if sp == SPELLINGS[LANGS.index(lang)] and rank < (1 if q else 2):
                        todo.append((ctx.tier, ctx.seed, case, True))  # again in fresh processes with other hash seeds
        for packed in pool.map(_real_worker, todo):
            _merge(ctx, packed)
        ctx.extra["real_runs"] = len(todo)
        # the EMPTY set of composite types (a root namespace directory without definitions): whatever a run creates -- the
        # support files -- is created below --outdir
        for lang in LANGS:
            for sp in SPELLINGS:
                for support in (None, "only", "always"):
                    for sig, what in check_empty_root(ctx, lang, sp, support):
                        ctx.fail(sig, what, {"kind": "empty-root", "lang": lang, "outdir": sp, "support": support})
        # stropping switched off by configuration: verbatim keyword components, generated path == referenced path
        for lang in ("c", "cpp"):
            for sp in ("rel", "abs"):
                for sig, what in check_nostrop(ctx, lang, sp):
                    ctx.fail(sig, what, {"kind": "nostrop", "lang": lang, "outdir": sp})
        ctx.extra["api_cases"] = slice_n * (workers + 1)
    finally:
        pool.terminate()
        pool.join()
        env.close()
    for lang in LANGS:
        ctx.require("lang." + lang, 150)
        ctx.require("real.lang." + lang, 4)
    for sp in SPELLINGS:
        ctx.require("outdir." + sp, 150)
        ctx.require("real.outdir." + sp, 4)
    ctx.require("nt.gap", 200)
    ctx.require("nt.multiversion", 150)
    ctx.require("nt.stropped", 200)
    ctx.require("root2", 150)
    ctx.require("depth=6", 20)
    ctx.require("major0", 100)
    ctx.require("ext.override", 150)
    ctx.require("stem.override", 150)
    ctx.require("excluded.case", 5)
    ctx.require("excluded.fold", 5)
    ctx.require("hashseed.sub", 4)
    ctx.require("real.sub", 4)
    ctx.require("real.root2", 4)
    ctx.require("empty-root.creates-files", 6)


def _pack(wctx: core.Ctx, env: typing.Optional[Env]) -> dict:
    return {
        "evaluations": wctx.evaluations,
        "nontrivial": sorted(wctx._nontrivial),
        "hist": dict(wctx.hist),
        "samples": wctx.samples,
        "failures": {s: dict(e) for s, e in wctx.failures.items()},
        "reservoir": [(list(k), v) for k, v in env.reservoir.items()] if env else [],
    }


def _merge(ctx: core.Ctx, packed: dict):
    ctx.bulk(packed["evaluations"], packed["nontrivial"], packed["hist"])
    for smp in packed["samples"]:
        if len(ctx.samples) < ctx.max_samples:
            ctx.samples.append(smp)
    for sig, e in packed["failures"].items():
        ctx.fail(sig, e["what"], e["replay"])
        ctx.failures[sig]["count"] += e["count"] - 1


def _api_worker(args) -> dict:
    """One slice of the API-level exploration in a worker process (collects; shrinking happens in the parent's slice)."""
    tier, seed, n, offset, hash_every, per_combo = args
    os.environ["VF_NO_SHRINK"] = "1"
    wctx = core.Ctx("C11", tier, seed)
    env = Env()
    env.hash_every, env.real_per_combo, env.wid = hash_every, per_combo, offset
    try:
        core.explore(wctx, case_strategy(), lambda c: check_api(wctx, c, env), n, seed_offset=offset)
        return _pack(wctx, env)
    finally:
        env.close()


def _real_worker(args) -> dict:
    tier, seed, case, sub = args
    wctx = core.Ctx("C11", tier, seed)
    env = Env()
    try:
        for sig, what in check_real(wctx, case, env, sub):
            wctx.fail(sig, what, dict(case, real=True, sub=sub))
        return _pack(wctx, None)
    finally:
        env.close()


def replay(ctx: core.Ctx, case):
    env = Env()
    env.hash_every = 1
    env.real_per_combo = 0
    try:
        if case.get("kind") == "empty-root":
            return check_empty_root(ctx, case["lang"], case["outdir"], case.get("support"))
        if case.get("kind") == "nostrop":
            return check_nostrop(ctx, case["lang"], case["outdir"])
        if case.get("real"):
            return check_real(ctx, case, env, bool(case.get("sub")))
        return check_api(ctx, case, env, hashseed=True)
    finally:
        env.close()
