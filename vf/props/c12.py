"""
C12 -- regeneration over existing output is safe for every history of runs.

Machine: a Hypothesis RuleBasedStateMachine over ONE output directory.  Rules: run(options) with --file-mode in
         {444, 644, 600, 664, 400}, --no-overwrite, --omit-serialization-support, --generate-support, line post-processors;
         make_readonly(subset); plant_foreign(path, mode) -- both at paths the generator will write and elsewhere;
         truncate(file).  The tool runs in a fresh process WITHOUT CAP_DAC_OVERRIDE / CAP_DAC_READ_SEARCH so that root obeys
         the permission bits (vf/nnvg_wrap.py --drop-caps; self-tested there).
Model  : the files the same options produce in an empty directory (fresh process), cached per option set.
Oracle : after a successful run every file it generates is byte-identical to the model and has exactly the requested mode;
         files it does not generate are untouched (content, mode).  With --no-overwrite and at least one pre-existing target:
         non-zero exit and every file that existed before the step is unchanged in content and mode.
"""
from __future__ import annotations

import os
import pathlib
import shutil
import stat
import tempfile
import typing

import hypothesis
from hypothesis import strategies as st
from hypothesis.stateful import RuleBasedStateMachine, initialize, precondition, rule, run_state_machine_as_test

from .. import core, dsdlgen, tool

FAKE_T = 1700000000.0
MODES = [0o444, 0o644, 0o600, 0o664, 0o400, 0o000]
API_LANG = {"c": "c", "cpp": "cpp", "py": "py"}
LANGS = {"c": ["--target-language", "c"], "cpp": ["--target-language", "cpp", "--experimental-languages"], "py": ["--target-language", "py"]}

opts_strategy = st.fixed_dictionaries(
    {
        "mode": st.sampled_from(MODES),
        "no_overwrite": st.sampled_from([False, False, True]),
        "omit": st.booleans(),
        "support": st.sampled_from(["as-needed", "always", "never", "only"]),
        "pp": st.sampled_from(["", "", "trim", "limit0", "trim+limit1"]),
        # which definitions the run reads: "B" = the same namespaces holding OTHER types (every type renamed), so that the only
        # files the two trees have in common are namespace-level files (Python __init__.py) and support files
        "tree": st.sampled_from(["A", "A", "A", "B"]),
    }
)


def revision_b(u: dict) -> dict:
    """The universe with every type renamed (<Name>Bee), references updated: same namespaces, disjoint type files."""
    import copy

    def walk(x):
        if isinstance(x, dict):
            if x.get("t") == "ref" and "full" in x:
                x["full"] = x["full"] + "Bee"
            for v in x.values():
                walk(v)
        elif isinstance(x, list):
            for v in x:
                walk(v)

    b = copy.deepcopy(u)
    for r in b["roots"]:
        for td in r["types"]:
            td["name"] = td["name"] + "Bee"
            walk(td["body"])
    return b


def opt_argv(lang: str, o: dict) -> typing.List[str]:
    if o["omit"] and o["support"] == "always":  # rejected up front by the CLI ("Logic error"): not a generation
        o = dict(o, support="as-needed")
    a = list(LANGS[lang]) + ["--file-mode", oct(o["mode"]).replace("0o", "0o"), "--generate-support", o["support"], "--allow-unregulated-fixed-port-id"]
    if o["no_overwrite"]:
        a.append("--no-overwrite")
    if o["omit"]:
        a.append("--omit-serialization-support")
    if o.get("asserts"):
        a.append("--enable-serialization-asserts")
    if "trim" in o["pp"]:
        a.append("--pp-trim-trailing-whitespace")
    if "limit0" in o["pp"]:
        a += ["--pp-max-emptylines", "0"]
    if "limit1" in o["pp"]:
        a += ["--pp-max-emptylines", "1"]
    return a


def content_key(o: dict) -> str:
    if o.get("api"):
        return f"api|{o['omit']}|{o.get('tree', 'A')}|{'reuse' if o.get('reuse') else 'helper'}"
    sup = "as-needed" if (o["omit"] and o["support"] == "always") else o["support"]
    return f"{o['omit']}|{sup}|{o['pp']}|{bool(o.get('asserts'))}|{o.get('tree', 'A')}"


def snap(d: pathlib.Path) -> typing.Dict[str, typing.Tuple[int, bytes]]:
    out = {}
    for dp, _, fns in os.walk(d):
        for fn in fns:
            p = pathlib.Path(dp) / fn
            st_ = os.lstat(p)
            # the check process is root with full capabilities: it can read everything
            out[str(p.relative_to(d))] = (stat.S_IMODE(st_.st_mode), p.read_bytes())
    return out


class Env:
    def __init__(self, u: dict, lang: str):
        self.u = u
        self.lang = lang
        self.tmp = pathlib.Path(tempfile.mkdtemp(prefix="vf-c12-"))
        self.root = dsdlgen.materialise(u, self.tmp / "dsdl")[0]
        self.roots = {"A": self.root, "B": dsdlgen.materialise(revision_b(u), self.tmp / "dsdlB")[0]}
        self.out = self.tmp / "out"
        self.out.mkdir()
        self.model: typing.Dict[str, typing.Dict[str, bytes]] = {}
        self.runs = 0

    def close(self):
        # files may be read-only; we are root with full caps
        shutil.rmtree(self.tmp, ignore_errors=True)

    def model_files(self, o: dict) -> typing.Dict[str, bytes]:
        k = content_key(o)
        if k not in self.model:
            o2 = dict(o, no_overwrite=False, mode=0o644)
            if o2.get("reuse"):
                o2["reuse"] = 1
            # the model is produced at the SAME --outdir path (paths may be embedded): move the real directory aside
            aside = self.tmp / "out_aside"
            os.rename(self.out, aside)
            try:
                self.out.mkdir()
                if o2.get("api"):
                    rc, se = self.run_api(o2)
                else:
                    rc, so, se = tool.run_sub(opt_argv(self.lang, o2) + ["--outdir", str(self.out), str(self.roots[o2.get("tree", "A")])], fake_time=FAKE_T, drop_caps=True)
                    self.runs += 1
                if rc != 0:
                    raise core.HarnessError(f"model run failed: {se[-800:]}")
                self.model[k] = {p: c for p, (_, c) in snap(self.out).items()}
            finally:
                shutil.rmtree(self.out, ignore_errors=True)
                os.rename(aside, self.out)
        return self.model[k]

    def run(self, o: dict, extra: typing.Sequence[str] = ()) -> typing.Tuple[int, str]:
        if o.get("api"):
            return self.run_api(o)
        rc, so, se = tool.run_sub(opt_argv(self.lang, o) + list(extra) + ["--outdir", str(self.out), str(self.roots[o.get("tree", "A")])], fake_time=FAKE_T, drop_caps=True)
        self.runs += 1
        if rc == 97:
            raise core.HarnessError("capability drop ineffective: cannot observe permission bits as root")
        return rc, se

    def run_api(self, o: dict) -> typing.Tuple[int, str]:
        """
        The documented library helper nunavut.generate_types(language, root, out, omit_serialization_support, is_dryrun,
        allow_overwrite, ...) in a fresh interpreter with dropped capabilities.  It has no --file-mode / post-processor
        arguments: the file mode is the library default, which the model run (same call into an empty directory) shows.
        """
        if o.get("reuse"):
            # ONE pair of generator objects with ONE SetFileMode post-processor, generate_all() called `reuse` times over its own output
            code = (
                "import sys, pathlib, nunavut, pydsdl\n"
                "from nunavut.lang import LanguageContextBuilder\n"
                "from nunavut._postprocessors import SetFileMode\n"
                "from nunavut.jinja import DSDLCodeGenerator, SupportGenerator\n"
                f"root, out = {str(self.roots[o.get('tree', 'A')])!r}, {str(self.out)!r}\n"
                f"lctx = LanguageContextBuilder(include_experimental_languages=True).set_target_language({API_LANG[self.lang]!r}).create()\n"
                "types = pydsdl.read_namespace(root, [], allow_unregulated_fixed_port_id=True)\n"
                "ns = nunavut.build_namespace_tree(types, root, out, lctx)\n"
                f"pp = [SetFileMode({int(o['mode'])})]\n"
                "gen, sup = DSDLCodeGenerator(ns, post_processors=pp), SupportGenerator(ns, post_processors=pp)\n"
                "try:\n"
                f"    for _ in range({int(o['reuse'])}):\n"
                f"        sup.generate_all(False, {not o['no_overwrite']!r}, {bool(o['omit'])!r}, False)\n"
                f"        gen.generate_all(False, {not o['no_overwrite']!r}, {bool(o['omit'])!r}, False)\n"
                "except PermissionError as e:\n"
                "    sys.stderr.write('PermissionError: %s' % e); sys.exit(3)\n"
            )
            rc, so, se = tool.run_sub([], fake_time=FAKE_T, drop_caps=True, exec_code=code)
            self.runs += 1
            if rc == 97:
                raise core.HarnessError("capability drop ineffective: cannot observe permission bits as root")
            return rc, se
        code = (
            "import sys, pathlib, nunavut\n"
            "try:\n"
            f"    nunavut.generate_types({API_LANG[self.lang]!r}, pathlib.Path({str(self.roots[o.get("tree", "A")])!r}), pathlib.Path({str(self.out)!r}), omit_serialization_support={bool(o['omit'])!r}, "
            f"allow_overwrite={not o['no_overwrite']!r}, allow_unregulated_fixed_port_id=True, include_experimental_languages=True)\n"
            "except PermissionError as e:\n"
            "    sys.stderr.write('PermissionError: %s' % e); sys.exit(3)\n"
        )
        rc, so, se = tool.run_sub([], fake_time=FAKE_T, drop_caps=True, exec_code=code)
        self.runs += 1
        if rc == 97:
            raise core.HarnessError("capability drop ineffective: cannot observe permission bits as root")
        return rc, se


DIRECTED_UNIVERSE = {
    "roots": [
        {
            "name": "dirns",
            "types": [
                {"ns": ["dirns", "sub"], "name": "Leaf", "major": 1, "minor": 0, "port_id": None, "kind": "struct", "deprecated": False, "doc": ["a leaf  ", "", "", "type"],
                 "body": {"union": False, "sealed": True, "extent_extra": 0, "attrs": [{"k": "field", "type": {"t": "uint", "bits": 8, "cast": "saturated"}, "name": "x", "doc": None}]}},
                {"ns": ["dirns"], "name": "Top", "major": 1, "minor": 0, "port_id": None, "kind": "struct", "deprecated": False, "doc": [],
                 "body": {"union": False, "sealed": True, "extent_extra": 0, "attrs": [
                     {"k": "field", "type": {"t": "ref", "full": "dirns.sub.Leaf", "major": 1, "minor": 0}, "name": "leaf", "doc": None},
                     {"k": "field", "type": {"t": "varr", "elem": {"t": "float", "bits": 32, "cast": "saturated"}, "cap": 3, "incl": True}, "name": "v", "doc": None}]}},
            ],
        }
    ]
}
# each step changes ONE thing relative to the step before it (content unchanged + other mode, read-only tree, other content, ...)
DIRECTED_HISTORY = [
    {},
    {"mode": 0o444},
    {"mode": 0o664},
    {"mode": 0o664, "pp": "trim+limit1"},
    {"chmod_all": 0o444},
    {"mode": 0o600, "pp": "trim+limit1"},
    {"mode": 0o600, "pp": "trim+limit1", "omit": True},
    {"mode": 0o600, "no_overwrite": True},
    {"mode": 0o400, "support": "only"},
    {"mode": 0o644, "support": "never"},
    {"mode": 0o640, "support": "always"},
    {"chmod_all": 0o400},
    {"mode": 0o444, "support": "always"},
    {"mode": 0o444, "support": "always", "no_overwrite": True},
]


# --no-overwrite meets a support file that exists while no type file of the run does; empty placeholders at generated paths
DIRECTED_HISTORY_B = [
    {"support": "only", "mode": 0o644},
    {"no_overwrite": True},
    {"support": "only", "mode": 0o444},
    {"no_overwrite": True, "pp": "trim+limit1"},
    {"support": "never", "mode": 0o600},
    {"no_overwrite": True, "support": "always"},
]
# library helper and non-generating invocations over a populated directory
DIRECTED_HISTORY_D = [
    {"mode": 0o444},
    {"look": "--list-outputs"},
    {"look": "--dry-run"},
    {"look": "--list-inputs"},
    {"api": True, "no_overwrite": True},
    {"api": True},
    {"support": "only", "mode": 0o444, "asserts": True},
    {"api": True, "no_overwrite": True},
]
# generator objects (and their SetFileMode post-processor) reused for several generate_all() calls in one process; --file-mode 0
DIRECTED_HISTORY_G = [
    {"api": True, "reuse": 2, "mode": 0o444},
    {"api": True, "reuse": 3, "mode": 0o640},
    {"mode": 0o000},
    {"mode": 0o000, "pp": "trim+limit1"},
    {"mode": 0o444},
    {"api": True, "reuse": 2, "mode": 0o400, "omit": True},
]
DIRECTED_HISTORY_E = [
    {"support": "only", "mode": 0o444},
    {"api": True, "no_overwrite": True},
    {"api": True, "omit": True},
    {"api": True, "no_overwrite": True},
]
# other definitions in the same namespaces: the second tree shares only namespace-level files (and support files) with the first
DIRECTED_HISTORY_F = [
    {"support": "never", "mode": 0o644},
    {"support": "never", "no_overwrite": True, "tree": "B"},
    {"support": "never", "mode": 0o444, "tree": "B"},
    {"support": "never", "no_overwrite": True},
    {"support": "only", "mode": 0o444},
    {"support": "as-needed", "no_overwrite": True, "tree": "B"},
    {"api": True, "tree": "B"},
    {"api": True, "no_overwrite": True},
]
DIRECTED_HISTORY_C = [
    {"plant": "type", "content": "", "mode": 0o640},
    {"no_overwrite": True, "support": "never"},
    {"plant": "support", "content": "", "mode": 0o640},
    {"no_overwrite": True, "support": "only"},
    {"plant": "type", "content": "x", "mode": 0o444},
    {"no_overwrite": True},
    {"mode": 0o664},
    {"plant": "type", "content": "", "mode": 0o444},
    {"mode": 0o600, "support": "never"},
]


def make_machine(ctx: core.Ctx):
    class History(RuleBasedStateMachine):
        def __init__(self):
            super().__init__()
            self.env: typing.Optional[Env] = None
            self.trace: typing.List[dict] = []
            self.nontrivial = False
            self.n_runs = 0

        @initialize(u=dsdlgen.universe(profile="plain", max_roots=1, max_types=3, max_type_bits=1500), lang=st.sampled_from(["c", "c", "py", "cpp"]))
        def setup(self, u, lang):
            self.env = Env(u, lang)
            self.trace.append({"op": "init", "lang": lang})

        def fail(self, sig: str, what: str):
            assert self.env is not None
            ctx.fail(sig, what + f"  [history: {self.trace}]"[:1500], {"universe": self.env.u, "lang": self.env.lang, "trace": list(self.trace)})
            raise AssertionError(sig)

        @rule(o=opts_strategy)
        def run_tool(self, o):
            self.do_run(o)

        @precondition(lambda self: getattr(self, "last_opts", None) is not None and not self.last_opts.get("api"))
        @rule(dim=st.sampled_from(["mode", "mode", "mode", "no_overwrite", "support", "pp", "omit", "tree"]), o=opts_strategy)
        def rerun_with_one_change(self, dim, o):
            """The previous invocation again with ONE option changed (same content + other --file-mode, same mode + other content ...)."""
            new = dict(self.last_opts)
            new[dim] = o[dim]
            if dim == "tree":
                new["tree"] = "B" if self.last_opts.get("tree", "A") == "A" else "A"
            if dim == "mode" and new["mode"] == self.last_opts["mode"]:
                new["mode"] = MODES[(MODES.index(new["mode"]) + 1) % len(MODES)]
            if dim != "no_overwrite":
                new["no_overwrite"] = False  # the varied option is to take effect
            ctx.event("rule.rerun-with-one-change." + dim)
            self.do_run(new)

        @rule(o=opts_strategy)
        def run_library_helper(self, o):
            """nunavut.generate_types(...) -- the documented library route -- over whatever the directory holds."""
            ctx.event("rule.library-helper")
            self.do_run({"api": True, "omit": o["omit"], "no_overwrite": o["no_overwrite"], "mode": None, "support": "as-needed", "pp": "", "tree": o["tree"]})

        @precondition(lambda self: self.env is not None and any(self.env.out.rglob("*.*")))
        @rule(kind=st.sampled_from(["--list-outputs", "--dry-run", "--list-inputs"]), o=opts_strategy)
        def look_only(self, kind, o):
            """A non-generating invocation in the middle of a history leaves every file as it is (content and mode)."""
            env = self.env
            assert env is not None
            self.trace.append({"op": "look", "kind": kind, "opts": o})
            ctx.event("rule.look-only." + kind)
            before = snap(env.out)
            env.run(o, extra=[kind])
            after = snap(env.out)
            if after != before:
                changed = sorted(k for k in set(before) | set(after) if before.get(k) != after.get(k))
                p0 = changed[0]
                self.fail(f"C12|{env.lang}|non-generating-invocation-changed-output|{kind}",
                          f"{kind} changed {changed[:4]}: {p0} " + (f"mode {oct(before[p0][0])} -> {oct(after[p0][0])}" if p0 in before and p0 in after and before[p0][1] == after[p0][1] else "content / existence changed"))

        def do_run(self, o):
            env = self.env
            assert env is not None
            self.last_opts = dict(o)
            self.trace.append({"op": "run", "opts": o})
            model = env.model_files(o)
            before = snap(env.out)
            conflict = sorted(set(before) & set(model))
            met_special = any((before[p][0] & 0o200) == 0 or before[p][1] != model[p] for p in conflict)
            rc, se = env.run(o)
            after = snap(env.out)
            self.n_runs += 1
            if self.n_runs >= 2 and (met_special or (o["no_overwrite"] and conflict)):
                self.nontrivial = True
            lang = env.lang
            if o["no_overwrite"] and conflict:
                if rc == 0:
                    self.fail(f"C12|{lang}|no-overwrite|conflict-not-reported", f"--no-overwrite with pre-existing {conflict[:3]} exited 0")
                for p, (m, c) in before.items():
                    if p not in after:
                        self.fail(f"C12|{lang}|no-overwrite|pre-existing-file-deleted", f"{p} vanished")
                    if after[p][1] != c:
                        self.fail(f"C12|{lang}|no-overwrite|pre-existing-file-content-changed", f"{p} content changed by a --no-overwrite run")
                    if after[p][0] != m:
                        self.fail(f"C12|{lang}|no-overwrite|pre-existing-file-mode-changed", f"{p} mode {oct(m)} -> {oct(after[p][0])} by a --no-overwrite run")
                return
            if rc != 0:
                kind = "over-read-only-file" if any((before[p][0] & 0o200) == 0 for p in conflict) else "other"
                self.fail(f"C12|{lang}|run-fails|{kind}", f"run with {o} over existing output failed: {se[-500:]}")
            for p, c in model.items():
                if p not in after:
                    self.fail(f"C12|{lang}|generated-file-missing", f"{p} missing after a successful run")
                if after[p][1] != c:
                    self.fail(f"C12|{lang}|content-differs-from-fresh-directory-run|{'support' if 'nunavut' in p else 'type-or-namespace'}-file", f"{p} differs from what the same options produce in an empty directory")
                if (not o.get("api") or o.get("reuse")) and after[p][0] != o["mode"]:
                    self.fail(f"C12|{lang}|wrong-file-mode|{'support' if 'nunavut' in p else 'type-or-namespace'}-file", f"{p} has mode {oct(after[p][0])}, requested {oct(o['mode'])}")
            for p, (m, c) in before.items():
                if p in model:
                    continue
                if p not in after or after[p] != (m, c):
                    self.fail(f"C12|{lang}|foreign-file-touched", f"{p} (not generated by this run) changed: {oct(m)} -> {oct(after[p][0]) if p in after else 'deleted'}")

        @precondition(lambda self: self.env is not None and any(self.env.out.rglob("*.*")))
        @rule(picks=st.lists(st.integers(0, 30), min_size=1, max_size=4), mode=st.sampled_from([0o444, 0o400, 0o000]))
        def make_readonly(self, picks, mode):
            files = sorted(p for p in self.env.out.rglob("*") if p.is_file())
            chosen = sorted({files[i % len(files)] for i in picks})
            for p in chosen:
                os.chmod(p, mode)
            self.trace.append({"op": "chmod", "files": [str(p.relative_to(self.env.out)) for p in chosen], "mode": mode})

        @rule(where=st.sampled_from(["target", "elsewhere"]), pick=st.integers(0, 30), mode=st.sampled_from([0o644, 0o444, 0o600]), o=opts_strategy,
              content=st.sampled_from(["FOREIGN CONTENT\n", "FOREIGN CONTENT\n", "", "x"]))
        def plant_foreign(self, where, pick, mode, o, content="FOREIGN CONTENT\n"):
            env = self.env
            assert env is not None
            if where == "target":
                model = sorted(env.model_files(o))
                if not model:
                    return
                rel = model[pick % len(model)]
            else:
                rel = ["README.txt", "nunavut/NOTES", "other/dir/file.h"][pick % 3]
            p = env.out / rel
            if p.exists():
                os.chmod(p, 0o644)
            p.parent.mkdir(parents=True, exist_ok=True)
            p.write_text(content)
            os.chmod(p, mode)
            self.trace.append({"op": "plant", "file": rel, "mode": mode, "content": content})

        @precondition(lambda self: self.env is not None and any(self.env.out.rglob("*.*")))
        @rule(pick=st.integers(0, 30))
        def truncate(self, pick):
            files = sorted(p for p in self.env.out.rglob("*") if p.is_file())
            p = files[pick % len(files)]
            m = stat.S_IMODE(os.lstat(p).st_mode)
            os.chmod(p, 0o644)
            p.write_bytes(p.read_bytes()[: max(0, p.stat().st_size // 2)])
            os.chmod(p, m)
            self.trace.append({"op": "truncate", "file": str(p.relative_to(self.env.out))})

        def teardown(self):
            if self.env is not None:
                ops = [t["op"] for t in self.trace]
                ctx.case(
                    ("c12", self.env.u, self.trace),
                    nontrivial=self.nontrivial,
                    sample={"lang": self.env.lang, "history": self.trace[:7]},
                    classes=["machines", "lang." + self.env.lang]
                    + sorted({"op." + o for o in ops})
                    + (["no_overwrite_conflict"] if any(t["op"] == "run" and t["opts"]["no_overwrite"] for t in self.trace[2:]) else []),
                )
                ctx.event("tool_runs", self.env.runs)
                self.env.close()

    return History


def run(ctx: core.Ctx):
    ctx.rule = (
        "case = one machine: a generated namespace, a target language and a history of <= 8 operations on one output directory "
        "(runs with drawn options, chmod to read-only, planted foreign files, truncation); non-trivial = >= 2 runs where a later "
        "run meets a read-only or foreign/modified file at a path it generates, or a --no-overwrite conflict; distinct by hash "
        "of (universe, history)"
    )
    ctx.assumptions = [
        "the tool runs as root with CAP_DAC_OVERRIDE and CAP_DAC_READ_SEARCH removed (self-tested in the wrapper) so that permission bits are enforced",
        "model = same options into an empty directory at the same absolute --outdir path, fixed fake clock",
        "--file-mode of the model run is irrelevant to content; modes are compared with the requested --file-mode",
    ]
    n = 20 if ctx.quick else 120
    machine = make_machine(ctx)
    # directed histories first (one per target): every option dimension is varied once on its own over a populated directory
    def directed(lang_history):
        lang, history = lang_history
        m = machine()
        m.env = Env(DIRECTED_UNIVERSE, lang)
        m.trace.append({"op": "init", "lang": lang, "directed": True})
        base = {"mode": 0o644, "no_overwrite": False, "omit": False, "support": "as-needed", "pp": "", "tree": "A"}
        try:
            for step in history:
                if "plant" in step:
                    # a foreign file (possibly EMPTY) at a path the next run generates: first type file / support file
                    model = sorted(m.env.model_files(dict(base, support="always")))
                    cands = [f for f in model if ("nunavut" in f) == (step["plant"] == "support")]
                    rel = cands[0]
                    f = m.env.out / rel
                    if f.exists():
                        os.chmod(f, 0o644)
                    f.parent.mkdir(parents=True, exist_ok=True)
                    f.write_text(step["content"])
                    os.chmod(f, step["mode"])
                    m.trace.append({"op": "plant", "file": rel, "mode": step["mode"], "content": step["content"]})
                elif "look" in step:
                    m.look_only.__wrapped__(m, step["look"], dict(base)) if hasattr(m.look_only, "__wrapped__") else m.look_only(step["look"], dict(base))
                elif "chmod_all" in step:
                    files = sorted(p for p in m.env.out.rglob("*") if p.is_file())
                    for f in files:
                        os.chmod(f, step["chmod_all"])
                    m.trace.append({"op": "chmod", "files": [str(f.relative_to(m.env.out)) for f in files], "mode": step["chmod_all"]})
                else:
                    m.do_run(dict(base, **step))
            ctx.event("directed_histories_completed")
        except AssertionError:
            pass
        finally:
            m.teardown()

    # the directed histories are independent of each other (own scratch tree each): run them side by side
    import concurrent.futures

    plan = [(l, h) for l in ("c", "py", "cpp") for h in (DIRECTED_HISTORY, DIRECTED_HISTORY_B, DIRECTED_HISTORY_C, DIRECTED_HISTORY_D, DIRECTED_HISTORY_E, DIRECTED_HISTORY_F, DIRECTED_HISTORY_G) if not (h is DIRECTED_HISTORY_F and l == "cpp")]
    with concurrent.futures.ThreadPoolExecutor(max_workers=8) as ex:
        list(ex.map(directed, plan))
    try:
        run_state_machine_as_test(hypothesis.seed(ctx.seed)(machine), settings=core.hsettings(n, shrink=not os.environ.get("VF_NO_SHRINK"), stateful_step_count=8 if ctx.quick else 25))
    except AssertionError:
        pass
    ctx.require("machines", 5)
    ctx.require("op.run", 5)


def replay(ctx: core.Ctx, case):
    sub = core.Ctx(ctx.prop, ctx.tier, ctx.seed)
    M = make_machine(sub)
    m = M()
    m.env = Env(case["universe"], case["lang"])
    try:
        for t in case["trace"]:
            try:
                if t["op"] == "run":
                    m.run_tool.__wrapped__(m, t["opts"]) if hasattr(m.run_tool, "__wrapped__") else m.run_tool(t["opts"])
                elif t["op"] == "look":
                    m.look_only.__wrapped__(m, t["kind"], t["opts"]) if hasattr(m.look_only, "__wrapped__") else m.look_only(t["kind"], t["opts"])
                elif t["op"] == "chmod":
                    for f in t["files"]:
                        if (m.env.out / f).exists():
                            os.chmod(m.env.out / f, t["mode"])
                elif t["op"] == "plant":
                    p = m.env.out / t["file"]
                    if p.exists():
                        os.chmod(p, 0o644)
                    p.parent.mkdir(parents=True, exist_ok=True)
                    p.write_text(t.get("content", "FOREIGN CONTENT\n"))
                    os.chmod(p, t["mode"])
                elif t["op"] == "truncate":
                    p = m.env.out / t["file"]
                    if p.exists():
                        mm = stat.S_IMODE(os.lstat(p).st_mode)
                        os.chmod(p, 0o644)
                        p.write_bytes(p.read_bytes()[: max(0, p.stat().st_size // 2)])
                        os.chmod(p, mm)
            except AssertionError:
                break
    finally:
        m.env.close()
    return [(s, e["what"]) for s, e in sub.failures.items()]
