"""
C13 -- configuration sources are merged with a fixed precedence; deep union; sources unmodified; contexts independent.

Levels
  L1  deep_update / LanguageConfig.update on arbitrary nested maps (small key alphabet so collisions are frequent),
      DefaultValue-wrapped leaves, 1..5 source documents applied in sequence.
  L2  LanguageContextBuilder with 0..3 YAML files + builder overrides (explicit / DefaultValue) over the real option names of
      c / cpp / py; observed through Language.get_option(s), get_config_value*, and the `options` global of a probe template.
  L3  the CLI: nnvg --list-configuration (parsed) and flags, in-process and as a subprocess.
  H   histories: sequences of builders in one process; every earlier context keeps reporting what it reported at creation.

Oracles
  * recursive pure reference merge (ref_merge) -- always;
  * independent path-based rule for conflict-free inputs: effective leaf = last explicit value on that path, else last
    default-marked value (precedence stated as an order, not as an algorithm);
  * sources deep-equal to their pre-call snapshot (also catches aliasing through shallow copies);
  * C++ shorthands: every key of the documented group carries the group's value.
"""
from __future__ import annotations

import copy
import json
import pathlib
import shutil
import tempfile
import typing

from hypothesis import strategies as st

from .. import core, tool

KEYS = ["a", "b", "c"]


# ------------------------------------------------------------------------------------------------ encoding of documents
# JSON form: scalars as is, lists as {"__list__": [...]}, default-wrapped leaf as {"__default__": v}, maps as plain dicts
def decode(j):
    from nunavut._utilities import DefaultValue

    if isinstance(j, dict):
        if "__default__" in j:
            return DefaultValue(decode(j["__default__"]))
        if "__list__" in j:
            return [decode(x) for x in j["__list__"]]
        return {k: decode(v) for k, v in j.items()}
    return j


def encode(v):
    from nunavut._utilities import DefaultValue

    if isinstance(v, DefaultValue):
        return {"__default__": encode(v.value)}
    if isinstance(v, dict):
        return {k: encode(x) for k, x in v.items()}
    if isinstance(v, (list, tuple)):
        return {"__list__": [encode(x) for x in v]}
    return v


def is_map(j) -> bool:
    return isinstance(j, dict) and "__default__" not in j and "__list__" not in j


def is_default(j) -> bool:
    return isinstance(j, dict) and "__default__" in j


def ref_merge(target, source):
    """Pure reference over the JSON encoding: documented deep_update semantics."""
    out = copy.deepcopy(target) if is_map(target) else {}
    for k, v in source.items():
        if is_map(v):
            out[k] = ref_merge(out.get(k) if is_map(out.get(k)) else {}, v)
        elif is_default(v) and k in out and not is_default(out[k]):
            pass
        else:
            out[k] = copy.deepcopy(v)
    return out


def leaves(j, prefix=()):
    if is_map(j):
        for k, v in j.items():
            yield from leaves(v, prefix + (k,))
        if not j:
            yield prefix, "__emptymap__"
    else:
        yield prefix, j


def conflict_free(docs) -> bool:
    """No path is a map (or a prefix of a longer path) in one document and a leaf in another; no empty maps."""
    leaf_paths = set()
    for d in docs:
        for p, v in leaves(d):
            if v == "__emptymap__":
                return False
            leaf_paths.add(p)
    for p in leaf_paths:
        for q in leaf_paths:
            if p != q and q[: len(p)] == p:
                return False
    return True


def path_rule(docs):
    """Independent statement of the precedence: last explicit value per path, else last default-marked value."""
    out = {}
    paths = {}
    for d in docs:
        for p, v in leaves(d):
            paths.setdefault(p, []).append(v)
    for p, vals in paths.items():
        expl = [v for v in vals if not is_default(v)]
        val = expl[-1] if expl else vals[-1]
        cur = out
        for k in p[:-1]:
            cur = cur.setdefault(k, {})
        cur[p[-1]] = val
    return out


# ------------------------------------------------------------------------------------------------------------ L1
scalar = st.one_of(st.integers(0, 3), st.sampled_from(["x", "y", "", None, True, False]))
leaf = st.one_of(
    scalar,
    scalar.map(lambda v: {"__default__": v}),
    st.lists(scalar, max_size=2).map(lambda l: {"__list__": l}),
)
doc = st.recursive(
    st.dictionaries(st.sampled_from(KEYS), leaf, max_size=3),
    lambda children: st.dictionaries(st.sampled_from(KEYS), st.one_of(leaf, children), max_size=3),
    max_leaves=8,
)
l1_case = st.lists(doc, min_size=1, max_size=5).map(lambda docs: {"docs": docs})


def check_l1(ctx: core.Ctx, case, via_config: bool = False):
    from nunavut._utilities import deep_update
    from nunavut.lang import LanguageConfig

    docs_j = case["docs"]
    docs = [decode(d) for d in docs_j]
    res = []
    if via_config:
        cfg = LanguageConfig()
        for d in docs:
            cfg.update({"nunavut.lang.zz": d})
        got = encode(cfg.sections().get("nunavut.lang.zz", {}))
    else:
        tgt: dict = {}
        for d in docs:
            tgt = deep_update(tgt, d)
        got = encode(tgt)
    exp: dict = {}
    for d in docs_j:
        exp = ref_merge(exp, d)
    cf = conflict_free(docs_j)
    # two sources touching the same nested key with different explicit/default marking
    touched: typing.Dict[tuple, set] = {}
    for d in docs_j:
        for p, v in leaves(d):
            touched.setdefault(p, set()).add(is_default(v))
    nontrivial = len(docs_j) >= 2 and any(len(p) >= 2 and len(m) == 2 for p, m in touched.items())
    ctx.case(
        ("l1", via_config, docs_j),
        nontrivial,
        sample={"level": "LanguageConfig.update" if via_config else "deep_update", "docs": docs_j, "merged": exp},
        classes=["l1.conflict_free" if cf else "l1.map_vs_leaf_conflict", "l1.via_config" if via_config else "l1.direct"],
    )
    tag = "config" if via_config else "deep_update"
    if got != exp:
        res.append((f"L1|{tag}|merge-result", f"docs={docs_j!r}: got {got!r}, reference merge {exp!r}"))
    if cf:
        pr = path_rule(docs_j)
        if pr != exp:
            raise core.HarnessError(f"path rule and recursive reference disagree on {docs_j!r}: {pr!r} vs {exp!r}")
    for i, (d, dj) in enumerate(zip(docs, docs_j)):
        if encode(d) != dj:
            res.append(
                (
                    f"L1|{tag}|source-document-modified",
                    f"docs={docs_j!r}: source #{i} became {encode(d)!r} after later updates (aliased into the merged map)",
                )
            )
            break
    return res


# ------------------------------------------------------------------------------------------------------------ L2 / L3
BUILTIN: typing.Dict[str, typing.Any] = {}


def builtin(section: str):
    import yaml

    if not BUILTIN:
        BUILTIN.update(yaml.safe_load((core.REPO / "src/nunavut/lang/properties.yaml").read_text()))
    return copy.deepcopy(BUILTIN["nunavut.lang." + section])


OPT_VALUES = {
    "target_endianness": ["any", "little", "big"],
    "omit_float_serialization_support": [True, False],
    "enable_serialization_asserts": [True, False],
    "enable_override_variable_array_capacity": [True, False],
    "cast_format": ["(({type}) {value})", "static_cast<{type}>({value})", "{value}"],
    "zz_custom": ["p", "q", 7],
}
CPP_OPT_VALUES = {
    "std": ["c++14", "c++17", "c++20", "c++17-pmr", "cetl++14-17"],
    "variable_array_type_include": ["<vector>", '"my/vec.hpp"'],
    "variable_array_type_template": ["std::vector<{TYPE}>", "my::vec<{TYPE}>"],
    "allocator_is_default_constructible": [True, False],
}
SECTION_VALUES = {
    "extension": [".h", ".hpp", ".xx", ""],  # an explicit empty string is a value like any other
    "namespace_file_stem": ["_ns_", "index"],
    "limit_empty_lines": [0, 1, 2],
    "trim_trailing_whitespace": [True, False],
    "stropping_prefix": ["_", "zz", ""],
    "zz_new_key": ["v1", "v2", ""],
}
NESTED_VALUES = {
    "named_types": {"byte": ["uint8_t", "my_byte"], "zz": ["t1", "t2"]},
    "zz_nested": {"k1": [1, 2], "k2": ["s"]},
    # three levels deep (a built-in map of maps for C++, a new key elsewhere): copies that stop one level short alias these
    "comment_styles": {"cpp-doxygen": [{"prefix": "//!"}, {"comment": "//! ", "suffix": "//!"}], "javadoc": [{"prefix": "/*!"}], "zz-style": [{"prefix": "#", "comment": "# "}]},
}


@st.composite
def source_doc(draw, lang: str, allow_default: bool):
    """One configuration source for section nunavut.lang.<lang> in the JSON encoding."""
    d: dict = {}
    opts: dict = {}
    pool = dict(OPT_VALUES)
    if lang == "cpp":
        pool.update(CPP_OPT_VALUES)
    for k in draw(st.lists(st.sampled_from(sorted(pool)), max_size=4, unique=True)):
        v = draw(st.sampled_from(pool[k]))
        if allow_default and k != "std" and draw(st.booleans()):
            v = {"__default__": v}
        opts[k] = v
    if opts or draw(st.integers(0, 4)) == 0:
        d["options"] = opts
    for k in draw(st.lists(st.sampled_from(sorted(SECTION_VALUES)), max_size=2, unique=True)):
        d[k] = draw(st.sampled_from(SECTION_VALUES[k]))
    for k in draw(st.lists(st.sampled_from(sorted(NESTED_VALUES)), max_size=1, unique=True)):
        sub = {}
        for kk in draw(st.lists(st.sampled_from(sorted(NESTED_VALUES[k])), min_size=1, max_size=2, unique=True)):
            sub[kk] = draw(st.sampled_from(NESTED_VALUES[k][kk]))
        d[k] = sub
    return d


@st.composite
def l2_case(draw):
    lang = draw(st.sampled_from(["c", "cpp", "cpp", "py"]))
    files = draw(st.lists(source_doc(lang, False), max_size=3))
    override = draw(source_doc(lang, True))
    if lang == "cpp" and draw(st.booleans()):
        # shorthand given explicitly (CLI/API) over files that set members of its documented group
        override.setdefault("options", {})["std"] = draw(st.sampled_from(["c++17-pmr", "cetl++14-17"]))
        if draw(st.booleans()):
            k = draw(st.sampled_from(DOCUMENTED_GROUP))
            vals = {
                "variable_array_type_include": ['"my/vec.hpp"', '"cetl/variable_length_array.hpp"', "<vector>"],
                "variable_array_type_template": ["my::vec<{TYPE}>", "std::vector<{TYPE}>"],
                "variable_array_type_constructor_args": ["{MAX_SIZE}", ""],
                "allocator_include": ['"my/alloc.hpp"', "<memory>"],
                "allocator_type": ["my::alloc", "std::allocator"],
                "allocator_is_default_constructible": [True, False],
                "ctor_convention": ["uses-trailing-allocator", "uses-leading-allocator"],
            }[k]
            files = files + [{"options": {k: draw(st.sampled_from(vals))}}]
            files = draw(st.permutations(files))
    return {"lang": lang, "files": list(files), "override": override}


GROUP_MEMBER_VALUES = {
    "variable_array_type_include": ['"my/vec.hpp"', '"cetl/variable_length_array.hpp"', "<vector>"],
    "variable_array_type_template": ["my::vec<{TYPE}>", "std::vector<{TYPE}>"],
    "variable_array_type_constructor_args": ["{MAX_SIZE}", ""],
    "allocator_include": ['"my/alloc.hpp"', "<memory>"],
    "allocator_type": ["my::alloc", "std::allocator"],
    "allocator_is_default_constructible": [True, False],
    "ctor_convention": ["uses-trailing-allocator", "uses-leading-allocator"],
}

# the group of options the C++ shorthands are DOCUMENTED to set (docs/languages.rst, "c++17-pmr.yaml" / "cetl++14-17.yaml")
DOCUMENTED_GROUP = [
    "variable_array_type_include",
    "variable_array_type_template",
    "variable_array_type_constructor_args",
    "allocator_include",
    "allocator_type",
    "allocator_is_default_constructible",
    "ctor_convention",
]
_SHORTHAND_BASELINE: typing.Dict[str, dict] = {}


def shorthand_baseline(env: "L2Env", std: str) -> dict:
    """What the shorthand alone (no files, no other overrides) yields for its documented group."""
    key = f"{core.REPO}|{std}"
    if key not in _SHORTHAND_BASELINE:
        lctx, _, _ = build_context(env, {"lang": "cpp", "files": [], "override": {"options": {"std": std}}})
        opts = observe(lctx)["options"]
        _SHORTHAND_BASELINE[key] = {k: opts.get(k, "<absent>") for k in DOCUMENTED_GROUP}
    return _SHORTHAND_BASELINE[key]


def expected_section(case) -> typing.Tuple[dict, typing.Optional[str]]:
    """Effective section (JSON encoding) by the stated precedence, and the expected error class if any."""
    lang = case["lang"]
    shorthand = None
    sec = encode(builtin(lang))
    for f in case["files"]:
        sec = ref_merge(sec, f)
    sec = ref_merge(sec, case["override"])
    if lang == "cpp":
        opts = sec.get("options", {})
        std = opts.get("std")
        std = std["__default__"] if is_default(std) else std
        group = sec.get("defaults", {}).get(std)
        if group:
            shorthand = std
            for k, v in group.items():
                # a shorthand sets its DOCUMENTED group (and the standard / flavour it stands for) -- nothing else: whatever else
                # the tree's table lists under the shorthand must not displace a value from any other source
                if k in DOCUMENTED_GROUP or k in ("std", "std_flavor"):
                    opts[k] = v
    if lang == "py":
        # documented in lang/py: "always enable serialization asserts for python" -- the option is not configurable there
        sec.setdefault("options", {})["enable_serialization_asserts"] = True
    return sec, shorthand


def unwrap(j):
    if is_default(j):
        return unwrap(j["__default__"])
    if isinstance(j, dict) and "__list__" in j:
        return [unwrap(x) for x in j["__list__"]]
    if isinstance(j, dict):
        return {k: unwrap(v) for k, v in j.items()}
    return j


class L2Env:
    def __init__(self):
        self.tmp = pathlib.Path(tempfile.mkdtemp(prefix="vf-c13-"))
        self.n = 0

    def write_files(self, lang, files):
        import yaml

        paths = []
        self.batch = getattr(self, "batch", 0) + 1
        for i, f in enumerate(files):
            self.n += 1
            # the position of a file among the sources, never its name, decides precedence: every other batch is named in
            # DESCENDING alphabetical order (seeded change C13-D sorted the --configuration files by path)
            p = self.tmp / (f"{'zyxwvu'[i % 6]}{self.n}.yaml" if self.batch % 2 else f"cfg{self.n}.yaml")
            if self.batch % 3 == 0:
                # the SAME path as in earlier batches of this process, now with other content (a user edits the file and builds
                # a new context): what an earlier context read from that path must not show
                p = self.tmp / f"reused{i}.yaml"
            p.write_text(yaml.safe_dump({"nunavut.lang." + lang: unwrap(f)}))
            paths.append(p)
        return paths

    def close(self):
        shutil.rmtree(self.tmp, ignore_errors=True)


def build_context(env: L2Env, case):
    from nunavut.lang import LanguageContextBuilder

    b = LanguageContextBuilder(include_experimental_languages=True).set_target_language(case["lang"])
    b.add_config_files(*env.write_files(case["lang"], case["files"]))
    ov = decode(case["override"])
    ov_snapshot = encode(ov)
    for k, v in ov.items():
        b.set_target_language_configuration_override(k, v)
    lctx = b.create()
    return lctx, ov, ov_snapshot


def observe(lctx) -> dict:
    lang = lctx.get_target_language()
    obs = {"options": unwrap(encode(dict(lang.get_options())))}
    for k in list(SECTION_VALUES) + ["enable_stropping"]:
        try:
            obs["cfg." + k] = lang.get_config_value(k)
        except KeyError:
            obs["cfg." + k] = "<KeyError>"
    for k in NESTED_VALUES:
        obs["dict." + k] = unwrap(encode(lang.get_config_value_as_dict(k, {})))
    obs["get_option"] = {k: unwrap(encode(lang.get_option(k))) for k in sorted(obs["options"])}
    return obs


def expected_observation(sec: dict) -> dict:
    u = unwrap(sec)
    obs = {"options": u.get("options", {})}
    for k in list(SECTION_VALUES) + ["enable_stropping"]:
        if k in u:
            obs["cfg." + k] = "" if u[k] is None else str(u[k])
        else:
            obs["cfg." + k] = "<KeyError>"
    for k in NESTED_VALUES:
        obs["dict." + k] = u.get(k, {}) if isinstance(u.get(k, {}), dict) else {}
    obs["get_option"] = dict(obs["options"])
    return obs


def nontrivial_l2(case) -> bool:
    seen: typing.Dict[tuple, set] = {}
    for i, d in enumerate(case["files"] + [case["override"]]):
        for p, v in leaves(d):
            seen.setdefault(p, set()).add((i, is_default(v)))
    return any(len({i for i, _ in s}) >= 2 for p, s in seen.items() if len(p) >= 2)


def check_l2(ctx: core.Ctx, case, env: L2Env):
    res = []
    exp_sec, shorthand = expected_section(case)
    exp = expected_observation(exp_sec)
    try:
        lctx, ov, ov_snap = build_context(env, case)
    except ValueError as e:
        # the C++ validation refuses inconsistent option groups; the generator does not produce any on purpose
        ctx.case(("l2", case), False, classes=["l2.rejected"])
        return [("L2|unexpected-rejection", f"{case!r}: {e}")]
    got = observe(lctx)
    std = shorthand
    ctx.case(
        ("l2", case),
        nontrivial_l2(case),
        sample={"level": "builder", **case},
        classes=["l2." + case["lang"], f"l2.files={len(case['files'])}"]
        + (["l2.shorthand"] if std in ("c++17-pmr", "cetl++14-17") else []),
    )
    if std in ("c++17-pmr", "cetl++14-17"):
        # metamorphic, independent of the tree's own group table: the shorthand sets its documented group AS A UNIT, so no
        # lower-precedence source may influence any member of the group
        base = shorthand_baseline(env, std)
        moved = sorted(k for k in DOCUMENTED_GROUP if got["options"].get(k, "<absent>") != base[k])
        if moved:
            res.append((f"L2|cpp|shorthand-group-not-a-unit|{std}", f"{case!r}: with -std {std} the documented group members {moved} are {[got['options'].get(k) for k in moved]} instead of {[base[k] for k in moved]} (what the shorthand alone sets)"))
    for k in exp:
        if got.get(k) != exp[k]:
            diff = k
            if isinstance(exp[k], dict) and isinstance(got.get(k), dict):
                bad = sorted(kk for kk in set(exp[k]) | set(got[k]) if exp[k].get(kk, "<absent>") != got[k].get(kk, "<absent>"))
                diff = f"{k}[{','.join(bad)}]"
                kind = "shorthand-group" if std in ("c++17-pmr", "cetl++14-17") and set(bad) & set(
                    unwrap(exp_sec).get("defaults", {}).get(std, {})
                ) else "precedence"
            else:
                kind = "precedence"
            res.append(
                (
                    f"L2|{case['lang']}|{kind}|{k.split('.')[0]}",
                    f"{case!r}: observed {diff} = {got.get(k)!r}, stated precedence gives {exp[k]!r}",
                )
            )
    if encode(ov) != ov_snap:
        res.append((f"L2|{case['lang']}|override-document-modified", f"{case!r}: override map became {encode(ov)!r}"))
    return res


# probe template: what templates see in `options`
def check_template_view(ctx: core.Ctx, case, env: L2Env):
    import nunavut
    import nunavut.jinja

    res = []
    exp_sec, _ = expected_section(case)
    exp = expected_observation(exp_sec)["options"]
    lctx, _, _ = build_context(env, case)
    nsdir = env.tmp / "ns"
    if not nsdir.exists():
        nsdir.mkdir()
        (nsdir / "A.1.0.dsdl").write_text("uint8 a\n@sealed\n")
        (env.tmp / "tpl").mkdir()
        (env.tmp / "tpl" / "Any.j2").write_text("{% for k, v in options.items() %}{{ k }}@@V@@{{ (v.value if v.value is defined else v) | tojson }}@@R@@{% endfor %}")
    import pydsdl

    types = pydsdl.read_namespace(str(nsdir), [])
    ns = nunavut.build_namespace_tree(types, str(nsdir), str(env.tmp / "out"), lctx)
    g = nunavut.jinja.DSDLCodeGenerator(ns, templates_dir=env.tmp / "tpl")
    outs = list(g.generate_all())
    text = pathlib.Path(outs[0]).read_text()
    seen = {}
    for rec in text.split("@@R@@"):
        if "@@V@@" in rec:
            k, v = rec.split("@@V@@", 1)
            seen[k.strip()] = json.loads(v)
    ctx.case(("tpl", case), nontrivial_l2(case), classes=["l2.template_view"])
    if seen != json.loads(json.dumps(exp)):
        res.append((f"L2|{case['lang']}|template-options-view", f"{case!r}: template saw {seen!r}, expected {exp!r}"))
    return res


# ------------------------------------------------------------------------------------------------------------ L3 (CLI)
@st.composite
def l3_case(draw):
    lang = draw(st.sampled_from(["c", "cpp", "cpp", "py"]))
    files = draw(st.lists(source_doc(lang, False), max_size=3))
    flags = {
        "target_endianness": draw(st.sampled_from([None, "any", "little", "big"])),
        "omit_float_serialization_support": draw(st.booleans()),
        "enable_serialization_asserts": draw(st.booleans()),
        "enable_override_variable_array_capacity": draw(st.booleans()),
        "std": draw(st.sampled_from([None, "c++14", "c++17", "c++20", "c++17-pmr", "cetl++14-17"])) if lang == "cpp" else None,
        "extension": draw(st.sampled_from([None, ".hh", ".x"])),
        "stem": draw(st.sampled_from([None, "_n_"])),
    }
    # the same file may be named twice (-c a b a): its second mention is a later source than b
    repeat = len(files) >= 2 and draw(st.integers(0, 3)) == 0
    return {"lang": lang, "files": files, "flags": flags, "subprocess": draw(st.integers(0, 19)) == 0, "repeat_first": repeat}


def l3_override(flags) -> dict:
    o: dict = {}
    if flags["target_endianness"] is not None:
        o["target_endianness"] = flags["target_endianness"]
    for k in ("omit_float_serialization_support", "enable_serialization_asserts", "enable_override_variable_array_capacity"):
        o[k] = True if flags[k] else {"__default__": False}
    if flags["std"] is not None:
        o["std"] = flags["std"]
    ov: dict = {"options": o}
    if flags["extension"] is not None:
        ov["extension"] = flags["extension"]
    if flags["stem"] is not None:
        ov["namespace_file_stem"] = flags["stem"]
    return ov


def check_l3(ctx: core.Ctx, case, env: L2Env):
    import yaml

    flags = case["flags"]
    argv = ["--target-language", case["lang"], "--experimental-languages", "--list-configuration"]
    if flags["target_endianness"]:
        argv += ["--target-endianness", flags["target_endianness"]]
    if flags["omit_float_serialization_support"]:
        argv += ["--omit-float-serialization-support"]
    if flags["enable_serialization_asserts"]:
        argv += ["--enable-serialization-asserts"]
    if flags["enable_override_variable_array_capacity"]:
        argv += ["--enable-override-variable-array-capacity"]
    if flags["std"]:
        argv += ["--language-standard", flags["std"]]
    if flags["extension"]:
        argv += ["--output-extension", flags["extension"]]
    if flags["stem"]:
        argv += ["--namespace-output-stem", flags["stem"]]
    nsdir = env.tmp / "ns3"
    nsdir.mkdir(exist_ok=True)
    argv += [str(nsdir)]
    cfgs = env.write_files(case["lang"], case["files"])
    if cfgs and case.get("repeat_first"):
        cfgs = cfgs + [cfgs[0]]
    if cfgs:  # one flag, several values (nargs="*"): later files override earlier ones
        argv += ["--configuration"] + [str(p) for p in cfgs]
    if case.get("subprocess"):
        rc, out, err = tool.run_sub(argv)
    else:
        rc, out, err = tool.run_inproc(argv)
    mcase = {"lang": case["lang"], "files": case["files"] + ([case["files"][0]] if case.get("repeat_first") and case["files"] else []), "override": l3_override(flags)}
    exp_sec, shorthand = expected_section(mcase)
    exp = unwrap(exp_sec)
    ctx.case(
        ("l3", case),
        nontrivial_l2(mcase) or any(flags[k] for k in ("omit_float_serialization_support", "enable_serialization_asserts")),
        sample={"level": "cli --list-configuration", "argv": argv, "files": case["files"]},
        classes=["l3.sub" if case.get("subprocess") else "l3.inproc", "l3." + case["lang"]] + (["l3.shorthand"] if shorthand else []) + (["l3.file-named-twice"] if case.get("repeat_first") else [])
        + (["l3.files-not-in-alphabetical-order"] if [str(p) for p in cfgs] != sorted(str(p) for p in cfgs) else []),
    )
    if rc != 0:
        return [("L3|cli-failed", f"argv={argv!r} rc={rc} stderr={err[-800:]!r}")]
    body = out.split("\n", 1)[1]
    # default-marked values that displaced nothing are dumped as python-object tags: load them and unwrap
    got = unwrap(encode(yaml.unsafe_load(body)["nunavut.lang." + case["lang"]]))
    res = []
    for k in sorted(set(exp) | set(got)):
        if k == "defaults":
            continue
        e, g = exp.get(k, "<absent>"), got.get(k, "<absent>")
        if e != g:
            sub = ""
            if isinstance(e, dict) and isinstance(g, dict):
                sub = "[" + ",".join(sorted(kk for kk in set(e) | set(g) if e.get(kk, "<absent>") != g.get(kk, "<absent>"))) + "]"
            res.append((f"L3|{case['lang']}|list-configuration|{k}", f"argv={argv!r}: {k}{sub} listed {g!r}, stated precedence gives {e!r}"))
    return res


# ------------------------------------------------------------------------------------------------------------ histories
def run_histories(ctx: core.Ctx, n_machines: int, steps: int):
    import hypothesis
    from hypothesis.stateful import RuleBasedStateMachine, invariant, rule, run_state_machine_as_test

    outer = ctx

    class Builders(RuleBasedStateMachine):
        def __init__(self):
            super().__init__()
            self.env = L2Env()
            self.ctxs = []  # (case, lctx, observation at creation)
            self.trace = []

        @rule(case=l2_case())
        def new_builder(self, case):
            try:
                lctx, _, _ = build_context(self.env, case)
            except ValueError:
                return
            self.trace.append(case)
            self.ctxs.append((case, lctx, observe(lctx)))

        @invariant()
        def earlier_contexts_unchanged(self):
            for i, (case, lctx, obs0) in enumerate(self.ctxs):
                now = observe(lctx)
                if now != obs0:
                    diff = {k: (obs0[k], now[k]) for k in obs0 if obs0[k] != now.get(k)}
                    outer.fail(
                        "H|earlier-context-changed",
                        f"context #{i} ({case!r}) reported {diff!r} after {len(self.ctxs) - 1 - i} later builders",
                        {"history": self.trace},
                    )
                    raise AssertionError("earlier context changed")

        def teardown(self):
            langs = {c["lang"] for c, _, _ in self.ctxs}
            outer.case(
                ("hist", self.trace),
                nontrivial=len(self.ctxs) >= 2 and len({json.dumps(c, sort_keys=True) for c, _, _ in self.ctxs}) >= 2,
                sample={"level": "history", "builders": self.trace[:3]},
                classes=["hist", f"hist.len={min(len(self.ctxs), 6)}"] + (["hist.multi_lang"] if len(langs) > 1 else []),
            )
            self.env.close()

    try:
        run_state_machine_as_test(
            hypothesis.seed(ctx.seed)(Builders),
            settings=core.hsettings(n_machines, shrink=True, stateful_step_count=steps),
        )
    except AssertionError:
        pass


# ------------------------------------------------------------------------------------------------------------ driver
def run(ctx: core.Ctx):
    ctx.rule = (
        "L1: 1..5 nested maps over keys {a,b,c} with scalar / list / DefaultValue leaves merged by deep_update and by "
        "LanguageConfig.update; L2: 0..3 YAML files + builder overrides over real c/cpp/py option names via "
        "LanguageContextBuilder; L3: nnvg --list-configuration with flags and --configuration files; H: builder "
        "histories. Non-trivial = >=2 sources touching the same nested key (L1: with different explicit/default "
        "marking); histories with >=2 different builders. Distinct by hash of the case."
    )
    ctx.assumptions = [
        "built-in defaults are read independently from src/nunavut/lang/properties.yaml",
        "history invariant is checked across distinct builders (configuration is documented per builder)",
        "option groups that the C++ validation documents as invalid are not generated",
    ]
    q = ctx.quick
    core.explore(ctx, l1_case, lambda c: check_l1(ctx, c, False), 3000 if q else 60000)
    core.explore(ctx, l1_case, lambda c: check_l1(ctx, c, True), 1500 if q else 30000, seed_offset=1)
    env = L2Env()
    try:
        core.explore(ctx, l2_case(), lambda c: check_l2(ctx, c, env), 500 if q else 8000, seed_offset=2)
        # directed sweep: each shorthand given explicitly over ONE file that sets ONE member of its documented group to a value
        # other than the shorthand's own (every member x every shorthand, builder and CLI level)
        for std in ("c++17-pmr", "cetl++14-17"):
            for k, vals in sorted(GROUP_MEMBER_VALUES.items()):
                for v in vals:
                    f = {"options": {k: v}}
                    for sig, what in check_l2(ctx, {"lang": "cpp", "files": [f], "override": {"options": {"std": std}}}, env):
                        ctx.fail(sig, what, {"lang": "cpp", "files": [f], "override": {"options": {"std": std}}})
                    flags = {"target_endianness": None, "omit_float_serialization_support": False, "enable_serialization_asserts": False,
                             "enable_override_variable_array_capacity": False, "std": std, "extension": None, "stem": None}
                    c3 = {"lang": "cpp", "files": [f], "flags": flags, "subprocess": False, "repeat_first": False}
                    for sig, what in check_l3(ctx, c3, env):
                        ctx.fail(sig, what, c3)
                    ctx.event("directed.shorthand-over-one-group-member")
        core.explore(ctx, l2_case(), lambda c: check_template_view(ctx, c, env), 40 if q else 600, seed_offset=3)
        core.explore(ctx, l3_case(), lambda c: check_l3(ctx, c, env), 150 if q else 3000, seed_offset=4)
    finally:
        env.close()
    run_histories(ctx, 25 if q else 300, 6)
    ctx.require("l2.shorthand", 20)
    ctx.require("directed.shorthand-over-one-group-member", 28)
    ctx.require("l1.map_vs_leaf_conflict", 100)
    ctx.require("hist", 10)


def replay(ctx: core.Ctx, case):
    if "history" in case:
        env = L2Env()
        try:
            made = []
            for c in case["history"]:
                lctx, _, _ = build_context(env, c)
                made.append((c, lctx, observe(lctx)))
                for i, (cc, l, o) in enumerate(made):
                    if observe(l) != o:
                        return [("H|earlier-context-changed", f"context #{i} changed after later builders")]
            return []
        finally:
            env.close()
    if "docs" in case:
        return check_l1(ctx, case, False) + check_l1(ctx, case, True)
    env = L2Env()
    try:
        if "flags" in case:
            return check_l3(ctx, case, env)
        return check_l2(ctx, case, env) + check_template_view(ctx, case, env)
    finally:
        env.close()
