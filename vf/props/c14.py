"""
C14 -- support-library bit primitives are correct for all offsets, lengths and values.

Targets : the GENERATED support code of the tree under test (generated at run time with `--generate-support only`):
          C  nunavut/support/serialization.h   (endianness any and little; + little with asserts under ASan/UBSan)
          C++ nunavut/support/serialization.hpp (bitspan / const_bitspan, -std=c++14; + little with asserts under ASan/UBSan)
          Python nunavut_support.py             (Serializer / Deserializer / ZeroExtendingBuffer)
Domain  : exhaustive grids enumerated INSIDE the compiled harness (harness/c14_c.c, shared by C and C++ through
          harness/c14_cpp.cpp): offsets x lengths x buffer sizes x content patterns (00, ff, a5/5a, LCG streams) with guard
          bytes around every buffer (poisoned in the ASan builds, so over-READS are seen too), per primitive family; all
          2^16 half codes; float->half over +-8 ulp around every binary16 value and midpoint plus a 2^24 stratified sample
          (quick) / ALL 2^32 singles (thorough); random larger tuples from a splitmix64 stream seeded with VERIF_SEED;
          Python on a thinned grid (harness/c14_py.py).
Oracle  : bit-by-bit references inside the harnesses (one bit per loop iteration, nothing shared with the implementation).
          Exactly the addressed bits change; everything else and the guards are intact; reads past the end are zero; sign
          extension; BUFFER_TOO_SMALL / error result exactly when size*8 < off+len; half conversion faithful, monotone,
          |x| >= 65520 -> inf, inf and NaN-ness preserved, pack(unpack(h)) == h.  Per-primitive allowances are listed in
          ctx.assumptions.
Signature = "<target>|<family>|<clause>", target in {c-any, c-little, cpp, py} (sanitizer builds map to their language).
"""
from __future__ import annotations

import concurrent.futures
import json
import os
import pathlib
import resource
import shutil
import subprocess
import tempfile
import typing

from .. import core, tool

HARNESS = core.VERIF / "harness"
SAN_FLAGS = ["-fsanitize=address,undefined", "-fno-sanitize-recover=all", "-fno-omit-frame-pointer", "-O1", "-g0"]
RUN_ENV = {
    "ASAN_OPTIONS": "detect_leaks=0:exitcode=23:allocator_may_return_null=1",
    "UBSAN_OPTIONS": "halt_on_error=1:print_stacktrace=0",
}

# label -> description of one harness build; "sig" is the target component of failure signatures
BUILDS: typing.Dict[str, dict] = {
    "c-any": {"sig": "c-any", "lang": "c", "endian": "any", "asserts": False, "san": False, "cc": ["gcc", "-std=c11", "-O2"]},
    "c-little": {"sig": "c-little", "lang": "c", "endian": "little", "asserts": False, "san": False, "cc": ["gcc", "-std=c11", "-O2"]},
    "cpp": {"sig": "cpp", "lang": "cpp", "endian": "any", "asserts": False, "san": False, "cc": ["g++", "-std=c++14", "-O2"]},
    "c-little-asan": {"sig": "c-little", "lang": "c", "endian": "little", "asserts": True, "san": True, "cc": ["clang", "-std=c11"]},
    "cpp-little-asan": {"sig": "cpp", "lang": "cpp", "endian": "little", "asserts": True, "san": True, "cc": ["clang++", "-std=c++14"]},
}

# tuples per family of the deterministic grid (measured; the grid does not depend on the tree under test): minimums
FULL = {
    "copyBits": 1679616, "copyBitsOverlap": 9720, "getBits": 707616, "saturate": 229376, "setBit": 21504, "getBit": 10752,
    "setUxx": 2138112, "setIxx": 2138112, "getU8": 707616, "getU16": 707616, "getU32": 707616, "getU64": 707616,
    "getI8": 698880, "getI16": 698880, "getI32": 698880, "getI64": 698880, "f16unpack": 65536, "f16roundtrip": 65536,
    "f16pack": 2158576, "setF16": 67392, "setF32": 67392, "setF64": 48672, "getF16": 11193, "getF32": 11193, "getF64": 11193,
    "setZeros": 997248, "padAndMoveToAlignment": 47040, "subspan": 425984, "subspan2": 973440, "subspan_limited_to": 99840,
    "accessors": 57344, "copyToClamp": 2644992,
}  # fmt: skip
CPP_ONLY = {"setZeros", "padAndMoveToAlignment", "subspan", "subspan2", "subspan_limited_to", "accessors", "copyToClamp"}
PY_MIN = {"py.ser.unaligned_unsigned": 15000, "py.ser.unaligned_signed": 12000, "py.des.unaligned_unsigned": 29000,
          "py.des.unaligned_signed": 28000, "py.des.unaligned_array_std": 20000, "py.zeb.get_unsigned_slice": 2000,
          "py.f16.roundtrip": 65536, "py.f16.from_double": 20000, "py.ser.aligned_unsigned": 1900, "py.des.aligned_unsigned": 3600}
PY_SHARDS = 4

BOUNDS = {
    "copyBits": "src offset 0..23 x dst offset 0..23 x length 0..80 x 6 src patterns x 6 dst patterns; exact-fit buffers + guards",
    "copyBitsOverlap": "one 16-byte buffer, src/dst byte offsets 0..5 (distinct), length 0..80 bits, 4 patterns (byte-aligned overlap)",
    "getBits": "offset 0..111 x length 0..80 x buffer size 0..12 bytes x 6 patterns; output ceil(len/8)+2 bytes + guards",
    "getU8..U64, getI8..I64": "offset 0..111 x length 0..80 x buffer size 0..12 x 6 patterns (signed: length 1 skipped, documented unspecified)",
    "setUxx, setIxx": "offset 0..31 x length {0..80, 81, 96, 127, 128, 200, 255} x buffer size 0..15 x 8 values x 6 patterns",
    "setBit/getBit": "offset 0..127 x buffer size 0..13 x {0,1} x 6 patterns",
    "saturate": "buffer size 0..13 x offset 0..127 x length 0..127",
    "setF16/32/64": "offset 0..23 x buffer size 0..12 x (special values + 12 LCG patterns) x 6 patterns",
    "getF16/32/64": "offset 0..40 x buffer size 0..12 x (3 fixed patterns + 48 LCG contents)",
    "f16unpack, f16roundtrip": "all 65536 half codes",
    "f16pack": "+-8 float ulps around all 31744 finite binary16 magnitudes and their midpoints, both signs; ordered sweep: "
    "2^24 stratified singles (quick) / all 2^32 singles (thorough) on c-any and cpp",
    "cpp setZeros": "offset 0..111 x length 0..104 (and the no-argument form) x buffer size 0..13 x 6 patterns",
    "cpp padAndMoveToAlignment": "offset 0..111 x alignment {1,8,16,32,64} x buffer size 0..13 x 6 patterns",
    "cpp subspan(bits)": "offset 0..63 x bits 0..63 x buffer size 0..12 x 4 patterns x {const_bitspan, bitspan}",
    "cpp subspan(bits_at,size_bits)": "offset 0..23 x bits_at 0..47 x size_bits 0..64 x buffer size 0..12",
    "cpp subspan_limited_to": "offset 0..63 x limit 0..14 bytes x buffer size 0..12 x 4 patterns x {const_bitspan, bitspan}",
    "cpp accessors": "offset 0..127 x extra bits 0..31 x buffer size 0..13 (size, offset*, at_offset, add/set_offset, align_offset_to<8..64>, aligned_ptr)",
    "cpp copyToClamp": "src size 0..13 x src offset 0..23 x dst offset 0..23 x length 0..80 (and the no-length form) x 4 patterns",
    "python": "Serializer: prefix 0..15 bits x 3 prefix contents x lengths {1..40,47,48,49,56,63,64} x 6-7 values, aligned and unaligned "
    "families, floats, bytes, bit arrays, standard arrays; Deserializer: sizes 0..9 x 4 contents (one fragmented) x offset 0..15; "
    "ZeroExtendingBuffer slices; all 65536 halves; doubles around every 16th binary16 value/midpoint",
    "random": "splitmix64(VERIF_SEED): buffer sizes up to 400 bytes, offsets up to size*8+80, lengths up to 3000 bits",
}


class _CountedSet(set):
    """ctx._nontrivial with an extra counter: the compiled harnesses visit every grid tuple exactly once, so their
    non-trivial counters ARE distinct counts; tens of millions of hashes are not shipped to Python."""

    extra = 0

    def __len__(self):
        return set.__len__(self) + self.extra


# ---------------------------------------------------------------------------------------------------------------------
class Lab:
    def __init__(self):
        self.dir = pathlib.Path(tempfile.mkdtemp(prefix="vf-c14-"))
        (self.dir / "ns").mkdir()
        self.gen: typing.Dict[tuple, pathlib.Path] = {}
        self.exe: typing.Dict[str, pathlib.Path] = {}

    def close(self):
        shutil.rmtree(self.dir, ignore_errors=True)

    def generate(self, lang: str, endian: str = "any", asserts: bool = False) -> pathlib.Path:
        key = (lang, endian, asserts)
        if key in self.gen:
            return self.gen[key]
        out = self.dir / f"gen_{lang}_{endian}_{int(asserts)}"
        argv = ["--generate-support", "only", "--target-language", lang, "--outdir", str(out)]
        if lang in ("c", "cpp"):
            argv += ["--target-endianness", endian]
            if asserts:
                argv += ["--enable-serialization-asserts"]
        if lang == "cpp":
            argv += ["--experimental-languages"]
        argv += [str(self.dir / "ns")]
        rc, so, se = tool.run_sub(argv)
        expect = {"c": "nunavut/support/serialization.h", "cpp": "nunavut/support/serialization.hpp", "py": "nunavut_support.py"}[lang]
        if rc != 0 or not (out / expect).exists():
            raise core.HarnessError(f"support generation failed ({' '.join(argv)}): rc={rc}\n{se[-1500:]}")
        self.gen[key] = out
        return out

    def build(self, label: str) -> pathlib.Path:
        if label in self.exe:
            return self.exe[label]
        b = BUILDS[label]
        gen = self.generate(b["lang"], b["endian"], b["asserts"])
        exe = self.dir / ("h_" + label)
        src = HARNESS / ("c14_c.c" if b["lang"] == "c" else "c14_cpp.cpp")
        cmd = list(b["cc"]) + (SAN_FLAGS if b["san"] else []) + ["-Wall", "-I", str(gen), "-I", str(HARNESS)]
        if b["asserts"]:
            cmd += ["-DC14_ASSERTS"]
        cmd += [str(src), "-o", str(exe)] + (["-lm"] if b["lang"] == "c" else [])
        p = subprocess.run(cmd, capture_output=True, text=True, timeout=900)
        if p.returncode != 0:
            errs = [l for l in p.stderr.splitlines() if "error" in l] or p.stderr.splitlines()
            # a support header that does not compile is C06's business; here it makes the check inconclusive
            raise core.HarnessError(f"harness build failed for {label}: {' '.join(cmd)}\n" + "\n".join(errs[:12]))
        self.exe[label] = exe
        return exe


def run_exe(exe: pathlib.Path, args: typing.List[str], timeout: int = 3000) -> typing.Tuple[int, str, str]:
    p = subprocess.run([str(exe)] + [str(a) for a in args], capture_output=True, text=True, env=dict(os.environ, **RUN_ENV), timeout=timeout)
    return p.returncode, p.stdout, p.stderr


def run_py(gen: pathlib.Path, args: typing.List[str], timeout: int = 3000) -> typing.Tuple[int, str, str]:
    env = dict(os.environ, PYTHONPATH=str(core.VERIF / ".deps"), PYTHONHASHSEED="0", PYTHONDONTWRITEBYTECODE="1")
    p = subprocess.run([tool.PY, str(HARNESS / "c14_py.py"), str(gen)] + [str(a) for a in args], capture_output=True, text=True, env=env, timeout=timeout)
    return p.returncode, p.stdout, p.stderr


def crash_summary(rc: int, stderr: str) -> typing.Optional[str]:
    """A short class of the crash if it is one that the property forbids (memory error, UB, assertion, signal)."""
    for line in stderr.splitlines():
        if "AddressSanitizer" in line and "ERROR" in line:
            words = line.split("AddressSanitizer:")[1].split()
            return "asan-" + (words[0] if words else "error")
        if "runtime error:" in line:
            return "ubsan-" + "-".join(line.split("runtime error:")[1].split()[:3])
        if "Assertion" in line and "failed" in line:
            return "assertion-failed"
    if rc < 0:
        return f"signal-{-rc}"
    return None


def parse_lines(label: str, stdout: str):
    """-> (counts {family: (cases, nontrivial)}, fails [(family, params, clause, detail)], totals, tolerated, excluded, selfcheck, done)"""
    counts, fails, totals, tol, excl, selfcheck = {}, [], {}, {}, {}, []
    done = False
    for line in stdout.splitlines():
        if line.startswith("COUNT "):
            _, fam, n, nt = line.split()
            c = counts.get(fam, (0, 0))
            counts[fam] = (c[0] + int(n), c[1] + int(nt))
        elif line.startswith("FAIL "):
            head, clause, detail = line[5:].split(" | ", 2)
            fam, _, rest = head.partition(" ")
            if label == "py":
                params = json.loads(rest)
            else:
                params = {}
                for tok in rest.split():
                    k, _, v = tok.partition("=")
                    params[k] = int(v, 0)
            fails.append((fam, params, clause.strip(), detail.strip()))
        elif line.startswith("FAILS "):
            _, fam, clause, n = line.split()
            totals[f"{fam}|{clause}"] = totals.get(f"{fam}|{clause}", 0) + int(n)
        elif line.startswith("TOL "):
            p = line.split()
            tol[p[1]] = tol.get(p[1], 0) + int(p[3])
        elif line.startswith("EXCL "):
            p = line.split()
            excl[p[1]] = excl.get(p[1], 0) + int(p[3])
        elif line.startswith("SELFCHECK-FAIL"):
            selfcheck.append(line)
        elif line.strip() == "DONE":
            done = True
    return counts, fails, totals, tol, excl, selfcheck, done


def fail_what(label: str, fam: str, params: dict, clause: str, detail: str) -> str:
    ps = json.dumps(params, sort_keys=True) if label == "py" else " ".join(f"{k}={v}" for k, v in params.items())
    return f"[{label}] {fam} {ps}: {clause}: {detail}"


# ---------------------------------------------------------------------------------------------------------------------
def plan_jobs(ctx: core.Ctx, families: typing.Dict[str, typing.List[str]]) -> typing.List[dict]:
    jobs: typing.List[dict] = []
    seed = ctx.seed
    for label, b in BUILDS.items():
        for fam in families[label]:
            # the sanitizer builds run the whole grid too (argument 4 = 1 would select the harness' thinned grid)
            jobs.append({"build": label, "family": fam, "args": ["grid", fam, seed, 0], "cost": FULL.get(fam, 1) * (4 if b["san"] else 1)})
        nrand = (480000 if b["san"] else 2400000) if ctx.quick else (4800000 if b["san"] else 24000000)
        jobs.append({"build": label, "family": "rand", "args": ["rand", seed, nrand], "cost": nrand * 4})
        # ordered float32 -> half sweeps
        if label in ("c-any", "cpp") and not ctx.quick:
            for j in range(16):
                jobs.append({"build": label, "family": "f16pack", "args": ["f16sweep", hex(j << 28), 1 << 28, 1, seed, 0], "cost": 1 << 30})
        else:
            total_log2 = 24 if label in ("c-any", "cpp") else (22 if not b["san"] else 20)
            stride = 1 << (32 - total_log2)
            for j in range(4):
                jobs.append(
                    {"build": label, "family": "f16pack", "args": ["f16sweep", hex(j << 30), 1 << (total_log2 - 2), stride, seed, 1 if label == "c-any" else 0],
                     "cost": 1 << (total_log2 + 1)}
                )  # fmt: skip
    for s in range(PY_SHARDS):
        jobs.append({"build": "py", "family": "grid", "args": ["grid", s, PY_SHARDS, seed], "cost": 1 << 26})
    jobs.sort(key=lambda j: -j["cost"])  # longest first
    return jobs


def run(ctx: core.Ctx):
    ctx.rule = (
        "case = one tuple (primitive family, offsets, length, buffer size(s), content pattern, value) executed against one build; "
        "non-trivial = an offset or the length is not a multiple of 8, or the accessed range crosses the buffer end / the call must "
        "report BUFFER_TOO_SMALL (float->half: the value is not representable in binary16; half codes: zero/subnormal/inf/NaN); "
        "distinct by construction: every grid tuple is visited exactly once per build and counted inside the harness "
        "(random extras and the +-8 ulp float->half neighbourhoods, which the ordered sweeps may revisit, are counted as evaluations only)"
    )
    ctx.assumptions = [
        "the reference is the bit-by-bit code in harness/c14_c.c / c14_py.py; IEEE 754 binary32/binary64 host, little-endian (asserted by the generated code itself)",
        "binary16 reference values come from ldexp() on the fields; cross-checked at run time against the compiler's _Float16 conversion (gcc) -- a disagreement is a harness error",
        "float->half: |x| >= 65520 (the first value whose nearest binary16 neighbour is infinity) must give infinity; 65504 < |x| < 65520 may give 65504 or infinity (faithful)",
        "nunavutGetBits / const_bitspan::getBits: the documented right-zero-padding of the OUTPUT up to the next byte is required, bytes after that must be intact",
        "setters called with a length > 64 (uint8_t argument): bound check on the length as passed, 64 bits written (documented saturation)",
        "signed getters with length 1 are skipped (documented: result unspecified)",
        "bitspan::setZeros / padAndMoveToAlignment have no documented contract: every addressed bit zero, earlier bits and all bytes after the last addressed byte intact; "
        "zeroing of later bits INSIDE the last addressed byte is tolerated (counted as tolerated-deviation)",
        "bitspan::subspan(bits_at, size_bits) has no documented contract: error exactly when the window does not fit, same bits addressed, never more than size_bits visible; "
        "up to 7 bits fewer when the window does not end on a byte boundary is tolerated (the generated code only passes byte multiples)",
        "const_bitspan::copyTo with a length beyond the source: the part inside the source must be copied, the rest of the destination window may stay or be zero",
        "copy with overlapping buffers is exercised only with byte-aligned offsets (the documentation declares overlap undefined only for unaligned offsets and names memmove())",
        "Python: a Serializer only appends to a zeroed buffer, so 'later bits' are required to be zero; NumPy 2.x is installed while the generated module documents numpy~=1.24: "
        "OverflowError from python-int/NumPy-scalar arithmetic is counted (numpy2-overflow-excluded) and not judged",
        "offsets close to SIZE_MAX (off+len wraps) are outside the explored domain",
    ]
    ctx.exhaustive = True
    ctx.extra["exhaustive_bounds"] = BOUNDS
    bigset = _CountedSet(ctx._nontrivial)  # pylint: disable=protected-access
    ctx._nontrivial = bigset  # pylint: disable=protected-access
    ru0 = resource.getrusage(resource.RUSAGE_CHILDREN)
    lab = Lab()
    try:
        workers = max(4, min(16, os.cpu_count() or 4))
        with concurrent.futures.ThreadPoolExecutor(max_workers=workers) as ex:
            # 1. generate (each distinct option set once), 2. build, 3. run
            list(ex.map(lambda k: lab.generate(*k), sorted({(b["lang"], b["endian"], b["asserts"]) for b in BUILDS.values()} | {("py", "any", False)})))
            list(ex.map(lab.build, list(BUILDS)))
            families = {}
            for label in BUILDS:
                rc, so, se = run_exe(lab.exe[label], ["list"])
                if rc != 0:
                    raise core.HarnessError(f"{label}: harness does not start: rc={rc} {se[-500:]}")
                families[label] = so.split()
            # the ASan builds must really see a read of a poisoned guard byte
            for label, b in BUILDS.items():
                rc, so, se = run_exe(lab.exe[label], ["asan-selftest"])
                detected = "NOT-DETECTED" not in so and crash_summary(rc, se) is not None
                if detected != b["san"]:
                    raise core.HarnessError(f"{label}: guard poisoning self-test: detected={detected}, expected {b['san']}")
            ctx.extra["asan_guard_selftest"] = "over-read of a poisoned guard byte is reported by both sanitizer builds"
            jobs = plan_jobs(ctx, families)

            def execute(job):
                if job["build"] == "py":
                    return job, run_py(lab.gen[("py", "any", False)], job["args"])
                return job, run_exe(lab.exe[job["build"]], job["args"])

            results = list(ex.map(execute, jobs))
    finally:
        lab.close()
    ru1 = resource.getrusage(resource.RUSAGE_CHILDREN)

    per_build: typing.Dict[str, typing.Dict[str, typing.List[int]]] = {}
    totals_all: typing.Dict[str, int] = {}
    tol_all: typing.Dict[str, int] = {}
    excl_all: typing.Dict[str, int] = {}
    for job, (rc, so, se) in results:
        label = job["build"]
        sig_t = "py" if label == "py" else BUILDS[label]["sig"]
        counts, fails, totals, tol, excl, selfcheck, done = parse_lines(label, so)
        if selfcheck:
            raise core.HarnessError(f"{label} {job['args']}: {selfcheck[0]}")
        for fam, (n, nt) in counts.items():
            is_rand = fam.startswith("rand.")
            name = f"{label}.{fam}" if label != "py" else f"py.{fam}"
            ctx.bulk(n, (), {name: n})
            # distinct non-trivial: grid tuples and ordered-sweep values are visited once each; the +-8 ulp neighbourhoods of
            # the f16pack grid can coincide with sweep values and the random extras can repeat: evaluations only
            if not is_rand and not (fam == "f16pack" and job["args"][0] == "grid"):
                bigset.extra += nt
            pb = per_build.setdefault(label, {}).setdefault(fam, [0, 0])
            pb[0] += n
            pb[1] += nt
        for fam, params, clause, detail in fails:
            case = {"build": label, "family": fam, "params": params}
            ctx.fail(f"{sig_t}|{fam}|{clause}", fail_what(label, fam, params, clause, detail), case)
        for k, v in totals.items():
            totals_all[f"{label}|{k}"] = totals_all.get(f"{label}|{k}", 0) + v
        for k, v in tol.items():
            tol_all[f"{label}.{k}"] = tol_all.get(f"{label}.{k}", 0) + v
        for k, v in excl.items():
            excl_all[f"py.{k}"] = excl_all.get(f"py.{k}", 0) + v
            ctx.event("py.numpy2-overflow-excluded", v)
        if rc != 0 or not done:
            kind = crash_summary(rc, se)
            if kind is None:
                raise core.HarnessError(f"{label} {job['args']}: harness died rc={rc} without a recognisable crash report: {se[-800:]}")
            lines = [l.strip() for l in se.splitlines() if "ERROR" in l or "runtime error" in l or "Assertion" in l or "SUMMARY" in l]
            ctx.fail(
                f"{sig_t}|{job['family']}|crash-{kind}",
                f"[{label}] harness {' '.join(str(a) for a in job['args'])} crashed inside the support code: " + " | ".join(lines[:3])[:600],
                {"build": label, "family": job["family"], "args": [str(a) for a in job["args"]]},
            )
    ctx.extra["per_build_family"] = {b: {f: {"cases": v[0], "nontrivial": v[1]} for f, v in sorted(fs.items())} for b, fs in sorted(per_build.items())}
    ctx.extra["failure_totals"] = totals_all
    ctx.extra["tolerated_deviations_observed"] = tol_all
    ctx.extra["excluded_numpy2_overflow"] = excl_all
    ctx.extra["cpu_s_children"] = round((ru1.ru_utime + ru1.ru_stime) - (ru0.ru_utime + ru0.ru_stime), 1)
    ctx.extra["builds"] = {k: " ".join(v["cc"] + (SAN_FLAGS if v["san"] else [])) + f" endianness={v['endian']} asserts={v['asserts']}" for k, v in BUILDS.items()}
    ctx.samples.extend(
        [
            {"build": "c-any", "family": "copyBits", "so": 3, "do": 21, "len": 37, "size": 8, "pat": 3, "dpat": 4},
            {"build": "c-little", "family": "setIxx", "do": 13, "len": 23, "size": 4, "val": "0xffffffffffc00000", "pat": 2, "expect": "BUFFER_TOO_SMALL (32 < 36)"},
            {"build": "c-any", "family": "getI32", "so": 29, "len": 17, "size": 5, "pat": 1, "expect": "bits 40..45 read as zero, sign bit from past the end = 0"},
            {"build": "cpp", "family": "setZeros", "do": 3, "len": 16, "size": 4, "pat": 1, "expect": "bits 3..18 zero, bits 0..2 and byte 3 intact"},
            {"build": "cpp", "family": "subspan_limited_to", "so": 11, "len": 2, "size": 6, "n": 0},
            {"build": "c-any", "family": "f16pack", "val": "0x477fefff", "expect": "65519.996 -> 0x7bff or 0x7c00"},
            {"build": "py", "family": "ser.unaligned_signed", "o": 5, "pp": 2, "len": 11, "v": -1024},
            {"build": "py", "family": "des.unaligned_unsigned", "o": 13, "size": 2, "pat": 3, "len": 9, "expect": "bits 16..21 zero-extended"},
        ]
    )
    # generator completeness: every family of every build ran its whole grid
    for label, b in BUILDS.items():
        for fam, n in FULL.items():
            if fam in CPP_ONLY and b["lang"] != "cpp":
                continue
            ctx.require(f"{label}.{fam}", n)
        ctx.require(f"{label}.rand.copyBits", 1000)
    for label in ("c-any", "cpp"):
        ctx.require(f"{label}.f16pack", FULL["f16pack"] + ((1 << 24) if ctx.quick else (1 << 32)))
    for k, v in PY_MIN.items():
        ctx.require(k, v)


# ---------------------------------------------------------------------------------------------------------------------
def replay(ctx: core.Ctx, case):
    label = case["build"]
    lab = Lab()
    try:
        if label == "py":
            gen = lab.generate("py")
            if "params" in case:
                rc, so, se = run_py(gen, ["single", json.dumps(case["params"])])
            else:
                rc, so, se = run_py(gen, case["args"])
        else:
            exe = lab.build(label)
            if "params" in case:
                p = dict(case["params"])
                seed = p.pop("seed", ctx.seed)
                rc, so, se = run_exe(exe, ["single", case["family"], seed] + [f"{k}={v}" for k, v in p.items()])
            else:
                rc, so, se = run_exe(exe, case["args"])
    finally:
        lab.close()
    sig_t = "py" if label == "py" else BUILDS[label]["sig"]
    counts, fails, totals, tol, excl, selfcheck, done = parse_lines(label, so)
    if selfcheck:
        raise core.HarnessError(selfcheck[0])
    out = [(f"{sig_t}|{fam}|{clause}", fail_what(label, fam, params, clause, detail)) for fam, params, clause, detail in fails]
    if rc != 0 or not done:
        kind = crash_summary(rc, se)
        if kind is None:
            raise core.HarnessError(f"harness died rc={rc}: {se[-800:]}")
        out.append((f"{sig_t}|{case['family']}|crash-{kind}", se[-600:]))
    # one entry per signature
    seen, uniq = set(), []
    for s, w in out:
        if s not in seen:
            seen.add(s)
            uniq.append((s, w))
    return uniq
