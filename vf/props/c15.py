"""
C15 -- line post-processing is chunking-independent and changes only what it documents.

Domain : text x chunking (cut points, empty chunks, cuts inside CRLF) x processor list.
Oracle : reference = split the COMPLETE text at \r\n|\n, apply fresh processor instances line by line, concatenate.
         + direct contract clauses (identity without processors; Trim == rstrip per line, terminator kept;
           Limit(N): no more than N consecutive empty lines, non-empty lines untouched).
Targets: CodeGenerator._generate_with_line_buffer, SupportGenerator._copy_header_using_line_pps, and the whole
         DSDLCodeGenerator.generate_all pipeline with a user template whose rendered chunks are known.
"""
from __future__ import annotations

import io
import os
import itertools
import pathlib
import re
import shutil
import tempfile
import typing

from hypothesis import strategies as st

from .. import core

_NL = re.compile(r"\r\n|\n")

ALPHABET = "ab \t\r\n\x0cé ❤"


def split_lines(text: str) -> typing.List[typing.Tuple[str, str]]:
    out = []
    pos = 0
    for m in _NL.finditer(text):
        out.append((text[pos : m.start()], m.group(0)))
        pos = m.end()
    if pos < len(text):
        out.append((text[pos:], ""))
    return out


def make_pps(spec):
    from nunavut._postprocessors import LimitEmptyLines, TrimTrailingWhitespace

    pps = []
    for p in spec:
        if p[0] == "trim":
            pps.append(TrimTrailingWhitespace())
        else:
            pps.append(LimitEmptyLines(p[1]))
    return pps


def reference(text: str, spec) -> str:
    """Independent of nunavut's processors: the documented behaviour re-implemented."""
    state = [0] * len(spec)
    out = []
    for line, nl in split_lines(text):
        elided = False
        for i, p in enumerate(spec):
            if p[0] == "trim":
                line = line.rstrip()
            else:
                if line == "":
                    state[i] += 1
                else:
                    state[i] = 0
                if state[i] > p[1]:
                    line, nl = "", ""
        out.append(line + nl)
    return "".join(out)


def chunks_of(text: str, cuts: typing.List[int]) -> typing.List[str]:
    cs = sorted(min(c, len(text)) for c in cuts)
    parts = []
    prev = 0
    for c in cs:
        parts.append(text[prev:c])
        prev = c
    parts.append(text[prev:])
    return parts


def impl_line_buffer(chunks: typing.List[str], spec) -> str:
    from nunavut.jinja import CodeGenerator

    out = io.StringIO()
    CodeGenerator._generate_with_line_buffer(out, iter(chunks), make_pps(spec))
    return out.getvalue()


def clauses(text: str, spec, got: str) -> typing.List[typing.Tuple[str, str]]:
    """Direct contract clauses of the statement, evaluated on the implementation's output."""
    res = []
    kinds = [p[0] for p in spec]
    if not spec and got != text:
        res.append(("clause|no-processor-identity", f"no processors: output {got!r} != input {text!r}"))
    if kinds == ["trim"]:
        exp = "".join(l.rstrip() + nl for l, nl in split_lines(text))
        if got != exp:
            res.append(("clause|trim", f"trim-only: got {got!r}, each line rstripped with terminator is {exp!r}"))
    if kinds and kinds[-1] == "limit":
        n = spec[-1][1]
        run = 0
        for l, nl in split_lines(got):
            run = run + 1 if l == "" else 0
            if run > n:
                res.append(("clause|limit-max", f"more than {n} consecutive empty lines in {got!r} (input {text!r})"))
                break
    if kinds == ["limit"]:
        a = [l for l, _ in split_lines(text) if l != ""]
        b = [l for l, _ in split_lines(got) if l != ""]
        if a != b:
            res.append(("clause|limit-nonempty", f"limit-only: non-empty lines changed {a!r} -> {b!r}"))
    return res


def classify_mismatch(text: str, cuts, spec, got: str, exp: str) -> str:
    whole = impl_line_buffer([text], spec)
    if whole != exp:
        return "linebuf|whole-text-differs-from-linewise-reference"
    # whole text agrees, this chunking does not: is it the CR|LF cut?
    safe = [c for c in cuts if not (0 < c < len(text) and text[c - 1] == "\r" and text[c] == "\n")]
    if impl_line_buffer(chunks_of(text, safe), spec) == exp:
        return "linebuf|cut-between-CR-and-LF"
    return "linebuf|chunking-dependence-other"


def check_linebuf(ctx: core.Ctx, case) -> typing.List[typing.Tuple[str, str]]:
    text, cuts, spec = case["text"], case["cuts"], case["pps"]
    chunks = chunks_of(text, cuts)
    assert "".join(chunks) == text
    exp = reference(text, spec)
    got = impl_line_buffer(chunks, spec)
    res = []
    inner_cut = any(
        0 < c < len(text) and text[c - 1] != "\n" for c in cuts
    )  # a cut that is inside a line or inside a terminator
    ctx.case(
        ("lb", text, sorted(cuts), spec),
        nontrivial=len(chunks) >= 2 and inner_cut and len(spec) >= 1,
        sample={"target": "line_buffer", "chunks": chunks, "pps": spec},
        classes=[
            "lb.cut_in_crlf" if any(0 < c < len(text) and text[c - 1] == "\r" and text[c] == "\n" for c in cuts) else "lb.no_crlf_cut",
            "lb.pps=" + "+".join(p[0] for p in spec) if spec else "lb.pps=none",
            "lb.final_nl" if text.endswith("\n") else "lb.no_final_nl",
            "lb.empty_chunk" if any(c == "" for c in chunks) else "lb.no_empty_chunk",
        ],
    )
    if got != exp:
        sig = classify_mismatch(text, cuts, spec, got, exp)
        res.append((sig, f"chunks={chunks!r} pps={spec!r}: wrote {got!r}, line-wise reference {exp!r}"))
    # the direct clauses of the statement are implied by equality with the reference *if the reference satisfies them*:
    # that is asserted here on every case (a failure is a harness error, never a violation)
    bad = clauses(text, spec, exp)
    if bad:
        raise core.HarnessError(f"reference violates a contract clause: {bad}")
    return res


def impl_copy(text: str, spec, tmp: pathlib.Path) -> str:
    from nunavut.jinja import SupportGenerator

    src = tmp / "res.h"
    dst = tmp / "out.h"
    with open(src, "w", encoding="utf-8", newline="") as f:
        f.write(text)
    SupportGenerator._copy_header_using_line_pps(None, src, dst, make_pps(spec))
    with open(dst, "r", encoding="utf-8", newline="") as f:
        return f.read()


def check_copy(ctx: core.Ctx, case, tmp: pathlib.Path):
    text, spec = case["text"], case["pps"]
    exp = reference(text, spec)
    bad = clauses(text, spec, exp)
    if bad:
        raise core.HarnessError(f"reference violates a contract clause: {bad}")
    got = impl_copy(text, spec, tmp)
    ctx.case(
        ("cp", text, spec),
        nontrivial=len(spec) >= 1 and ("\r\n" in text or not text.endswith("\n")),
        sample={"target": "copy_header", "text": text, "pps": spec},
        classes=["cp.final_nl" if text.endswith("\n") else "cp.no_final_nl", "cp.crlf" if "\r\n" in text else "cp.lf_only"],
    )
    res = []
    if got != exp:
        if text and not text.endswith("\n") and got != exp and impl_copy(text + "\n", spec, tmp) == reference(text + "\n", spec):
            sig = "copy|unterminated-final-line"
        elif "\r\n" in text and impl_copy(text.replace("\r", ""), spec, tmp) == reference(text.replace("\r", ""), spec):
            sig = "copy|CRLF-terminator-not-kept"
        else:
            sig = "copy|other"
        res.append((sig, f"resource={text!r} pps={spec!r}: copied {got!r}, line-wise reference {exp!r}"))
    return res


# ---------------------------------------------------------------------------------------------------------------------
# end to end: a user template whose chunk sequence is known, through DSDLCodeGenerator.generate_all
# ---------------------------------------------------------------------------------------------------------------------
class E2E:
    def __init__(self):
        self.tmp = pathlib.Path(tempfile.mkdtemp(prefix="vf-c15-"))
        (self.tmp / "ns").mkdir()
        (self.tmp / "ns" / "A.1.0.dsdl").write_text("uint8 a\n@sealed\n")
        (self.tmp / "tpl").mkdir()
        (self.tmp / "tpl" / "Any.j2").write_text("{% for p in parts %}{{ p }}{% endfor %}")
        self.gens = {}

    def gen(self, spec):
        import nunavut
        import nunavut.jinja
        from nunavut.lang import LanguageContextBuilder

        key = repr(spec)
        if key not in self.gens:
            parts: typing.List[str] = []
            lctx = LanguageContextBuilder().set_target_language("c").set_target_language_extension(".txt").create()
            import pydsdl

            types = pydsdl.read_namespace(str(self.tmp / "ns"), [])
            ns = nunavut.build_namespace_tree(types, str(self.tmp / "ns"), str(self.tmp / "out"), lctx)
            g = nunavut.jinja.DSDLCodeGenerator(
                ns,
                templates_dir=self.tmp / "tpl",
                additional_globals={"parts": parts},
                post_processors=make_pps(spec) if spec else None,
            )
            self.gens[key] = (g, parts)
        return self.gens[key]

    def run(self, chunks, spec) -> str:
        g, parts = self.gen(spec)
        parts[:] = chunks
        # fresh processor state per run: the processors live in the generator; recreate stateful ones
        if g._post_processors is not None:
            g._post_processors[:] = make_pps(spec)
        out = list(g.generate_all())
        assert len(out) == 1
        with open(out[0], "r", encoding="utf-8", newline="") as f:
            return f.read()

    def close(self):
        shutil.rmtree(self.tmp, ignore_errors=True)


def check_e2e(ctx: core.Ctx, case, e2e: E2E):
    text, cuts, spec = case["text"], case["cuts"], case["pps"]
    chunks = chunks_of(text, cuts)
    exp = reference(text, spec)
    got = e2e.run(chunks, spec)
    ctx.case(
        ("e2e", text, sorted(cuts), spec),
        nontrivial=len(chunks) >= 2 and len(spec) >= 1,
        sample={"target": "generate_all+user-template", "chunks": chunks, "pps": spec},
        classes=["e2e"],
    )
    res = []
    if got != exp:
        sig = classify_mismatch(text, cuts, spec, impl_line_buffer(chunks, spec) if spec else got, exp).replace("linebuf|", "e2e|")
        res.append((sig, f"user template rendering chunks {chunks!r} with pps={spec!r}: file {got!r}, reference {exp!r}"))
    return res


# ---------------------------------------------------------------------------------------------------------------------
pp_strategy = st.lists(
    st.one_of(st.just(["trim"]), st.tuples(st.just("limit"), st.integers(0, 3)).map(list)), min_size=0, max_size=3
)


@st.composite
def text_strategy(draw):
    # lines built by construction so that terminators, whitespace tails and empty lines are frequent
    n = draw(st.integers(0, 6))
    out = []
    for i in range(n):
        body = draw(st.text(alphabet="ab \t\r\x0cé ❤", max_size=5))
        if draw(st.integers(0, 3)) == 0:
            body = ""
        nl = draw(st.sampled_from(["\n", "\r\n", "\n", "\r\n", ""])) if i == n - 1 else draw(st.sampled_from(["\n", "\r\n"]))
        out.append(body + nl)
    return "".join(out)


@st.composite
def copy_case_strategy(draw):
    # resource files: LF / CRLF terminated lines, optional missing final terminator, no lone CR (outside the stated
    # domain: the implementation reads resources with universal newlines); the copy path is only used with >= 1 processor
    n = draw(st.integers(0, 6))
    out = []
    for i in range(n):
        body = draw(st.text(alphabet="ab \t\x0cé ❤", max_size=5))
        if draw(st.integers(0, 3)) == 0:
            body = ""
        nl = draw(st.sampled_from(["\n", "\r\n", ""])) if i == n - 1 else draw(st.sampled_from(["\n", "\r\n"]))
        if nl == "" and body == "":
            nl = "\n"
        out.append(body + nl)
    return {"text": "".join(out), "cuts": [], "pps": draw(pp_strategy.filter(lambda p: len(p) > 0)), "target": "copy"}


@st.composite
def case_strategy(draw, with_cuts=True):
    text = draw(st.one_of(text_strategy(), st.text(alphabet=ALPHABET, max_size=24)))
    cuts = []
    if with_cuts:
        k = draw(st.integers(0, 5))
        cuts = [draw(st.integers(0, max(len(text), 0))) for _ in range(k)]
        # bias: cut exactly between CR and LF
        crlf = [m.start() + 1 for m in re.finditer("\r\n", text)]
        if crlf and draw(st.booleans()):
            cuts.append(draw(st.sampled_from(crlf)))
    return {"text": text, "cuts": cuts, "pps": draw(pp_strategy)}


def run(ctx: core.Ctx):
    ctx.rule = (
        "case = (text over {a,b,space,tab,CR,LF,FF,e-acute,NBSP,heart}, cut points incl. duplicates (=empty chunks) and "
        "cuts between CR and LF, processor list of Trim/LimitEmptyLines(0..3)); non-trivial = >=2 chunks with a cut "
        "inside a line or terminator and >=1 processor (line buffer / end-to-end), or >=1 processor and CRLF or an "
        "unterminated final line (resource copy); distinct by hash of the whole case"
    )
    ctx.assumptions = [
        "reference splits the complete text at \\r\\n|\\n and applies the documented processor behaviour re-implemented in the check",
        "a lone CR not followed by LF is line content (same regex as the implementation documents)",
    ]
    n = 6000 if ctx.quick else 200000
    core.explore(ctx, case_strategy(), lambda c: check_linebuf(ctx, c), n)

    tmp = pathlib.Path(tempfile.mkdtemp(prefix="vf-c15cp-"))
    try:
        core.explore(ctx, copy_case_strategy(), lambda c: check_copy(ctx, c, tmp), 1500 if ctx.quick else 30000, seed_offset=1)
    finally:
        shutil.rmtree(tmp, ignore_errors=True)

    e2e = E2E()
    try:
        core.explore(ctx, case_strategy(), lambda c: check_e2e(ctx, c, e2e), 400 if ctx.quick else 8000, seed_offset=2)
    finally:
        e2e.close()

    # small exhaustive sub-domain: all texts of length <= L over {a, space, CR, LF}, all single cuts, 5 processor lists
    L = 4 if ctx.quick else 6
    specs = [[["trim"]], [["limit", 0]], [["limit", 1]], [["trim"], ["limit", 1]], [["limit", 1], ["trim"]]]
    for l in range(1, L + 1):
        for tup in itertools.product("a \r\n", repeat=l):
            text = "".join(tup)
            for spec in specs:
                for c in range(0, l + 1):
                    for sig, what in check_linebuf(ctx, {"text": text, "cuts": [c], "pps": spec}):
                        ctx.fail(sig, what, {"text": text, "cuts": [c], "pps": spec, "target": "linebuf"})
    ctx.extra["exhaustive_subdomain"] = f"all texts len<= {L} over {{a,space,CR,LF}} x every single cut x 5 processor lists"
    if not ctx.quick or os.environ.get("VF_C15_FUZZ"):
        fuzz_campaign(ctx, int(os.environ.get("VF_C15_FUZZ_RUNS", "2000000")))
    ctx.require("lb.cut_in_crlf", 50)
    ctx.require("e2e", 100)
    # tag replays with their target
    for sig, ent in ctx.failures.items():
        if isinstance(ent["replay"], dict) and "target" not in ent["replay"]:
            ent["replay"]["target"] = sig.split("|")[0]


def fuzz_campaign(ctx: core.Ctx, runs: int):
    """Coverage-guided extra campaign (atheris/libFuzzer, vf/fuzz_c15.py): bounded by -runs; findings are re-run through the
    plain replay path before they are reported; an unavailable fuzzer is recorded, not an error."""
    import json
    import subprocess
    import sys

    out = pathlib.Path(tempfile.mkdtemp(prefix="vf-c15fz-"))
    try:
        env = dict(os.environ, PYTHONPATH=f"{core.REPO}/src:{core.VERIF}:{core.VERIF}/.deps", PYTHONHASHSEED="0")
        p = subprocess.run([sys.executable, "-m", "vf.fuzz_c15", str(out), str(runs), str(ctx.seed)], cwd=str(core.VERIF), env=env, capture_output=True, text=True)
        stats_file = out / "stats.json"
        if not stats_file.exists():
            ctx.extra["atheris"] = "not run: " + (p.stderr[-300:] or "no output")
            return
        stats = json.loads(stats_file.read_text())
        ctx.bulk(stats["executions"], [], {"fuzz.atheris.executions": stats["executions"], "fuzz.atheris.multi_chunk": stats["nontrivial"]})
        ctx.extra["atheris"] = {"runs_requested": runs, "executions_with_processors": stats["executions"], "multi_chunk": stats["nontrivial"], "corpus_files": len(list((out / "corpus").glob("*")))}
        for f in sorted(out.glob("failure-*.json")):
            doc = json.loads(f.read_text())
            for sig, what in check_linebuf(ctx, doc["case"]):  # confirm outside of the fuzzer
                ctx.fail(sig, "[found by atheris] " + what, doc["case"])
    finally:
        shutil.rmtree(out, ignore_errors=True)


def replay(ctx: core.Ctx, case):
    target = case.get("target", "linebuf")
    if target == "copy":
        tmp = pathlib.Path(tempfile.mkdtemp(prefix="vf-c15cp-"))
        try:
            return check_copy(ctx, case, tmp)
        finally:
            shutil.rmtree(tmp, ignore_errors=True)
    if target == "e2e":
        e2e = E2E()
        try:
            return check_e2e(ctx, case, e2e)
        finally:
            e2e.close()
    return check_linebuf(ctx, case)
