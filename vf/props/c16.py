"""
C16 -- template resolution and environment contract.

Part A  resolution.  Domain: every class of the PyDSDL SerializableType / Attribute hierarchies + nunavut.Namespace + Any
        x subsets of ancestor-named templates in a user directory and in a synthetic built-in package (a temporary importable
        package, one sub-folder per case) x configuration {FIND_ALL with both sets, FIND_FIRST with a user directory,
        no user directory (built-in only), FIND_ALL over the real language package} x lookup histories (cold / warm cache,
        interleaved classes, fresh generator) x enumeration order (files created in permuted order + the order in which
        os.walk hands names to the Jinja loaders is permuted from the harness side).
        Oracle: reference resolver = classes at the smallest BFS distance over __bases__ (ending at Any) for which a template
        exists; a name present in both sets must render the USER's file (every template file contains its own identity);
        the result of a lookup is a function of (class, template sets, configuration) only.
        FIND_ALL, user set has only a farther ancestor, built-in a nearer one: either documented reading is accepted
        ("file-system first, package as fallback" / nearest over the union) -- the only two-valued clause.
Part B  instance tests on real instances parsed from a covering DSDL universe.
Part C  additional filters / tests / globals through the public constructors.
"""
from __future__ import annotations

import collections
import functools
import importlib
import inspect
import itertools
import multiprocessing
import os
import pathlib
import shutil
import sys
import tempfile
import typing

from hypothesis import strategies as st

from .. import core

Fail = typing.Tuple[str, str]

# ---------------------------------------------------------------------------------------------------------------------
# domain: classes
# ---------------------------------------------------------------------------------------------------------------------
_DOMAIN: typing.Dict[str, typing.Any] = {}


def domain() -> typing.Dict[str, typing.Any]:
    """name -> class for the stated domain (+ a synthetic multiple-inheritance family)."""
    if _DOMAIN:
        return _DOMAIN
    import nunavut
    import pydsdl

    def sub(c):
        out = [c]
        for s in sorted(c.__subclasses__(), key=lambda k: k.__name__):
            out += sub(s)
        return out

    ser = sub(pydsdl.SerializableType)
    att = sub(pydsdl.Attribute)

    # synthetic family: only below pydsdl.Any (never below SerializableType/Attribute, so that the code under test does
    # not see them through __subclasses__()).  Two mirrored diamonds so that a depth-first walk in either base order
    # reaches a farther class before a nearer one.
    class SynBase(pydsdl.Any):  # pylint: disable=abstract-method
        pass

    class SynL0(SynBase):  # pylint: disable=abstract-method
        pass

    class SynL(SynL0):  # pylint: disable=abstract-method
        pass

    class SynR(SynBase):  # pylint: disable=abstract-method
        pass

    class SynDiamond(SynL, SynR):  # pylint: disable=abstract-method
        pass

    class SynDiamondRev(SynR, SynL):  # pylint: disable=abstract-method
        pass

    class SynLeaf(SynDiamond):  # pylint: disable=abstract-method
        pass

    syn = [SynBase, SynL0, SynL, SynR, SynDiamond, SynDiamondRev, SynLeaf]
    classes = {c.__name__: c for c in ser + att + [nunavut.Namespace, pydsdl.Any] + syn}
    if len(classes) != len(ser) + len(att) + 2 + len(syn):
        raise core.HarnessError("class names in the domain are not unique")
    _DOMAIN.update(
        classes=classes,
        ser=[c.__name__ for c in ser],
        att=[c.__name__ for c in att],
        syn=[c.__name__ for c in syn],
        stated=[c.__name__ for c in ser + att] + ["Namespace", "Any"],
    )
    return _DOMAIN


def family(name: str) -> str:
    d = domain()
    if name in d["ser"]:
        return "SerializableType"
    if name in d["att"]:
        return "Attribute"
    if name in d["syn"]:
        return "synthetic-multiple-inheritance"
    return name  # Namespace / Any


@functools.lru_cache(maxsize=None)
def bfs_levels(name: str) -> typing.Tuple[typing.Tuple[str, ...], ...]:
    """Classes by distance from `name` over __bases__, ending at Any (ABC / object are not DSDL classes)."""
    import pydsdl

    cls = domain()["classes"][name]
    levels = []
    seen = {cls}
    cur = [cls]
    while cur:
        levels.append(tuple(c.__name__ for c in cur))
        nxt = []
        for c in cur:
            for b in c.__bases__:
                if b not in seen and issubclass(b, pydsdl.Any):
                    seen.add(b)
                    nxt.append(b)
        cur = nxt
    return tuple(levels)


def ancestors(name: str) -> typing.List[str]:
    return [n for lvl in bfs_levels(name) for n in lvl]


def nearest(name: str, names: typing.AbstractSet[str]) -> typing.Set[str]:
    for lvl in bfs_levels(name):
        hits = {n for n in lvl if n in names}
        if hits:
            return hits
    return set()


def acceptable(name: str, cfg: str, utop: typing.Set[str], unested: typing.Set[str], b: typing.Set[str]):
    """-> (acceptable template stems, None acceptable?, ambiguous FIND_ALL case?)"""
    acc: typing.Set[str] = set()
    none_ok = False
    for u in [utop] if not unested else [utop, utop | unested]:  # a template in a sub-folder: both readings accepted
        if cfg == "first-user":
            got = nearest(name, u)
        elif cfg == "first-builtin":
            got = nearest(name, b)
        else:
            a = nearest(name, u)
            got = (a if a else nearest(name, b)) | nearest(name, u | b)  # fs-first reading | union-nearest reading
        acc |= got
        none_ok = none_ok or not got
    a = nearest(name, utop)
    ambiguous = cfg.startswith("all") and bool(a) and a != nearest(name, utop | b)
    return acc, none_ok, ambiguous


# ---------------------------------------------------------------------------------------------------------------------
# recorder usable in worker processes (same surface as the part of Ctx the evaluators need)
# ---------------------------------------------------------------------------------------------------------------------
class Rec:
    def __init__(self):
        self.evaluations = 0
        self.keys: typing.Set[str] = set()
        self.hist: typing.Counter[str] = collections.Counter()
        self.samples: typing.List[typing.Any] = []
        self.failures: typing.List[typing.Tuple[str, str, typing.Any]] = []

    def case(self, key, nontrivial, sample=None, classes=()):
        self.evaluations += 1
        for c in classes:
            self.hist[c] += 1
        if nontrivial:
            h = core.jhash(key)
            if h not in self.keys:
                self.keys.add(h)
                if sample is not None and len(self.samples) < 2:
                    self.samples.append(sample)

    def event(self, name, n=1):
        self.hist[name] += n

    def fail(self, sig, what, replay):
        if len([1 for s, _, _ in self.failures if s == sig]) < 3:
            self.failures.append((sig, what, replay))
        self.hist["failures." + sig] += 1

    def dump(self):
        return (self.evaluations, sorted(self.keys), dict(self.hist), self.samples, self.failures)


def merge(ctx: core.Ctx, dumped) -> None:
    ev, keys, hist, samples, failures = dumped
    nfail = {k[len("failures.") :]: v for k, v in hist.items() if k.startswith("failures.")}
    ctx.bulk(ev, keys, {k: v for k, v in hist.items() if not k.startswith("failures.")})
    for s in samples:
        if len(ctx.samples) < 3:
            ctx.samples.append(s)
    seen: typing.Counter[str] = collections.Counter()
    for sig, what, rep in failures:
        ctx.fail(sig, what, rep)
        seen[sig] += 1
    for sig, n in nfail.items():
        if sig in ctx.failures and n > seen[sig]:
            ctx.failures[sig]["count"] += n - seen[sig]


# ---------------------------------------------------------------------------------------------------------------------
# enumeration-order perturbation: the Jinja loaders obtain directory listings through os.walk
# ---------------------------------------------------------------------------------------------------------------------
_WALK_MODE = [0]


def _perm_names(names: typing.List[str]) -> typing.List[str]:
    m = _WALK_MODE[0]
    if m == 0:
        return names
    s = sorted(names)
    if m == 2:
        s.reverse()
    elif m == 3 and len(s) > 1:
        s = s[1:] + s[:1]
    return s


class _OsProxy:
    def __init__(self, real):
        self._real = real

    def __getattr__(self, item):
        return getattr(self._real, item)

    def walk(self, top, *a, **kw):
        for dirpath, dirnames, filenames in self._real.walk(top, *a, **kw):
            dirnames[:] = _perm_names(dirnames)
            yield dirpath, dirnames, _perm_names(list(filenames))


def install_walk_proxy() -> None:
    import nunavut.jinja.jinja2.loaders as jl

    if not isinstance(jl.os, _OsProxy):
        if not hasattr(jl.os, "walk"):
            raise core.HarnessError("bundled jinja loaders no longer use os.walk: enumeration-order perturbation is void")
        jl.os = _OsProxy(jl.os)


def permute(items: typing.Iterable[str], order: int) -> typing.List[str]:
    out = sorted(items)
    n = len(out)
    if n < 2:
        return out
    r = order % n
    out = out[r:] + out[:r]
    if (order // n) % 2:
        out.reverse()
    return out


# ---------------------------------------------------------------------------------------------------------------------
# laboratory: DSDL universe, namespaces, scratch template sets
# ---------------------------------------------------------------------------------------------------------------------
UNIVERSE = {
    "Inner.1.0.dsdl": "uint8 x\n@sealed\n",
    "Del.1.0.dsdl": "uint8 a\n@extent 64\n",
    "U.1.0.dsdl": "@union\nuint8 a\nInner.1.0 b\nfloat32[<=2] c\n@sealed\n",
    "Svc.1.0.dsdl": "uint8 q\n@sealed\n---\nuint8 r\n@extent 32\n",
    "S.1.0.dsdl": (
        "bool flag\nuint8 CONST_U = 7\nfloat32 CONST_F = 1.5\nbool CONST_B = true\nint16 si\nuint13 ui\nfloat16 f16\n"
        "float32 f32\nfloat64 f64\nvoid3\nbyte[4] bytes_fixed\nutf8[<=16] text\nuint8[3] fixed\nint32[<=5] var\n"
        "Inner.1.0 inner\nInner.1.0[2] inner_fixed\nInner.1.0[<=2] inner_var\nDel.1.0 del\nU.1.0 un\n"
        "truncated uint8 tr\n@sealed\n"
    ),
}

DECOY_KINDS = ["txt", "bak", "lower", "tmpl", "prefix", "dirnamed"]
_LABSEQ = itertools.count()


class Mat:
    def __init__(self, udirs, bname, bdir):
        self.udirs: typing.List[pathlib.Path] = udirs
        self.bname: str = bname
        self.bdir: pathlib.Path = bdir


class Lab:
    def __init__(self, base: typing.Optional[str] = None, languages=("c", "py")):
        import nunavut
        import pydsdl
        from nunavut.lang import LanguageContextBuilder

        self.root = pathlib.Path(tempfile.mkdtemp(prefix="vf-c16-", dir=base))
        self.pkg = f"vfc16pkg{os.getpid()}x{next(_LABSEQ)}"
        pk = self.root / "pkgs" / self.pkg
        pk.mkdir(parents=True)
        (pk / "__init__.py").write_text("")
        sys.path.insert(0, str(self.root / "pkgs"))
        importlib.invalidate_caches()
        self.seq = 0
        nsdir = self.root / "vfns"
        nsdir.mkdir()
        for fn, text in UNIVERSE.items():
            (nsdir / fn).write_text(text)
        self.types = sorted(pydsdl.read_namespace(str(nsdir), []), key=lambda t: t.full_name)
        self.lctx = {}
        self.ns = {}
        for lang in languages:
            self.lctx[lang] = (
                LanguageContextBuilder(include_experimental_languages=True).set_target_language(lang).create()
            )
            self.ns[lang] = nunavut.build_namespace_tree(
                self.types, str(nsdir), str(self.root / "out" / lang), self.lctx[lang]
            )
        self.instances = self._collect_instances()
        install_walk_proxy()

    # ---- real instances of every concrete class, in a deterministic order
    def _collect_instances(self):
        import nunavut
        import pydsdl

        seen: typing.Dict[int, typing.Any] = {}
        order: typing.List[typing.Any] = []

        def visit(x):
            if id(x) in seen:
                return
            seen[id(x)] = x
            order.append(x)
            if isinstance(x, pydsdl.ServiceType):
                visit(x.request_type)
                visit(x.response_type)
            if isinstance(x, pydsdl.DelimitedType):
                visit(x.inner_type)
            if isinstance(x, pydsdl.CompositeType):
                for a in x.attributes:
                    visit(a)
            if isinstance(x, pydsdl.Attribute):
                visit(x.data_type)
            if isinstance(x, pydsdl.ArrayType):
                visit(x.element_type)

        for t in self.types:
            visit(t)
        first_ns = next(iter(self.ns.values()))
        order.append(first_ns)
        by_class: typing.Dict[str, typing.List[typing.Any]] = collections.OrderedDict()
        for x in order:
            by_class.setdefault(type(x).__name__, []).append(x)
        d = domain()
        for n in d["stated"]:
            c = d["classes"][n]
            if not inspect.isabstract(c) and not c.__subclasses__() and n not in by_class:
                raise core.HarnessError(f"DSDL universe yields no instance of {n}")
        for n in ("StructureType", "Field", "UnsignedIntegerType", "FixedLengthArrayType"):
            if n not in by_class:
                raise core.HarnessError(f"DSDL universe yields no instance of {n}")
        assert isinstance(first_ns, nunavut.Namespace)
        return by_class

    # ---- template sets on disk
    def materialize(self, case: dict, order: int) -> Mat:
        self.seq += 1
        k = self.seq
        udirs = [self.root / f"u{k}z"]  # listed first, sorts last: the search path is the LISTED order (jinja2 FileSystemLoader)
        files: typing.List[typing.Tuple[pathlib.Path, str]] = []
        for n in case.get("user", []):
            files.append((udirs[0] / f"{n}.j2", f"user:{n}"))
        for n in case.get("nested", []):
            files.append((udirs[0] / "sub" / f"{n}.j2", f"user:sub/{n}"))
        if case.get("user2"):
            udirs.append(self.root / f"u{k}a")
            for n in case["user2"]:
                files.append((udirs[1] / f"{n}.j2", f"user2:{n}"))
        bname = f"b{k}"
        bdir = self.root / "pkgs" / self.pkg / bname
        for n in case.get("builtin", []):
            files.append((bdir / f"{n}.j2", f"builtin:{n}"))
        for side, kind, n in case.get("decoys", []):
            base = udirs[0] if side == "user" else bdir
            rel = {
                "txt": f"{n}.txt",
                "bak": f"{n}.j2.bak",
                "lower": f"{n.lower()}.j2",
                "tmpl": f"{n}.tmpl.j2",
                "prefix": f"_{n}.j2",
                "dirnamed": f"{n}.j2/inner.txt",
            }[kind]
            if kind == "dirnamed" and n in (case.get("user", []) if side == "user" else case.get("builtin", [])):
                continue  # a file of that name exists already
            files.append((base / rel, f"decoy:{rel}"))
        for d in udirs + [bdir]:
            d.mkdir(parents=True)
        index = {str(p): i for i, (p, _) in enumerate(files)}
        for p in permute([str(p) for p, _ in files], order):
            path, text = files[index[p]]
            path.parent.mkdir(parents=True, exist_ok=True)
            path.write_text(text)
        return Mat(udirs, bname, bdir)

    def discard(self, mat: Mat) -> None:
        for d in mat.udirs + [mat.bdir]:
            shutil.rmtree(d, ignore_errors=True)

    def make_gen(self, cfg: str, mat: Mat):
        import nunavut.jinja

        td: typing.Any = mat.udirs if len(mat.udirs) > 1 else mat.udirs[0]
        if cfg == "first-user":  # the public generator forces FIND_FIRST: built-in templates are ignored
            return nunavut.jinja.DSDLCodeGenerator(
                self.ns["c"], templates_dir=td, package_name_for_templates=self.pkg, builtin_template_path=mat.bname
            )
        if cfg == "first-builtin":
            return nunavut.jinja.DSDLCodeGenerator(
                self.ns["c"], package_name_for_templates=self.pkg, builtin_template_path=mat.bname
            )
        if cfg == "all":  # CodeGenerator's default policy (the one SupportGenerator runs with)
            return all_generator()(
                self.ns["c"], templates_dir=td, package_name_for_templates=self.pkg, builtin_template_path=mat.bname
            )
        if cfg == "all-real":  # built-in side = the real templates of the Python target
            return all_generator()(self.ns["py"], templates_dir=td)
        raise core.HarnessError(f"unknown cfg {cfg}")

    def close(self):
        try:
            sys.path.remove(str(self.root / "pkgs"))
        except ValueError:
            pass
        for m in [m for m in sys.modules if m == self.pkg or m.startswith(self.pkg + ".")]:
            del sys.modules[m]
        shutil.rmtree(self.root, ignore_errors=True)


_ALLGEN: typing.List[typing.Any] = []


def all_generator():
    if not _ALLGEN:
        import nunavut.jinja

        class FindAllGenerator(nunavut.jinja.CodeGenerator):
            """Concrete CodeGenerator with the default (FIND_ALL) policy; nothing is generated."""

            def generate_all(self, *a, **k):  # pragma: no cover
                return []

        _ALLGEN.append(FindAllGenerator)
    return _ALLGEN[0]


def real_builtin_names(lang: str = "py") -> typing.Set[str]:
    d = core.REPO / "src" / "nunavut" / "lang" / lang / "templates"
    return {p.stem for p in d.glob("*.j2")} & set(domain()["classes"])


# ---------------------------------------------------------------------------------------------------------------------
# Part A evaluator
# ---------------------------------------------------------------------------------------------------------------------
def lookup(lab: Lab, gen, name: str) -> typing.Optional[str]:
    """Template name for class `name` as the generator would use it (None = documented 'No template found')."""
    cls = domain()["classes"][name]
    inst = lab.instances.get(name)
    if inst and type(inst[0]) is cls and hasattr(gen, "filter_type_to_template"):
        try:
            return typing.cast(str, gen.filter_type_to_template(inst[0]))
        except RuntimeError as e:
            if "No template found" in str(e):
                return None
            raise
    p = gen.dsdl_loader.type_to_template(cls)
    return None if p is None else p.name


def identity(lab: Lab, gen, cfg: str, tname: str) -> str:
    """Which file does the environment use for template `tname`?  -> marker text, or '<TemplateNotFound>'."""
    from nunavut.jinja.jinja2 import TemplateNotFound

    try:
        if cfg == "all-real":
            src, filename, _ = gen.dsdl_loader.get_source(gen._env, tname)  # pylint: disable=protected-access
            if str(lab.root) in str(filename):
                return typing.cast(str, src)
            if str(core.REPO.resolve()) in str(pathlib.Path(filename).resolve()):
                return "builtin:" + pathlib.Path(filename).stem
            return f"<unknown origin {filename}>"
        return typing.cast(str, gen._env.get_template(tname).render())  # pylint: disable=protected-access
    except TemplateNotFound:
        return "<TemplateNotFound>"


def eval_a(lab: Lab, rec, case: dict) -> typing.List[Fail]:
    cfg = case["cfg"]
    uses_user = cfg != "first-builtin"
    utop = (set(case.get("user", [])) | set(case.get("user2", []))) if uses_user else set()
    unested = (set(case.get("nested", [])) - utop) if uses_user else set()
    if cfg == "all-real":
        b = real_builtin_names("py")
    elif cfg == "first-user":
        b = set()
    else:
        b = set(case.get("builtin", []))
    avail = utop | b
    orders = case.get("orders") or [0]
    walks = case.get("walks") or [0]
    res: typing.List[Fail] = []
    tags: typing.Set[str] = {"A.cfg=" + cfg}
    mat_idx = 0
    _WALK_MODE[0] = walks[0] % 4
    mat = lab.materialize(case, orders[0])
    try:
        gen = lab.make_gen(cfg, mat)
        first: typing.Dict[str, typing.Tuple[typing.Optional[str], int]] = {}
        rendered: typing.Set[str] = set()
        nlook = 0
        nontrivial = False
        lookups = 0
        for si, step in enumerate(case["steps"]):
            if step[0] == "fresh":
                gen = lab.make_gen(cfg, mat)
                nlook = 0
                tags.add("A.fresh_generator")
                continue
            if step[0] == "reorder":
                mat_idx += 1
                lab.discard(mat)
                _WALK_MODE[0] = walks[mat_idx % len(walks)] % 4
                mat = lab.materialize(case, orders[mat_idx % len(orders)])
                gen = lab.make_gen(cfg, mat)
                nlook = 0
                rendered.clear()
                tags.add("A.reorder")
                continue
            name = step[1]
            fam = family(name)
            tags.add("A.family=" + fam)
            r = lookup(lab, gen, name)
            lookups += 1
            warm = nlook > 0
            nlook += 1
            acc, none_ok, ambiguous = acceptable(name, cfg, utop, unested, b)
            stem = None if r is None else (r[: -len(".j2")] if r.endswith(".j2") else r)
            if name not in avail:
                nontrivial = True
                tags.add("A.self_missing")
            if warm:
                nontrivial = True
                tags.add("A.warm")
            if not acc:
                tags.add("A.no_template_for_class")
            if ambiguous:
                tags.add("A.findall_ambiguous")
            if unested:
                tags.add("A.nested_dir")
            desc = f"cfg={cfg} user={sorted(utop)} nested={sorted(unested)} builtin={sorted(b)} class={name}"
            ok = (stem is None and (none_ok or not acc)) or (stem is not None and stem in acc)
            if not ok:
                # root cause: does a cold lookup (fresh generator, same files) give an acceptable answer?
                cold = lookup(lab, lab.make_gen(cfg, mat), name) if warm else r
                cold_stem = None if cold is None else cold[: -len(".j2")]
                if warm and ((cold_stem is None and (none_ok or not acc)) or (cold_stem is not None and cold_stem in acc)):
                    sig = f"A|warm-cache-lookup-differs-from-cold-lookup|cfg={cfg}"
                    extra = f"; the same lookup on a fresh generator gives {cold!r}"
                else:
                    sig = f"A|resolution-not-nearest|cfg={cfg}|family={fam}" + ("|sub-folder-templates" if unested else "")
                    extra = ""
                res.append(
                    (
                        sig,
                        f"{desc}: resolved to {r!r}, nearest class with a template is {sorted(acc) or None}"
                        f" (history so far: {case['steps'][: si + 1]}){extra}",
                    )
                )
                continue
            if ambiguous and len(bfs_levels(name)) == len(ancestors(name)):
                rec.event("A.reading.fs-first" if stem in nearest(name, utop) else "A.reading.union-nearest")
            if name in first and first[name][0] != r:
                # both answers are acceptable on their own (two-valued clause / tie) but the answer must be a function
                # of the case.  Root cause: cache history, or the order in which the files were created / enumerated?
                cold = lookup(lab, lab.make_gen(cfg, mat), name)
                sig = f"A|warm-cache-lookup-differs-from-cold-lookup|cfg={cfg}"
                if cold == r and first[name][1] != mat_idx:
                    keep_mode = _WALK_MODE[0]
                    _WALK_MODE[0] = walks[first[name][1] % len(walks)] % 4
                    mat2 = lab.materialize(case, orders[first[name][1] % len(orders)])
                    try:
                        if lookup(lab, lab.make_gen(cfg, mat2), name) != cold:
                            sig = f"A|enumeration-order-dependence|cfg={cfg}"
                    finally:
                        lab.discard(mat2)
                        _WALK_MODE[0] = keep_mode
                res.append(
                    (
                        sig,
                        f"{desc}: this lookup gave {r!r}, an earlier lookup of the same class gave {first[name][0]!r}, "
                        f"a cold lookup on the same files gives {cold!r}; steps={case['steps']}",
                    )
                )
            first.setdefault(name, (r, mat_idx))
            # which file is behind that name?  (user's file if the user has one of that name)
            if r is not None and r not in rendered:
                rendered.add(r)
                got = identity(lab, gen, cfg, r)
                if stem in utop:
                    # two user directories: the one listed first is searched first (templates_dir documents the jinja2 loader rules)
                    first_dir = "user" if (not uses_user or stem in set(case.get("user", []))) else "user2"
                    want_ok = got == f"{first_dir}:{stem}"
                    want = f"{first_dir}:{stem}"
                    if stem in b:
                        tags.add("A.same_name_both_sets")
                elif stem in b:
                    want_ok = got == f"builtin:{stem}"
                    want = f"builtin:{stem}"
                else:
                    want_ok = False
                    want = "an existing template"
                if not want_ok and got == "<TemplateNotFound>" and stem in unested and not acceptable(name, cfg, utop, set(), b)[0]:
                    # only sub-folder files are named after this class or an ancestor: an error under either reading
                    tags.add("A.nested_dir.no_top_level_template")
                elif not want_ok:
                    if got == "<TemplateNotFound>" and stem in unested:
                        sig = "A|template-in-sub-folder-hides-the-nearest-loadable-template"
                    elif got == "<TemplateNotFound>":
                        sig = f"A|resolved-name-not-loadable|cfg={cfg}|family={fam}"
                    elif stem in utop and got.startswith("builtin:"):
                        sig = f"A|built-in-used-instead-of-user-template|cfg={cfg}"
                    else:
                        sig = f"A|wrong-file-behind-resolved-name|cfg={cfg}"
                    res.append((sig, f"{desc}: resolved to {r!r}; loading it through the environment gave {got!r}, expected {want!r}"))
        # precedence for every name present in both sets, independent of resolution
        if cfg in ("all", "all-real"):
            for n in sorted(utop & b):
                tags.add("A.same_name_both_sets")
                # by its plain name and by an equivalent spelling the template loaders accept ("./x.j2" names the same file)
                for spelled in (n + ".j2", "./" + n + ".j2"):
                    got = identity(lab, gen, cfg, spelled)
                    if got not in (f"user:{n}", f"user2:{n}"):
                        res.append(
                            (
                                f"A|built-in-used-instead-of-user-template|cfg={cfg}",
                                f"cfg={cfg} user={sorted(utop)} builtin={sorted(b)}: get_template({spelled!r}) gave {got!r}, "
                                f"the user's file contains 'user:{n}'",
                            )
                        )
            # a user template of that name which exists but cannot be DECODED: an error (or the user's text) -- never silently the
            # built-in template of the same name
            if cfg == "all" and sorted(utop & b):
                n = sorted(utop & b)[0]
                for ud in mat.udirs:
                    f = ud / f"{n}.j2"
                    if f.exists():
                        keep = f.read_bytes()
                        f.write_bytes(b"\xff\xfe\xfa not utf-8 \xe9\n")
                        try:
                            try:
                                got = identity(lab, lab.make_gen(cfg, mat), cfg, n + ".j2")
                            except Exception as e:  # pylint: disable=broad-except
                                got = f"<raised {type(e).__name__}>"
                            tags.add("A.undecodable_user_template")
                            if got.startswith("builtin:"):
                                res.append((f"A|built-in-used-instead-of-user-template|cfg={cfg}|user-template-undecodable",
                                            f"cfg={cfg} user={sorted(utop)} builtin={sorted(b)}: the user's {n}.j2 is not valid UTF-8; get_template gave {got!r} "
                                            "(the built-in template) instead of an error"))
                        finally:
                            f.write_bytes(keep)
                        break
        rec.event("A.lookups", lookups)
        rec.case(
            ("A", case),
            nontrivial,
            sample={k: v for k, v in case.items() if v not in ([], None)},
            classes=sorted(tags),
        )
    finally:
        lab.discard(mat)
        _WALK_MODE[0] = 0
    # de-duplicate per signature (keep the first message)
    out: typing.Dict[str, str] = collections.OrderedDict()
    for s, w in res:
        out.setdefault(s, w)
    return list(out.items())


# ---- exhaustive enumeration (worker processes)
_WLAB: typing.List[Lab] = []


def _worker_init(base: str):
    _WLAB.append(Lab(base=base, languages=("c",)))


def canonical_steps(name: str) -> typing.List[typing.List[str]]:
    anc = ancestors(name)[1:]
    steps = [["lookup", name]] + [["lookup", a] for a in anc] + [["lookup", name], ["fresh"]]
    steps += [["lookup", a] for a in reversed(anc)] + [["lookup", name]]
    return steps


def _exh_task(task):
    name, umask, stride, phase = task
    lab = _WLAB[0]
    rec = Rec()
    anc = ancestors(name)
    n = len(anc)
    full = (1 << n) - 1
    user = [anc[i] for i in range(n) if umask >> i & 1]
    steps = canonical_steps(name)
    for bmask in range(1 << n):
        if stride > 1 and ((umask * 2654435761 + bmask * 40503) >> 7) % stride != phase:
            continue
        builtin = [anc[i] for i in range(n) if bmask >> i & 1]
        cfgs = ["all"]
        if bmask in (0, full):
            cfgs.append("first-user")
        if umask == 0:
            cfgs.append("first-builtin")
        for cfg in cfgs:
            case = {
                "part": "A",
                "cfg": cfg,
                "user": user,
                "builtin": builtin,
                "orders": [umask * 7 + bmask * 3 + n],
                "walks": [(umask + bmask) % 4],
                "steps": steps,
            }
            for sig, what in eval_a(lab, rec, case):
                rec.fail(sig, what, case)
    return rec.dump()


def run_exhaustive(ctx: core.Ctx, base: str) -> None:
    d = domain()
    tasks = []
    pairs = 0
    for name in d["stated"] + d["syn"]:
        n = len(ancestors(name))
        stride = 1
        if ctx.quick and n >= 6:
            stride = 2 * 4 ** (n - 5)  # chains <= 5 complete; deeper chains: every stride-th pair, phase from the seed
        for umask in range(1 << n):
            tasks.append((name, umask, stride, ctx.seed % stride))
        pairs += (4**n) // stride
    ctx.extra["A_exhaustive_pairs"] = pairs
    ctx.extra["A_exhaustive"] = (
        "every (class, user subset, built-in subset) of ancestor-named templates"
        + (" for chains <= 5; 512 of the 4^n pairs for chains of n = 6 and 7 classes" if ctx.quick else " for all chains (<= 7)")
        + "; cfg all (always), first-user (built-in empty/full), first-builtin (user empty); canonical cold/warm/fresh history"
    )
    mp = multiprocessing.get_context("fork")
    with mp.Pool(min(16, os.cpu_count() or 2), initializer=_worker_init, initargs=(base,)) as pool:
        for dumped in pool.imap_unordered(_exh_task, tasks, chunksize=4):
            merge(ctx, dumped)


# ---- generated histories
def hist_strategy():
    d = domain()
    # the synthetic multiple-inheritance family takes part in the histories as well: with several bases a walk passes through
    # classes of unrelated branches, which is where a memo keyed too coarsely goes wrong
    names = d["stated"] + d["syn"]
    desc = {n: [m for m in names if n in ancestors(m) and m != n] for n in names}

    @st.composite
    def strat(draw):
        focus = draw(st.sampled_from(names))
        rel = sorted(set(ancestors(focus)) | set(desc[focus]))
        pick = st.one_of(st.sampled_from(rel), st.sampled_from(rel), st.sampled_from(names))
        subset = st.lists(pick, max_size=6, unique=True)
        cfg = draw(st.sampled_from(["all", "all", "all", "first-user", "first-builtin", "all-real"]))
        case = {
            "part": "A",
            "cfg": cfg,
            "user": draw(subset),
            "builtin": draw(subset),
            "user2": draw(subset) if draw(st.integers(0, 4)) == 0 else [],
            "nested": draw(subset) if draw(st.integers(0, 4)) == 0 else [],
            "decoys": [
                list(t)
                for t in draw(
                    st.lists(
                        st.tuples(st.sampled_from(["user", "builtin"]), st.sampled_from(DECOY_KINDS), st.sampled_from(rel)),
                        max_size=3,
                        unique=True,
                    )
                )
            ],
            "orders": draw(st.lists(st.integers(0, 47), min_size=3, max_size=3)),
            "walks": draw(st.lists(st.integers(0, 3), min_size=3, max_size=3)),
        }
        step = st.one_of(
            st.tuples(st.just("lookup"), pick).map(list),
            st.tuples(st.just("lookup"), pick).map(list),
            st.tuples(st.just("lookup"), pick).map(list),
            st.just(["fresh"]),
            st.just(["reorder"]),
        )
        steps = draw(st.lists(step, min_size=1, max_size=12))
        steps.append(["lookup", draw(pick)])
        case["steps"] = steps
        return case

    return strat()


# ---- end to end: generate_all picks, for every type and namespace, the template the resolver names
E2E_NAMES = ["StructureType", "UnionType", "ServiceType", "DelimitedType", "CompositeType", "SerializableType", "Namespace", "Any"]


def eval_e2e(lab: Lab, rec, case: dict) -> typing.List[Fail]:
    import nunavut.jinja
    from nunavut._utilities import YesNoDefault

    user = set(case["user"])
    mat = lab.materialize({"user": sorted(user)}, case.get("order", 0))
    res: typing.List[Fail] = []
    try:
        ns = lab.ns["c"]
        g = nunavut.jinja.DSDLCodeGenerator(ns, generate_namespace_types=YesNoDefault.YES, templates_dir=mat.udirs[0])
        targets = list(ns.get_all_types())
        expect = {}
        for t, path in targets:
            acc = nearest(type(t).__name__, user)
            expect[str(path)] = (type(t).__name__, acc)
        unresolvable = sorted({c for c, acc in expect.values() if not acc})
        rec.case(
            ("E2E", sorted(user)),
            nontrivial=any(c not in user for c, _ in expect.values()),
            sample={"part": "A-e2e", "user": sorted(user)},
            classes=["A.e2e"] + (["A.e2e.unresolvable"] if unresolvable else []),
        )
        try:
            outs = list(g.generate_all())
        except RuntimeError as e:
            if unresolvable and "No template found" in str(e):
                return []
            return [("A|e2e|generate_all-failed", f"user={sorted(user)}: {type(e).__name__}: {e}")]
        if unresolvable:
            return [("A|e2e|no-error-although-no-template", f"user={sorted(user)}: no template for {unresolvable} but generate_all succeeded")]
        if sorted(map(str, outs)) != sorted(expect):
            raise core.HarnessError(f"unexpected outputs {outs} vs {sorted(expect)}")
        for p, (cname, acc) in sorted(expect.items()):
            text = pathlib.Path(p).read_text().strip()
            if text not in {f"user:{a}" for a in acc}:
                res.append(
                    (
                        f"A|e2e|file-rendered-from-wrong-template|family={family(cname)}",
                        f"user={sorted(user)}: output for a {cname} contains {text!r}, nearest template is {sorted(acc)}",
                    )
                )
        return res
    finally:
        lab.discard(mat)
        shutil.rmtree(lab.root / "out", ignore_errors=True)


# ---------------------------------------------------------------------------------------------------------------------
# Part B: instance tests
# ---------------------------------------------------------------------------------------------------------------------
def alias_of(cname: str) -> str:
    """docs/templates.rst: names ending in "Type" or "Field" lose that suffix, lower-cased; others are lower-cased."""
    for suffix in ("Type", "Field"):
        if cname.endswith(suffix) and len(cname) > len(suffix):
            return cname[: -len(suffix)].lower()
    return cname.lower()


def b_values(lab: Lab) -> typing.List[typing.Tuple[str, typing.Any]]:
    vals: typing.List[typing.Tuple[str, typing.Any]] = []
    for cname, insts in lab.instances.items():
        for i, x in enumerate(insts[:3]):
            vals.append((f"{cname}#{i}", x))
    const = lab.instances["Constant"][0]
    vals += [("Constant.value", const.value), ("None", None), ("int", 0), ("str", "StructureType")]
    return vals


def value_kind(x) -> str:
    import nunavut
    import pydsdl

    if isinstance(x, pydsdl.Attribute):
        return "attribute-instance"
    if isinstance(x, pydsdl.SerializableType):
        return "data-type-instance"
    if isinstance(x, nunavut.Namespace):
        return "namespace"
    return "other-value"


def expected_membership(x, cls) -> bool:
    import pydsdl

    if isinstance(x, pydsdl.Attribute) and issubclass(cls, pydsdl.SerializableType):
        return isinstance(x.data_type, cls)
    return isinstance(x, cls)


def eval_b(lab: Lab, rec, lang: str, only: typing.Optional[dict] = None) -> typing.List[typing.Tuple[str, str, dict]]:
    import nunavut.jinja

    d = domain()
    g = nunavut.jinja.DSDLCodeGenerator(lab.ns[lang])
    env = g._env  # pylint: disable=protected-access
    vals = b_values(lab)
    out = []
    for cname in d["ser"] + d["att"]:
        cls = d["classes"][cname]
        fam = family(cname)
        for tname, nkind in ((cname, "class-name"), (alias_of(cname), "lower-case-alias")):
            if only and (only["cls"] != cname or only["test"] != tname):
                continue
            rep = {"part": "B", "lang": lang, "cls": cname, "test": tname}
            if tname not in env.tests:
                rec.case(("B", lang, cname, tname, "missing"), True, classes=["B.missing"])
                out.append((f"B|missing-test|{nkind}|test-class-family={fam}", f"lang={lang}: no test named {tname!r} for pydsdl.{cname}", rep))
                continue
            fn = env.tests[tname]
            tpl = env.from_string("{% for x in xs %}{{ '1' if x is " + tname + " else '0' }}{% endfor %}")
            try:
                via_template = tpl.render(xs=[x for _, x in vals])
            except Exception as e:  # a test that raises on a value is reported below through the direct call
                via_template = f"<{type(e).__name__}>"
            for i, (vname, x) in enumerate(vals):
                exp = expected_membership(x, cls)
                try:
                    got = fn(x)
                except Exception as e:  # pylint: disable=broad-except
                    got = f"<{type(e).__name__}: {e}>"
                vk = value_kind(x)
                rec.case(
                    ("B", lang, cname, tname, vname),
                    nontrivial=vk == "attribute-instance" or exp,
                    sample={"part": "B", "lang": lang, "test": tname, "value": vname, "expected": exp},
                    classes=["B." + vk, "B.expected_true" if exp else "B.expected_false", "B.test_family=" + fam],
                )
                if got is not exp:
                    out.append(
                        (
                            f"B|instance-test-disagrees-with-class-membership|test-class-family={fam}|value={vk}",
                            f"lang={lang}: test {tname!r} (pydsdl.{cname}) on {vname} ({x!r:.80}) returned {got!r}, "
                            f"class membership of the value{' / of its data type' if fam == 'SerializableType' else ''} is {exp}",
                            rep,
                        )
                    )
                elif len(via_template) == len(vals) and via_template[i] != ("1" if exp else "0"):
                    out.append(
                        (
                            f"B|instance-test-in-template-differs-from-direct-call|test-class-family={fam}|value={vk}",
                            f"lang={lang}: '{{{{ x is {tname} }}}}' on {vname} rendered {via_template[i]!r}, direct call {got!r}",
                            rep,
                        )
                    )
    return out


# ---------------------------------------------------------------------------------------------------------------------
# Part C: additional filters / tests / globals
# ---------------------------------------------------------------------------------------------------------------------
KINDS = ("filters", "tests", "globals")
DOCUMENTED_RESERVED = ["ln", "options", "uses_queries", "nunavut", "now_utc"]  # docs + class docstring
FRESH = ["vf_fresh_one", "vfFresh2", "zz_custom"]
CONVENTIONAL_PREFIXES = ("filter_", "is_", "uses_")


def fingerprint(o) -> typing.Any:
    """Identity of an environment entry up to the per-environment wrappers nunavut creates anew each time."""
    import datetime

    from nunavut.jinja.environment import LanguageTemplateNamespace

    if isinstance(o, functools.partial):
        return ("partial", fingerprint(o.func), tuple(type(a).__qualname__ for a in o.args))
    if inspect.ismethod(o):
        return ("method", id(o.__func__), type(o.__self__).__qualname__)
    if inspect.isfunction(o) and o.__closure__:
        cells = tuple(id(c.cell_contents) if isinstance(c.cell_contents, type) else type(c.cell_contents).__qualname__ for c in o.__closure__)
        return ("closure", id(o.__code__), cells)
    if isinstance(o, LanguageTemplateNamespace):
        return ("LanguageTemplateNamespace",)
    if isinstance(o, (str, int, float, bool, type(None), datetime.datetime)):
        return ("value", repr(o))
    return ("object", id(o))


def unwrap(o):
    while isinstance(o, functools.partial):
        o = o.func
    return o


class CLab:
    """Baselines (environment without additions) per (language, level)."""

    def __init__(self, lab: Lab):
        self.lab = lab
        self.base: typing.Dict[typing.Tuple[str, str], typing.Dict[str, typing.Dict[str, typing.Any]]] = {}
        self.keep: typing.List[typing.Any] = []  # keep baseline environments alive: fingerprints contain ids

    def build(self, lang: str, via: str, adds: typing.Dict[str, typing.Dict[str, typing.Any]], overwrite: bool):
        import nunavut.jinja
        from nunavut.jinja.jinja2 import DictLoader

        kw = {k: (dict(adds[k]) if adds.get(k) else None) for k in KINDS}
        if via == "generator":
            g = nunavut.jinja.DSDLCodeGenerator(
                self.lab.ns[lang], additional_filters=kw["filters"], additional_tests=kw["tests"], additional_globals=kw["globals"]
            )
            return g._env  # pylint: disable=protected-access
        b = nunavut.jinja.CodeGenEnvironmentBuilder(DictLoader({"t": "x"}), self.lab.lctx[lang])
        if kw["filters"]:
            b.add_filters(**kw["filters"])
        if kw["tests"]:
            b.add_tests(**kw["tests"])
        if kw["globals"]:
            b.add_globals(**kw["globals"])
        if overwrite:
            b.set_allow_filter_test_or_use_query_overwrite(True)
        return b.create()

    def baseline(self, lang: str, via: str):
        key = (lang, via)
        if key not in self.base:
            env = self.build(lang, via, {}, False)
            self.keep.append(env)
            self.base[key] = {
                "filters": {k: fingerprint(v) for k, v in env.filters.items()},
                "tests": {k: fingerprint(v) for k, v in env.tests.items()},
                "globals": {k: fingerprint(v) for k, v in env.globals.items()},
            }
        return self.base[key]


def name_category(kind: str, name: str) -> str:
    from nunavut.jinja import DSDLCodeGenerator
    from nunavut.jinja.jinja2.defaults import DEFAULT_NAMESPACE
    from nunavut.jinja.jinja2.filters import FILTERS
    from nunavut.jinja.jinja2.tests import TESTS

    d = domain()
    if kind == "globals":
        if name in DEFAULT_NAMESPACE:
            return "jinja-default-global"
        if name in DOCUMENTED_RESERVED:
            return "reserved"
        return "language-global"
    if name in (FILTERS if kind == "filters" else TESTS):
        return "jinja-builtin"
    if name.startswith("ln."):
        return "ln-qualified-language-" + kind[:-1]
    if kind == "tests" and (name in d["ser"] + d["att"] or name in {alias_of(c) for c in d["ser"] + d["att"]}):
        return "dsdl-instance-test"
    if hasattr(DSDLCodeGenerator, ("filter_" if kind == "filters" else "is_") + name):
        return "generator-builtin"
    return "target-language-" + kind[:-1]


def effective_name(kind: str, name: str) -> str:
    if kind != "globals":
        for p in CONVENTIONAL_PREFIXES:
            if name.startswith(p) and len(name) > len(p):
                return name[len(p) :]
    return name


def eval_c(clab: CLab, rec, case: dict) -> typing.List[Fail]:
    from nunavut.jinja.environment import CodeGenEnvironment

    lang, via, overwrite = case["lang"], case["via"], bool(case.get("overwrite"))
    base = clab.baseline(lang, via)
    reserved = set(DOCUMENTED_RESERVED) | set(CodeGenEnvironment.RESERVED_GLOBAL_NAMESPACES) | set(CodeGenEnvironment.RESERVED_GLOBAL_NAMES)
    adds: typing.Dict[str, typing.Dict[str, typing.Any]] = {}
    for kind in KINDS:
        adds[kind] = {}
        for n in case.get(kind, []):

            def user_entry(*a, _id=f"vf-user-{kind}-{n}", **k):
                return _id

            adds[kind][n] = user_entry
    collisions = [(k, n) for k in ("filters", "tests") for n in adds[k] if effective_name(k, n) in base[k]]
    shadowing = [n for n in adds["globals"] if n in base["globals"] and n not in reserved]
    res_names = [n for n in adds["globals"] if n in reserved]
    classes = ["C.via=" + via, "C.lang=" + lang]
    classes += ["C.collision." + name_category(k, effective_name(k, n)) for k, n in collisions]
    classes += ["C.collision.global." + name_category("globals", n) for n in shadowing]
    classes += ["C.reserved_global"] * len(res_names)
    if collisions or shadowing or res_names:
        classes.append("C.collision")
    if overwrite:
        classes.append("C.overwrite_flag")
    rec.case(("C", case), bool(collisions or shadowing or res_names), sample=case, classes=classes)
    tag = f"via={via}"
    try:
        env = clab.build(lang, via, adds, overwrite)
    except RuntimeError as e:
        rec.event("C.rejected_with_RuntimeError")
        if overwrite and not res_names and not shadowing:  # the flag covers filters, tests and uses-queries only
            return [(f"C|overwrite-flag-set-but-rejected|{tag}", f"{case!r}: RuntimeError: {e}")]
        if not collisions and not res_names and not shadowing:
            return [(f"C|fresh-names-rejected|{tag}", f"{case!r}: RuntimeError: {e} -- none of the names exists in the environment")]
        return []
    except Exception as e:  # pylint: disable=broad-except
        return [(f"C|unexpected-exception|{type(e).__name__}|{tag}", f"{case!r}: {type(e).__name__}: {e}")]
    res: typing.List[Fail] = []
    if res_names:
        res.append((f"C|reserved-global-accepted|{tag}", f"{case!r}: no error although {res_names} are reserved global names"))
    now = {"filters": env.filters, "tests": env.tests, "globals": env.globals}
    for kind in KINDS:
        user_objs = {id(f): n for n, f in adds[kind].items()}
        for name, fp in base[kind].items():
            if name not in now[kind]:
                res.append((f"C|built-in-removed|{kind}|{name_category(kind, name)}|{tag}", f"{case!r}: {kind[:-1]} {name!r} disappeared"))
                continue
            cur = now[kind][name]
            if fingerprint(cur) == fp:
                if name in adds[kind] or any(effective_name(kind, n) == name for n in adds[kind]):
                    rec.event("C.user_entry_ignored_in_favour_of_builtin")
                continue
            by_user = id(unwrap(cur)) in user_objs
            if overwrite and kind != "globals" and by_user:
                rec.event("C.overwritten_with_flag")
                continue
            res.append(
                (
                    f"C|built-in-silently-replaced|{kind}|{name_category(kind, name)}",
                    f"{case!r}: constructed without error, but {kind[:-1]} {name!r} is now "
                    f"{'the user-supplied object' if by_user else repr(cur)} instead of the built-in one",
                )
            )
        # names that did not exist before must be there and be the user's objects (additional_* are documented to add them)
        for n, f in adds[kind].items():
            if n in base[kind] or effective_name(kind, n) in base[kind] or n.startswith(CONVENTIONAL_PREFIXES):
                continue
            if n not in now[kind] or unwrap(now[kind][n]) is not f:
                res.append((f"C|fresh-name-not-added|{kind}|{tag}", f"{case!r}: {kind[:-1]} {n!r} is not available after construction"))
    return res


def c_singles(clab: CLab, langs) -> typing.Iterator[dict]:
    from nunavut.jinja.environment import CodeGenEnvironment

    for lang in langs:
        base = clab.baseline(lang, "generator")
        for kind in KINDS:
            names = sorted(base[kind])
            if kind == "globals":
                names = sorted(set(names) | set(DOCUMENTED_RESERVED) | set(CodeGenEnvironment.RESERVED_GLOBAL_NAMESPACES) | set(CodeGenEnvironment.RESERVED_GLOBAL_NAMES))
            else:
                pre = "filter_" if kind == "filters" else "is_"
                names += [pre + n for n in names[:: max(1, len(names) // 12)]]
            for n in names + FRESH:
                for via in ("generator", "builder"):
                    yield {"part": "C", "lang": lang, "via": via, "overwrite": False, kind: [n]}
                if kind != "globals":
                    yield {"part": "C", "lang": lang, "via": "builder", "overwrite": True, kind: [n]}


def c_strategy(clab: CLab, langs):
    pools = {}
    for lang in langs:
        base = clab.baseline(lang, "generator")
        pools[lang] = {}
        for kind in KINDS:
            existing = sorted(base[kind])
            other = sorted(set().union(*[set(base[k]) for k in KINDS if k != kind]) - set(existing))  # names of another kind
            pre = [] if kind == "globals" else [("filter_" if kind == "filters" else "is_") + n for n in existing[::7]]
            extra = DOCUMENTED_RESERVED if kind == "globals" else []
            pools[lang][kind] = (existing + pre + list(extra), FRESH + other[::9])

    @st.composite
    def strat(draw):
        lang = draw(st.sampled_from(list(langs)))
        via = draw(st.sampled_from(["generator", "generator", "builder"]))
        case = {"part": "C", "lang": lang, "via": via, "overwrite": via == "builder" and draw(st.booleans())}
        for kind in KINDS:
            coll, fresh = pools[lang][kind]
            case[kind] = draw(
                st.lists(st.one_of(st.sampled_from(coll), st.sampled_from(fresh)), max_size=3, unique_by=lambda n, k=kind: effective_name(k, n))
            )
        return case

    return strat()


# ---------------------------------------------------------------------------------------------------------------------
# driver
# ---------------------------------------------------------------------------------------------------------------------
B_LANGS = ("c", "cpp", "py", "html")
C_LANGS = ("c", "cpp", "py")


REVISION_CLASSES = ["StructureType", "UnionType", "DelimitedType", "ServiceType", "UnsignedIntegerType", "FloatType", "VariableLengthArrayType", "FixedLengthArrayType", "BooleanType", "UTF8Type"]


def revision_strategy():
    from hypothesis import strategies as st

    @st.composite
    def strat(draw):
        name = draw(st.sampled_from(REVISION_CLASSES))
        anc = ancestors(name)
        sets = draw(st.lists(st.lists(st.sampled_from(anc), unique=True, max_size=len(anc)), min_size=2, max_size=4))
        if not any(sets):
            sets[-1] = ["Any"]
        return {"part": "A2", "class": name, "revisions": [sorted(x) for x in sets], "lookups_per_revision": draw(st.integers(1, 2))}

    return strat()


def eval_revisions(lab: "Lab", ctx, case) -> typing.List[Fail]:
    """
    One user templates directory (ONE path, reused for every case of the process) is revised: after each revision a FRESH
    generator must resolve against the templates that exist now -- nothing may be remembered per path across generators.
    The public DSDLCodeGenerator with templates_dir forces FIND_FIRST (only the user's templates count).
    """
    import nunavut.jinja

    res: typing.List[Fail] = []
    d = lab.root / "revised_templates"
    name = case["class"]
    prev: typing.Optional[typing.Set[str]] = None
    for ri, names in enumerate(case["revisions"]):
        if d.exists():
            for f in d.iterdir():
                f.unlink()
        d.mkdir(exist_ok=True)
        for n in names:
            (d / f"{n}.j2").write_text(f"user:{n}:rev{ri}")
        exp = nearest(name, set(names))
        if ri > 0 and prev != set(names):
            # the generator created for the PREVIOUS revision is asked again: which template is named after the nearest class is a
            # function of the templates that exist at the time of the lookup, not of what an earlier lookup on the object saw
            r_old = lookup(lab, gen, name)
            stem_old = None if r_old is None else r_old[: -len(".j2")]
            ctx.event("A.revision_lookup_on_the_earlier_generator")
            if not ((stem_old in exp) if exp else stem_old is None):
                res.append(("A|same-generator-ignores-revised-templates-directory",
                            f"class {name}: the templates directory now holds {names} (before: {sorted(prev or [])}); the generator created before the revision "
                            f"resolved to {r_old!r}, nearest is {sorted(exp) or None}"))
        gen = nunavut.jinja.DSDLCodeGenerator(lab.ns["c"], templates_dir=d)
        for _ in range(case["lookups_per_revision"]):
            r = lookup(lab, gen, name)
            stem = None if r is None else r[: -len(".j2")]
            ok = (stem in exp) if exp else stem is None
            changed = prev is not None and prev != set(names)
            ctx.case(("a2", name, case["revisions"][: ri + 1]), nontrivial=changed, sample={"part": "A2", "class": name, "revisions": case["revisions"][: ri + 1], "resolved": r},
                     classes=["A.revision_lookup"] + (["A.revised_same_path"] if changed else []))
            if not ok:
                stale = prev is not None and ((stem in nearest(name, prev)) if nearest(name, prev) else stem is None)
                res.append((
                    "A|fresh-generator-ignores-revised-templates-directory" if stale else "A|resolution-not-nearest|cfg=first-user|revised-directory",
                    f"class {name}: the templates directory now holds {names}, a fresh generator resolved to {r!r}, nearest is {sorted(exp) or None}"
                    + (f" (the previous revision held {sorted(prev)})" if prev is not None else ""),
                ))
                break
            if r is not None:
                text = gen._env.get_template(r).render()  # pylint: disable=protected-access
                if text != f"user:{stem}:rev{ri}":
                    res.append(("A|stale-template-content-after-revision", f"class {name}: {r} rendered {text!r}, the file now holds 'user:{stem}:rev{ri}'"))
                    break
        prev = set(names)
    return res


def run(ctx: core.Ctx):
    ctx.rule = (
        "A: case = (configuration, user / second-user / sub-folder / built-in template-name sets, decoy files, creation and "
        "walk orders, history of lookups / fresh generators / re-creations in another order); non-trivial = a lookup whose "
        "class has no template of its own, or a lookup on a warm cache. B: (language, pydsdl class, test name or alias, "
        "real instance); non-trivial = the value is an attribute or the expected answer is True. C: (language, level, names "
        "of additional filters / tests / globals); non-trivial = a name collides with an existing or reserved one. "
        "Distinct by hash of the whole case."
    )
    ctx.assumptions = [
        "resolution and history independence are quantified over the PyDSDL classes, nunavut.Namespace and a synthetic "
        "multiple-inheritance family below pydsdl.Any (two mirrored diamonds; the pinned suite itself resolves a diamond), "
        "all with the same canonical history (class, every ancestor, class again, fresh generator, ancestors in reverse, class)",
        "a template is 'named after a class' when it is <ClassName>.j2 (TEMPLATE_SUFFIX) in a template directory; for a "
        "file of that name in a sub-folder both readings are accepted, but the resolved name must be loadable",
        "FIND_ALL with a farther user template and a nearer built-in one: file-system-first and union-nearest are both accepted",
        "an additional filter/test/global that is ignored in favour of the built-in one is accepted; replacing is not",
        "enumeration order is varied by creating files in permuted order and by permuting what os.walk returns to the "
        "bundled Jinja loaders (the directory order of ext4 does not follow creation order)",
    ]
    q = ctx.quick
    base = tempfile.mkdtemp(prefix="vf-c16-")
    lab = None
    try:
        domain()
        # -------- A: exhaustive over (class, user subset, built-in subset), worker processes (before anything else is
        # imported or patched in this process)
        import time

        t0 = time.time()
        run_exhaustive(ctx, base)
        ctx.extra["phase_wall_s"] = {"A.exhaustive": round(time.time() - t0, 1)}

        def lap(label):
            ctx.extra["phase_wall_s"][label] = round(time.time() - t0 - sum(ctx.extra["phase_wall_s"].values()), 1)

        lab = Lab(base=base, languages=tuple(sorted(set(B_LANGS) | set(C_LANGS))))
        # -------- A: generated histories with decoys, sub-folders, second user directory, real built-in package
        core.explore(ctx, hist_strategy(), lambda c: eval_a(lab, ctx, c), 500 if q else 5000)
        lap("A.histories")
        # -------- A: the SAME templates directory revised between generators of one process
        core.explore(ctx, revision_strategy(), lambda c: eval_revisions(lab, ctx, c), 120 if q else 1500, seed_offset=5)
        lap("A.revisions")
        # -------- A: end to end through generate_all
        for k, mask in enumerate(range(1 << len(E2E_NAMES))):
            case = {"part": "E2E", "user": [n for i, n in enumerate(E2E_NAMES) if mask >> i & 1], "order": k}
            for sig, what in eval_e2e(lab, ctx, case):
                ctx.fail(sig, what, case)
        lap("A.e2e")
        # -------- B
        for lang in B_LANGS:
            for sig, what, rep in eval_b(lab, ctx, lang):
                ctx.fail(sig, what, rep)
        lap("B")
        # -------- C
        clab = CLab(lab)
        for case in c_singles(clab, C_LANGS):
            for sig, what in eval_c(clab, ctx, case):
                ctx.fail(sig, what, case)
        lap("C.singles")
        core.explore(ctx, c_strategy(clab, C_LANGS), lambda c: eval_c(clab, ctx, c), 400 if q else 6000, seed_offset=1)
        lap("C.generated")
    finally:
        if lab is not None:
            lab.close()
        shutil.rmtree(base, ignore_errors=True)
    ctx.exhaustive = False
    for cls, m in (
        ("A.self_missing", 2000),
        ("A.warm", 2000),
        ("A.findall_ambiguous", 500),
        ("A.same_name_both_sets", 500),
        ("A.reorder", 100),
        ("A.revised_same_path", 100),
        ("A.fresh_generator", 1000),
        ("A.nested_dir", 20),
        ("A.cfg=all-real", 30),
        ("A.family=synthetic-multiple-inheritance", 100),
        ("A.family=Attribute", 100),
        ("A.family=Namespace", 10),
        ("A.e2e", 256),
        ("B.attribute-instance", 1000),
        ("B.expected_true", 500),
        ("B.test_family=Attribute", 100),
        ("C.collision", 300),
        ("C.collision.jinja-builtin", 100),
        ("C.collision.global.jinja-default-global", 10),
        ("C.collision.global.language-global", 10),
        ("C.collision.dsdl-instance-test", 50),
        ("C.collision.generator-builtin", 10),
        ("C.reserved_global", 20),
        ("C.overwrite_flag", 50),
    ):
        ctx.require(cls, m)


def replay(ctx: core.Ctx, case):
    part = case.get("part")
    lab = Lab(languages=tuple(sorted(set(B_LANGS) | set(C_LANGS))))
    try:
        rec = Rec()
        if part == "A":
            return eval_a(lab, rec, case)
        if part == "E2E":
            return eval_e2e(lab, rec, case)
        if part == "B":
            return [(s, w) for s, w, _ in eval_b(lab, rec, case["lang"], only=case)]
        if part == "C":
            return eval_c(CLab(lab), rec, case)
        raise core.HarnessError(f"unknown replay case {case!r}")
    finally:
        lab.close()
