"""
C17 -- headers generated with different language options cannot be compiled together.

Domain : ordered pairs (A, B) of language-option sets for c and cpp
           * EVERY single-option difference: each documented option x each ordered pair of its values, inside several
             full-assignment contexts (enumerated, never sampled; completeness is asserted),
           * all ordered pairs of the --language-standard spellings (incl. the c++17-pmr / cetl++14-17 shorthand groups),
           * random multi-option differences and random identical pairs (Hypothesis),
           * identical pairs incl. two spellings of the same effective set (CLI flags vs YAML file, shorthand group vs the
             group written out),
         x DSDL type sets (a fixed one, Hypothesis-generated ones, one with floats).
Procedure: type headers from A (`--generate-support never`), support header from B (`--generate-support only`), a TU that
         includes every type header of the set, `gcc/g++ -fsyntax-only` with A's directory first and B's second.
Oracle : * effective(A) == effective(B)  (as reported by `nnvg --list-configuration` for the very same arguments)
               <=> the TU compiles;
         * effective(A) != effective(B) => in every included type header at least one static assertion fails with the message of
           base.j2 ("... is trying to use a serialization library that was compiled with different language options. This is
           dangerous and therefore not allowed."), every differing option that both sides know is named by a failing
           assertion (the asserted expression of base.j2 names the option: NUNAVUT_SUPPORT_LANGUAGE_OPTION_<KEY> /
           support::options::<key>), and no failing assertion names an option that is equal on both sides.
Non-trivial: A != B differing in exactly one effective option.
"""
from __future__ import annotations

import copy
import json
import multiprocessing
import os
import pathlib
import re
import shutil
import subprocess
import tempfile
import typing
from concurrent.futures import ThreadPoolExecutor

from hypothesis import strategies as st

from .. import core, tool

NS = "vf17"  # root namespace of every generated type set
SUB = "t"
ABSENT = None  # "the key is not set at all" (only C `std`, which has no built-in default)
JOBS = max(2, min(16, os.cpu_count() or 2))

# the message of lang/c/templates/base.j2 and lang/cpp/templates/base.j2 after string-literal concatenation
GUARD_SENTENCE = (
    "is trying to use a serialization library that was compiled with different language options. "
    "This is dangerous and therefore not allowed."
)

# --------------------------------------------------------------------------------------------------------------------
# option domain: the documented values (properties.yaml defaults, the two shorthand groups, CLI choices) plus user values
# for the free-form string options (stand-in container / allocator provided as stub headers on the include path)
# --------------------------------------------------------------------------------------------------------------------
BOOLS = ["omit_float_serialization_support", "enable_serialization_asserts", "enable_override_variable_array_capacity"]

C_VALUES: typing.Dict[str, list] = {
    "target_endianness": ["any", "little", "big"],
    "omit_float_serialization_support": [False, True],
    "enable_serialization_asserts": [False, True],
    "enable_override_variable_array_capacity": [False, True],
    "cast_format": ["(({type}) {value})", "(({type})({value}))", "({type}) {value}", "(({type}){value})"],  # the last differs from the first in white space only
    # `--language-standard c11` is the documented C value of that flag (c99 is named in its help text; only reachable via
    # a configuration file); ABSENT = key not set anywhere (equals the built-in default when the tree defines one)
    "std": [ABSENT, "c11", "c99"],
}

VEC_STD, VEC_MY, VEC_CETL = "<vector>", '"my/vec.hpp"', '"cetl/variable_length_array.hpp"'
AL_NONE, AL_MY, AL_PMR, AL_CETL = "", '"my/alloc.hpp"', "<memory_resource>", '"cetl/pf17/sys/memory_resource.hpp"'
T_STD, T_MY = "std::vector<{TYPE}>", "my::vec<{TYPE}>"
T_STD_A, T_MY_A = "std::vector<{TYPE}, {REBIND_ALLOCATOR}>", "my::vec<{TYPE}, {REBIND_ALLOCATOR}>"
T_CETL = "cetl::VariableLengthArray<{TYPE}, {REBIND_ALLOCATOR}>"
AT_NONE, AT_MY, AT_PMR, AT_CETL = "", "my::alloc", "std::pmr::polymorphic_allocator", "cetl::pf17::pmr::polymorphic_allocator"
CTOR_D, CTOR_L, CTOR_T = "default", "uses-leading-allocator", "uses-trailing-allocator"

CPP_VALUES: typing.Dict[str, list] = {
    "target_endianness": ["any", "little", "big"],
    "omit_float_serialization_support": [False, True],
    "enable_serialization_asserts": [False, True],
    "enable_override_variable_array_capacity": [False, True],
    "std": ["c++14", "c++17", "c++20"],
    "std_flavor": ["std", "pmr", "cetl"],
    "cast_format": ["static_cast<{type}>({value})", "(({type}) {value})", "static_cast< {type} >( {value} )"],
    "variable_array_type_include": [VEC_STD, VEC_MY, VEC_CETL],
    "variable_array_type_template": [T_STD, T_MY, T_STD_A, T_MY_A, T_CETL],
    "variable_array_type_constructor_args": ["", "{MAX_SIZE}"],
    "allocator_include": [AL_NONE, AL_MY, AL_PMR, AL_CETL],
    "allocator_type": [AT_NONE, AT_MY, AT_PMR, AT_CETL],
    "allocator_is_default_constructible": [True, False],
    "ctor_convention": [CTOR_D, CTOR_L, CTOR_T],
}
STD_SPELLINGS = ["c++14", "c++17", "c++20", "c++17-pmr", "cetl++14-17"]  # the cpp choices of --language-standard
VALUES = {"c": C_VALUES, "cpp": CPP_VALUES}
CLI_STD = {"c": ["c11"], "cpp": STD_SPELLINGS}

_PROPS: typing.Dict[str, typing.Any] = {}


def properties() -> dict:
    import yaml

    if not _PROPS:
        _PROPS.update(yaml.safe_load((core.REPO / "src/nunavut/lang/properties.yaml").read_text()))
    return _PROPS


def defaults(lang: str) -> dict:
    """Built-in option defaults of the tree under test (full assignment; C `std` is absent)."""
    d = copy.deepcopy(properties()["nunavut.lang." + lang]["options"])
    if lang == "c":
        d.setdefault("std", ABSENT)
    return d


def contexts(lang: str) -> typing.List[typing.Tuple[str, dict]]:
    """Full assignments inside which single options are varied.  All of them compile as identical pairs."""
    d = defaults(lang)
    if lang == "c":
        k1 = dict(
            d,
            target_endianness="little",
            omit_float_serialization_support=True,
            enable_serialization_asserts=True,
            enable_override_variable_array_capacity=True,
            cast_format=C_VALUES["cast_format"][1],
            std="c11",
        )
        return [("defaults", d), ("all-non-default", k1)]
    groups = properties()["nunavut.lang.cpp"]["defaults"]
    pmr = dict(
        d,
        **groups["c++17-pmr"],
        target_endianness="little",
        omit_float_serialization_support=True,
        enable_serialization_asserts=True,
        enable_override_variable_array_capacity=True,
        cast_format=CPP_VALUES["cast_format"][1],
    )
    lead = dict(
        d,
        std="c++20",
        target_endianness="big",
        enable_serialization_asserts=True,
        cast_format=CPP_VALUES["cast_format"][2],
        variable_array_type_include=VEC_MY,
        variable_array_type_template=T_MY_A,
        variable_array_type_constructor_args="{MAX_SIZE}",
        allocator_include=AL_MY,
        allocator_type=AT_MY,
        allocator_is_default_constructible=False,
        ctor_convention=CTOR_L,
    )
    cetl = dict(d, **groups["cetl++14-17"], target_endianness="big", enable_override_variable_array_capacity=True)
    return [("defaults", d), ("pmr-written-out", pmr), ("leading-allocator", lead), ("cetl-written-out", cetl)]


def generatable(lang: str, o: dict) -> bool:
    """Model of cpp Language._validate_language_options: the combinations the generator documents as invalid."""
    if lang == "cpp":
        if o.get("ctor_convention", CTOR_D) != CTOR_D and not o.get("allocator_type"):
            return False
    return True


def spec(lang: str, opts: dict, via: str = "cli") -> dict:
    """One way of *spelling* an option set: explicit overrides + how they are handed to nnvg."""
    return {"lang": lang, "opts": {k: v for k, v in sorted(opts.items()) if v is not ABSENT}, "via": via}


def spec_key(s: dict) -> str:
    return core.jhash(s)


def nnvg_args(s: dict, cfg_path: pathlib.Path) -> typing.Tuple[typing.List[str], typing.List[str], typing.Optional[str]]:
    """-> (arguments before the positional, arguments after it, YAML text or None)"""
    import yaml

    lang, opts, via = s["lang"], dict(s["opts"]), s["via"]
    pre = ["--target-language", lang]
    if lang == "cpp":
        pre.append("--experimental-languages")
    if via == "cli":
        if "target_endianness" in opts:
            pre += ["--target-endianness", opts.pop("target_endianness")]
        for b in BOOLS:
            # the flag can only say "true"; absent flag = built-in default (false) unless a YAML file says otherwise
            if b in opts and opts[b] is True:
                pre.append("--" + b.replace("_", "-"))
                opts.pop(b)
            elif b in opts and opts[b] is False:
                opts.pop(b)
        if opts.get("std") in CLI_STD[lang]:
            pre += ["--language-standard", opts.pop("std")]
    post: typing.List[str] = []
    text = None
    if opts:
        text = yaml.safe_dump({"nunavut.lang." + lang: {"options": opts}}, default_flow_style=False)
        post = ["--configuration", str(cfg_path)]
    return pre, post, text


# --------------------------------------------------------------------------------------------------------------------
# DSDL type sets (structured, JSON-able) and the known, guard-unrelated limits of the generated C++
# --------------------------------------------------------------------------------------------------------------------
FLOATS = ("float16", "float32", "float64")
PRIMS = ["uint8", "int16", "uint32", "int64", "bool", "uint7", "int3", "uint64", "uint16"]


def F(t, a=""):
    return {"t": t, "a": a}


FIXED_TYPESET = {
    "id": "fixed",
    "types": [
        {"name": "Inner", "kind": "struct", "fields": [F("uint8"), F("int16")]},
        {
            "name": "Outer",
            "kind": "struct",
            "extent": 64,
            "fields": [F("@Inner"), F("uint8", "[<=5]"), F("@Inner", "[<=2]"), F("bool")],
        },
        {"name": "U", "kind": "union", "fields": [F("uint8"), F("@Inner"), F("uint16", "[<=3]")]},
        {"name": "V", "kind": "union", "fields": [F("uint8"), F("uint16", "[<=3]"), F("int8", "[2]")]},
        {"name": "Flat", "kind": "struct", "fields": [F("uint8", "[<=5]"), F("int32", "[3]"), F("bool"), F("uint7")]},
        {"name": "Svc", "kind": "service", "fields": [F("uint8")], "resp": [F("uint8", "[<=4]")]},
    ],
}
# single-type sets of unusual shape: EVERY type header has to carry the guard, also one with nothing in it
EMPTY_TYPESET = {"id": "only-empty", "types": [{"name": "Nothing", "kind": "struct", "fields": []}]}
PADDING_TYPESET = {"id": "only-padding", "types": [{"name": "Pad", "kind": "struct", "fields": [F("void8")]}]}
EMPTYSVC_TYPESET = {"id": "only-empty-service", "types": [{"name": "Ping", "kind": "service", "fields": [], "resp": []}]}
FLOAT_TYPESET = {
    "id": "floats",
    "types": [
        {"name": "Fl", "kind": "struct", "fields": [F("float32"), F("float64", "[<=3]"), F("float16")]},
        {"name": "FlOuter", "kind": "struct", "fields": [F("@Fl"), F("uint8", "[<=2]"), F("float64", "[2]")]},
        {"name": "Plain", "kind": "struct", "fields": [F("uint8"), F("uint16", "[<=3]")]},
    ],
}


@st.composite
def typeset_strategy(draw, floats: bool = False):
    def prim():
        pool = PRIMS + (list(FLOATS) * 2 if floats else [])
        return draw(st.sampled_from(pool))

    def prim_field():
        a = draw(st.sampled_from(["", "", "[%d]" % draw(st.integers(1, 4)), "[<=%d]" % draw(st.integers(1, 6))]))
        return F(prim(), a)

    types = [{"name": "T0", "kind": "struct", "fields": [prim_field() for _ in range(draw(st.integers(1, 3)))]}]
    # by construction: one type with a nested composite and a variable-length array
    t1 = [F("@T0"), F(prim(), "[<=%d]" % draw(st.integers(1, 6)))] + [prim_field() for _ in range(draw(st.integers(0, 2)))]
    types.append({"name": "T1", "kind": "struct", "fields": draw(st.permutations(t1))})
    for i in range(2, 2 + draw(st.integers(0, 2))):
        kind = draw(st.sampled_from(["struct", "union", "union", "service"]))
        fields = []
        for _ in range(draw(st.integers(2, 4))):
            c = draw(st.integers(0, 5))
            if c == 0:
                fields.append(F("@T0"))
            elif c == 1:
                fields.append(F("@T0", "[<=%d]" % draw(st.integers(1, 3))))
            else:
                fields.append(prim_field())
        t = {"name": "T%d" % i, "kind": kind, "fields": fields}
        if kind == "service":
            t["resp"] = [prim_field() for _ in range(draw(st.integers(1, 2)))]
        if kind == "struct" and draw(st.booleans()):
            t["extent"] = 128
        types.append(t)
    if floats and not any(f["t"] in FLOATS for t in types for f in t["fields"] + t.get("resp", [])):
        types[0]["fields"].append(F("float32"))
    return {"types": types}


def render_dsdl(ts: dict) -> typing.Dict[str, str]:
    out = {}
    for t in ts["types"]:

        def body(fields, union, extent):
            lines = ["@union"] if union else []
            for i, f in enumerate(fields):
                ty = f["t"][1:] + ".1.0" if f["t"].startswith("@") else f["t"]
                lines.append(ty if ty.startswith("void") else f"{ty}{f['a']} f{i}")
            lines.append(f"@extent {extent} * 8" if extent else "@sealed")
            return "\n".join(lines) + "\n"

        text = body(t["fields"], t["kind"] == "union", t.get("extent"))
        if t["kind"] == "service":
            text += "---\n" + body(t["resp"], False, None)
        out[f"{NS}/{SUB}/{t['name']}.1.0.dsdl"] = text
    return out


def type_traits(ts: dict) -> typing.Dict[str, typing.Set[str]]:
    """Per type, over its transitive closure: float / union / nested composite field / array of composites."""
    own: typing.Dict[str, typing.Set[str]] = {}
    deps: typing.Dict[str, typing.Set[str]] = {}
    for t in ts["types"]:
        tr: typing.Set[str] = set()
        dp: typing.Set[str] = set()
        if t["kind"] == "union":
            tr.add("union")
        for f in t["fields"] + t.get("resp", []):
            if f["t"] in FLOATS:
                tr.add("float")
            if f["t"].startswith("@"):
                dp.add(f["t"][1:])
                if f["a"].startswith("[<"):
                    tr.add("vla_of_composite")
                elif t["kind"] != "union":
                    tr.add("nested_field")
        own[t["name"]], deps[t["name"]] = tr, dp
    out = {}
    for name in own:
        seen, todo = set(), [name]
        while todo:
            n = todo.pop()
            if n not in seen:
                seen.add(n)
                todo += sorted(deps[n])
        out[name] = set().union(*(own[n] for n in seen))
    return out


def compatible(lang: str, eff: dict, traits: typing.Set[str]) -> bool:
    """
    Can the type headers generated with `eff` be compiled at all (with their own support header)?  These limits have
    nothing to do with the option guard; each was observed on the unchanged tree with *identical* option sets:
      - omit_float_serialization_support with a float field: documented to fail;
      - uses-leading-allocator: nested composite fields are initialised with {std::allocator_arg, allocator} but composite
        types only have trailing-allocator constructors;
      - allocator not default-constructible + allocator-aware constructors: unions default-construct their first option;
        `{MAX_SIZE}` constructor arguments of a std::vector-like container default-construct composite elements.
    """
    if "float" in traits and eff.get("omit_float_serialization_support"):
        return False
    if lang == "c":
        return True
    ctor = eff.get("ctor_convention", CTOR_D)
    adc = eff.get("allocator_is_default_constructible", True)
    if ctor == CTOR_L and "nested_field" in traits:
        return False
    if ctor != CTOR_D and not adc:
        if "union" in traits:
            return False
        if (
            "vla_of_composite" in traits
            and eff.get("variable_array_type_constructor_args")
            and "cetl::" not in str(eff.get("variable_array_type_template"))
        ):
            return False
    return True


# --------------------------------------------------------------------------------------------------------------------
# valid (self-compiling) random option sets
# --------------------------------------------------------------------------------------------------------------------
@st.composite
def valid_options(draw, lang: str):
    vals = VALUES[lang]
    o = defaults(lang)
    for k in ["target_endianness", "cast_format"] + BOOLS:
        o[k] = draw(st.sampled_from(vals[k]))
    if lang == "c":
        o["std"] = draw(st.sampled_from(vals["std"]))
        return o
    o["std"] = draw(st.sampled_from(vals["std"]))
    o["std_flavor"] = draw(st.sampled_from(vals["std_flavor"]))
    o["allocator_is_default_constructible"] = draw(st.booleans())
    o["variable_array_type_constructor_args"] = draw(st.sampled_from(["", "{MAX_SIZE}"]))
    fam = draw(st.sampled_from(["plain", "plain-my", "trailing", "leading", "cetl"]))
    pmr_ok = o["std"] != "c++14"
    if fam in ("plain", "plain-my"):
        o["ctor_convention"] = CTOR_D
        if fam == "plain":
            o["variable_array_type_template"] = T_STD
            o["variable_array_type_include"] = draw(st.sampled_from([VEC_STD, VEC_MY, VEC_CETL]))
        else:
            o["variable_array_type_template"] = T_MY
            o["variable_array_type_include"] = VEC_MY
        # an allocator that no constructor uses
        pick = draw(st.sampled_from([(AL_NONE, AT_NONE), (AL_MY, AT_MY), (AL_NONE, AT_MY), (AL_CETL, AT_CETL)] + ([(AL_PMR, AT_PMR)] if pmr_ok else [])))
        o["allocator_include"], o["allocator_type"] = pick
    elif fam in ("trailing", "leading"):
        o["ctor_convention"] = CTOR_T if fam == "trailing" else CTOR_L
        if fam == "trailing" and draw(st.booleans()):
            o["variable_array_type_template"] = T_STD_A
            o["variable_array_type_include"] = draw(st.sampled_from([VEC_STD, VEC_MY]))
        else:
            o["variable_array_type_template"] = T_MY_A
            o["variable_array_type_include"] = VEC_MY
        pick = draw(st.sampled_from([(AL_MY, AT_MY), (AL_CETL, AT_CETL)] + ([(AL_PMR, AT_PMR)] if pmr_ok else [])))
        o["allocator_include"], o["allocator_type"] = pick
        if o["allocator_type"] != AT_MY:
            o["allocator_is_default_constructible"] = o["allocator_type"] == AT_PMR
    else:
        g = properties()["nunavut.lang.cpp"]["defaults"]["cetl++14-17"]
        keep_std = o["std"]
        o.update(g)
        o["std"] = keep_std
        o["variable_array_type_constructor_args"] = draw(st.sampled_from(["", "{MAX_SIZE}"]))
    return o


@st.composite
def random_pair(draw, lang: str):
    """A valid set A and a B that differs from it in 2..5 explicitly chosen options."""
    a = draw(valid_options(lang))
    vals = VALUES[lang]
    keys = draw(st.lists(st.sampled_from(sorted(vals)), min_size=2, max_size=5, unique=True))
    b = dict(a)
    for k in keys:
        b[k] = draw(st.sampled_from([v for v in vals[k] if v != a[k]]))
    if not generatable(lang, b):
        b["allocator_type"] = draw(st.sampled_from([AT_MY, AT_PMR, AT_CETL]))
        if b == a:
            b["allocator_is_default_constructible"] = not a["allocator_is_default_constructible"]
    return {
        "lang": lang,
        "A": spec(lang, a, draw(st.sampled_from(["cli", "yaml"]))),
        "B": spec(lang, b, draw(st.sampled_from(["cli", "yaml"]))),
    }


@st.composite
def random_identical(draw, lang: str):
    a = draw(valid_options(lang))
    return {
        "lang": lang,
        "A": spec(lang, a, draw(st.sampled_from(["cli", "yaml"]))),
        "B": spec(lang, a, draw(st.sampled_from(["cli", "yaml"]))),
    }


def draw_cases(strategy, n: int, seed: int) -> list:
    """Hypothesis as the only source of randomness; the cases are executed later, in parallel."""
    import hypothesis
    from hypothesis import given

    out: list = []

    @hypothesis.seed(seed)
    @core.hsettings(n)
    @given(strategy)
    def collect(c):
        out.append(c)

    collect()
    # Hypothesis may repeat examples; keep first occurrences, stable order
    seen, uniq = set(), []
    for c in out:
        h = core.jhash(c)
        if h not in seen:
            seen.add(h)
            uniq.append(c)
    return uniq


# --------------------------------------------------------------------------------------------------------------------
# stand-ins for headers that the option values refer to (written into the scratch tree, on the include path of every TU)
# --------------------------------------------------------------------------------------------------------------------
_ALLOC_BODY = """
template <typename T{DEFAULT}>
class {NAME}
{{
public:
    using value_type = T;
    {CTOR}
    template <typename U> {NAME}(const {NAME}<U>& o) noexcept : resource_(o.resource()) {{}}
    T* allocate(std::size_t n) {{ return static_cast<T*>(::operator new(n * sizeof(T))); }}
    void deallocate(T* p, std::size_t) noexcept {{ ::operator delete(p); }}
    void* resource() const noexcept {{ return resource_; }}
    template <typename U> bool operator==(const {NAME}<U>& o) const noexcept {{ return resource_ == o.resource(); }}
    template <typename U> bool operator!=(const {NAME}<U>& o) const noexcept {{ return resource_ != o.resource(); }}
private:
    void* resource_;
}};
"""

_VEC_BODY = """
template <typename T, typename A{DEFAULT}>
class {NAME} : public std::vector<T, A>
{{
    using base = std::vector<T, A>;
public:
    {CTORS}
    {NAME}(const {NAME}&) = default;
    {NAME}({NAME}&&) = default;
    {NAME}& operator=(const {NAME}&) = default;
    {NAME}& operator=({NAME}&&) = default;
}};
"""

STUBS = {
    "my/alloc.hpp": "#pragma once\n#include <cstddef>\n#include <new>\nnamespace my {\n"
    + _ALLOC_BODY.format(NAME="alloc", DEFAULT="", CTOR="alloc() noexcept : resource_(nullptr) {}")
    + "}\n",
    "my/vec.hpp": "#pragma once\n#include <cstddef>\n#include <memory>\n#include <utility>\n#include <vector>\nnamespace my {\n"
    + _VEC_BODY.format(
        NAME="vec",
        DEFAULT=" = std::allocator<T>",
        CTORS="using base::base;\n    vec() = default;\n"
        "    template <typename... Args> vec(std::allocator_arg_t, const A& a, Args&&... args)"
        " : base(std::forward<Args>(args)..., a) {}",
    )
    + "}\n",
    # CETL itself is not available in this sandbox (empty submodule): minimal API stand-ins, sufficient for -fsyntax-only
    "cetl/pf17/sys/memory_resource.hpp": "#pragma once\n#include <cstddef>\n#include <new>\n"
    "namespace cetl { namespace pf17 { namespace pmr {\n"
    + _ALLOC_BODY.format(
        NAME="polymorphic_allocator",
        DEFAULT=" = unsigned char",
        CTOR="explicit polymorphic_allocator(void* resource) noexcept : resource_(resource) {}",
    )
    + "}}}\n",
    "cetl/variable_length_array.hpp": "#pragma once\n#include <cstddef>\n#include <memory>\n#include <utility>\n#include <vector>\n"
    "namespace cetl {\n"
    + _VEC_BODY.format(
        NAME="VariableLengthArray",
        DEFAULT="",
        CTORS="explicit VariableLengthArray(const A& a) : base(a) {}\n"
        "    VariableLengthArray(std::size_t, const A& a) : base(a) {}\n"
        "    VariableLengthArray(const VariableLengthArray& o, const A& a) : base(o, a) {}\n"
        "    VariableLengthArray(VariableLengthArray&& o, const A& a) : base(std::move(o), a) {}\n"
        "    VariableLengthArray(const VariableLengthArray& o, std::size_t, const A& a) : base(o, a) {}\n"
        "    VariableLengthArray(VariableLengthArray&& o, std::size_t, const A& a) : base(std::move(o), a) {}",
    )
    + "}\n",
}


# --------------------------------------------------------------------------------------------------------------------
# generation (multiprocessing: the in-process CLI swaps sys.argv / stdout) and compilation (threads around subprocesses)
# --------------------------------------------------------------------------------------------------------------------
def _unwrap(v):
    return getattr(v, "value", v) if type(v).__name__ == "DefaultValue" else v


def _gen_job(job: dict) -> dict:
    """kind = eff | support | types.  Runs in a worker process."""
    import yaml

    s = job["spec"]
    base = pathlib.Path(job["dir"])
    base.mkdir(parents=True, exist_ok=True)
    # one configuration file per job: several jobs of the same option set run concurrently
    cfg = base / ("cfg-" + (pathlib.Path(job["out"]).name if job.get("out") else "eff") + ".yaml")
    pre, post, text = nnvg_args(s, cfg)
    if text is not None:
        cfg.write_text(text)
    runner = tool.run_sub if job.get("sub") else tool.run_inproc
    if job["kind"] == "eff":
        rc, out, err = runner(pre + ["--list-configuration", job["ns"]] + post)
        if rc != 0:
            return {"job": job, "rc": rc, "err": err[-1500:]}
        doc = yaml.unsafe_load(out.split("\n", 1)[1])
        eff = {k: _unwrap(v) for k, v in doc["nunavut.lang." + s["lang"]]["options"].items()}
        return {"job": job, "rc": 0, "eff": eff}
    out_dir = pathlib.Path(job["out"])
    mode = "only" if job["kind"] == "support" else "never"
    rc, out, err = runner(pre + ["--outdir", str(out_dir), "--generate-support", mode, job["ns"]] + post)
    return {"job": job, "rc": rc, "err": err[-1500:]}


def std_flag(lang: str, ea: dict, eb: dict) -> str:
    if lang == "c":
        return "-std=c11"
    n = 14
    for e in (ea, eb):
        m = re.search(r"\+\+(\d+)", str(e.get("std", "")))
        if m:
            n = max(n, int(m.group(1)))
    return "-std=c++%d" % n


def compile_tu(lang: str, compiler: str, std: str, tu: pathlib.Path, incs: typing.List[str]) -> typing.Tuple[int, str]:
    exe = {("c", "gcc"): "gcc", ("cpp", "gcc"): "g++", ("c", "clang"): "clang", ("cpp", "clang"): "clang++"}[(lang, compiler)]
    cmd = [exe, std, "-fsyntax-only", "-w", "-DNUNAVUT_ASSERT(x)=assert(x)"]
    if lang == "cpp":
        cmd += ["-include", "cassert"]
    # no source excerpts in the diagnostics, no limit on the number of errors (the guard must be reached)
    cmd += ["-fno-diagnostics-show-caret", "-fmax-errors=0"] if compiler == "gcc" else ["-fno-caret-diagnostics", "-ferror-limit=0"]
    for i in incs:
        cmd += ["-I", i]
    cmd.append(str(tu))
    p = subprocess.run(cmd, capture_output=True, text=True, env=dict(os.environ, LC_ALL="C", LANG="C"), timeout=600)
    if p.returncode not in (0, 1) or re.search(r"unknown argument|unrecognized command.line option|no such file or directory: '|cannot execute", p.stderr):
        raise core.HarnessError(f"{exe} could not be run properly (rc={p.returncode}): {p.stderr[-800:]}")
    return p.returncode, p.stderr


class Lab:
    def __init__(self):
        self.root = pathlib.Path(tempfile.mkdtemp(prefix="vf-c17-"))
        for rel, text in STUBS.items():
            p = self.root / "stubs" / rel
            p.parent.mkdir(parents=True, exist_ok=True)
            p.write_text(text)
        self.typesets: typing.Dict[str, dict] = {}
        self.eff: typing.Dict[str, dict] = {}
        self.specs: typing.Dict[str, dict] = {}
        self.done: typing.Set[str] = set()
        self.pool = None

    def close(self):
        if self.pool is not None:
            self.pool.terminate()
            self.pool.join()
        shutil.rmtree(self.root, ignore_errors=True)

    # ------------------------------------------------------------------ type sets
    def add_typeset(self, ts: dict) -> str:
        tid = ts.get("id") or "g" + core.jhash(ts["types"])
        if tid not in self.typesets:
            d = self.root / "ns" / tid
            for rel, text in render_dsdl(ts).items():
                p = d / rel
                p.parent.mkdir(parents=True, exist_ok=True)
                p.write_text(text)
            self.typesets[tid] = dict(ts, id=tid, traits={k: sorted(v) for k, v in type_traits(ts).items()})
        return tid

    def ns_dir(self, tid: str) -> str:
        return str(self.root / "ns" / tid / NS)

    # ------------------------------------------------------------------ generation
    def spec_dir(self, s: dict) -> pathlib.Path:
        return self.root / "gen" / spec_key(s)

    def _run_jobs(self, jobs: typing.List[dict]) -> typing.List[dict]:
        if not jobs:
            return []
        if self.pool is None:
            self.pool = multiprocessing.get_context("fork").Pool(JOBS)
        return self.pool.map(_gen_job, jobs, chunksize=1)

    def effective(self, specs: typing.Iterable[dict]):
        jobs = []
        for s in specs:
            k = spec_key(s)
            if k not in self.eff and k not in self.specs:
                self.specs[k] = s
                jobs.append({"kind": "eff", "spec": s, "dir": str(self.spec_dir(s)), "ns": self.ns_dir("fixed")})
        for r in self._run_jobs(jobs):
            if r["rc"] != 0:
                raise core.HarnessError(f"nnvg --list-configuration failed for {r['job']['spec']!r}: {r['err']}")
            self.eff[spec_key(r["job"]["spec"])] = r["eff"]

    def generate(self, wanted: typing.Iterable[typing.Tuple[dict, str, typing.Optional[str]]], sub: bool = False):
        """wanted: (spec, 'support', None) | (spec, 'types', typeset id)"""
        jobs, keys = [], set()
        for s, kind, tid in wanted:
            out = self.spec_dir(s) / ("support" if kind == "support" else "types-" + str(tid))
            if sub:
                out = pathlib.Path(str(out) + "-sub")
            if str(out) in self.done or str(out) in keys:
                continue
            keys.add(str(out))
            jobs.append(
                {"kind": kind, "spec": s, "dir": str(self.spec_dir(s)), "out": str(out), "ns": self.ns_dir(tid or "fixed"), "sub": sub}
            )
        for r in self._run_jobs(jobs):
            if r["rc"] != 0:
                raise core.HarnessError(f"nnvg failed (rc={r['rc']}) for {r['job']['spec']!r} [{r['job']['kind']}]: {r['err']}")
            self.done.add(r["job"]["out"])
        return len(jobs)

    # ------------------------------------------------------------------ one compile
    def headers_for(self, lang: str, tid: str, ea: dict, eb: dict) -> typing.List[str]:
        ts = self.typesets[tid]
        ext = ".h" if lang == "c" else ".hpp"
        both_float = not ea.get("omit_float_serialization_support") and not eb.get("omit_float_serialization_support")
        out = []
        for t in ts["types"]:
            tr = set(ts["traits"][t["name"]])
            if "float" in tr and not both_float:
                continue
            if compatible(lang, ea, tr):
                out.append(f"{NS}/{SUB}/{t['name']}_1_0{ext}")
        return out

    def compile_pair(self, a: dict, b: dict, tid: str, compiler: str, uid: int = 0):
        lang = a["lang"]
        ea, eb = self.eff[spec_key(a)], self.eff[spec_key(b)]
        hdrs = self.headers_for(lang, tid, ea, eb)
        if not hdrs:
            return None
        tdir = self.spec_dir(a) / ("types-" + tid)
        sdir = self.spec_dir(b) / "support"
        # one TU file per compile job (jobs run concurrently; the same pair may occur more than once)
        tu = self.root / "tu" / f"{uid}-{compiler}-{spec_key(a)}-{spec_key(b)}-{tid}.{'c' if lang == 'c' else 'cpp'}"
        tu.parent.mkdir(parents=True, exist_ok=True)
        text = "".join(f'#include "{h}"\n' for h in hdrs)
        tu.write_text(text)
        if tu.read_text() != text:
            raise core.HarnessError(f"translation unit {tu} was not written completely")
        rc, err = compile_tu(lang, compiler, std_flag(lang, ea, eb), tu, [str(tdir), str(sdir), str(self.root / "stubs")])
        return {"rc": rc, "stderr": err, "headers": hdrs, "tdir": str(tdir)}


# --------------------------------------------------------------------------------------------------------------------
# oracle
# --------------------------------------------------------------------------------------------------------------------
_DIAG = re.compile(r"^(?P<file>[^\s:][^:\n]*):(?P<line>\d+):(?:(?P<col>\d+):)? (?:fatal )?error: (?P<msg>.*)$", re.M)
_SA = re.compile(r"static assertion failed|static_assert failed|static assertion failed due to requirement")


def option_diff(ea: dict, eb: dict) -> typing.List[str]:
    missing = object()
    return sorted(k for k in set(ea) | set(eb) if ea.get(k, missing) != eb.get(k, missing) or type(ea.get(k)) is not type(eb.get(k)))


def names_option(stmt: str, key: str) -> bool:
    """Does the asserted expression refer to the option (NUNAVUT_SUPPORT_LANGUAGE_OPTION_<KEY> / options::<key>)?"""
    pat = r"(?i)(?:NUNAVUT_SUPPORT_LANGUAGE_OPTION_|options\s*::\s*_?)" + re.escape(re.sub(r"[^A-Za-z0-9_]", "_", key)) + r"(?![A-Za-z0-9_])"
    return re.search(pat, stmt) is not None


def statement_at(path: str, line: int, cache: dict) -> str:
    if path not in cache:
        try:
            cache[path] = pathlib.Path(path).read_text().splitlines()
        except OSError:
            cache[path] = []
    lines = cache[path]
    i = max(0, min(line - 1, len(lines) - 1))
    start = i
    while start > 0 and "static_assert" not in lines[start] and i - start < 6:
        start -= 1
    end = i
    while end < len(lines) - 1 and ");" not in lines[end] and end - i < 8:
        end += 1
    return "\n".join(lines[start : end + 1])


def normalise_error(msg: str) -> str:
    msg = re.sub(r"'[^']*'|\"[^\"]*\"", "<q>", msg)
    msg = re.sub(r"\d+", "N", msg)
    return msg[:70]


def evaluate(lang: str, ea: dict, eb: dict, res: dict, what_pair: str) -> typing.List[typing.Tuple[str, str]]:
    """The oracle for one compiled TU -> [(signature, what)]."""
    diff = option_diff(ea, eb)
    rc, err, hdrs, tdir = res["rc"], res["stderr"], res["headers"], res["tdir"]
    diags = [m.groupdict() for m in _DIAG.finditer(err)]
    cache: dict = {}
    guard = []  # (header file, statement text) of every failing language-option assertion
    for d in diags:
        if _SA.search(d["msg"]) and GUARD_SENTENCE in d["msg"]:
            guard.append((os.path.normpath(d["file"]), statement_at(d["file"], int(d["line"]), cache)))
    keys = sorted(set(ea) | set(eb))
    out = []
    first = next((d["msg"] for d in diags), err.strip().splitlines()[0] if err.strip() else "")
    tail = f"{what_pair}; TU includes {hdrs}; first diagnostics: " + " | ".join(d["msg"][:160] for d in diags[:3])
    if not diff:
        if rc != 0:
            if guard:
                named = sorted({k for _, st_ in guard for k in keys if names_option(st_, k)})
                for k in named or ["?"]:
                    out.append((f"{lang}|identical-fails|guard-assertion:{k}", "identical option sets rejected by the option guard: " + tail))
            elif re.search(r"NUNAVUT_SUPPORT_LANGUAGE_OPTION|support::options|namespace 'options'|options::", err):
                out.append((f"{lang}|identical-fails|guard-symbol-missing", "identical option sets do not compile (guard symbol): " + tail))
            else:
                out.append((f"{lang}|identical-fails|other:{normalise_error(first)}", "identical option sets do not compile: " + tail))
        return out
    # one signature per undetected option (a multi-option difference that slips through implicates each of them)
    if rc == 0:
        for k in diff:
            out.append((f"{lang}|mismatch-compiles|{k}", f"option sets differ in {diff} but the TU compiles: " + tail))
        return out
    fired_in = {f for f, _ in guard}
    silent = [h for h in hdrs if os.path.normpath(os.path.join(tdir, h)) not in fired_in]
    if silent:
        for k in diff:
            out.append(
                (
                    f"{lang}|mismatch-rejected-without-assert-message|{k}",
                    f"option sets differ in {diff}; the build fails but no static assertion with the 'different language "
                    f"options' message fires in {silent}: " + tail,
                )
            )
    for k in diff:
        # naming is only possible for an option that both sides know (the asserted expression compares the two values)
        if k in ea and k in eb:
            lacking = [
                h
                for h in hdrs
                if h not in silent
                and not any(f == os.path.normpath(os.path.join(tdir, h)) and names_option(st_, k) for f, st_ in guard)
            ]
            if lacking:
                out.append(
                    (
                        f"{lang}|mismatch-option-not-named|{k}",
                        f"differing option {k!r} is not named by any failing assertion in {lacking}: " + tail,
                    )
                )
    for k in keys:
        if k not in diff and any(names_option(s, k) for _, s in guard):
            out.append((f"{lang}|assert-names-equal-option|{k}", f"a failing assertion names {k!r}, which is equal on both sides: " + tail))
    return out


# --------------------------------------------------------------------------------------------------------------------
# pair enumeration
# --------------------------------------------------------------------------------------------------------------------
def single_difference_pairs(lang: str, ctx_names: typing.Optional[typing.Set[str]] = None):
    """Every option x every ordered pair of its values, inside every context where both sides can be generated."""
    pairs = []
    covered = set()
    for cname, c in contexts(lang):
        if ctx_names is not None and cname not in ctx_names:
            continue
        for opt, vals in sorted(VALUES[lang].items()):
            for v1 in vals:
                for v2 in vals:
                    if v1 == v2:
                        continue
                    a, b = dict(c), dict(c)
                    a[opt], b[opt] = v1, v2
                    if not (generatable(lang, a) and generatable(lang, b)):
                        continue
                    covered.add((opt, json.dumps(v1), json.dumps(v2)))
                    pairs.append({"lang": lang, "A": spec(lang, a), "B": spec(lang, b), "cls": "single", "opt": opt, "context": cname})
    wanted = {(o, json.dumps(v1), json.dumps(v2)) for o, vs in VALUES[lang].items() for v1 in vs for v2 in vs if v1 != v2}
    return pairs, sorted(wanted - covered)


def crossed_difference_pairs(lang: str, quick: bool):
    """
    Two options differ, one on each side: A changes option o1 and keeps o2, B keeps o1 and changes o2 (both ordered ways, from
    the defaults).  A comparison that aggregates the options (a sum, a checksum, an "any differs" flag computed the wrong way)
    can let such differences cancel although every single difference is still caught.
    """
    d = defaults(lang)
    opts = sorted(VALUES[lang])
    if quick:  # the cheap classes: every pair of on/off options, and on/off x endianness
        opts = [o for o in opts if VALUES[lang][o] in ([False, True], [True, False]) or o == "target_endianness"]
    pairs = []
    for i, o1 in enumerate(opts):
        for o2 in opts[i + 1 :]:
            for v1 in [v for v in VALUES[lang][o1] if v != d.get(o1, ABSENT)][: 1 if quick else 2]:
                for v2 in [v for v in VALUES[lang][o2] if v != d.get(o2, ABSENT)][: 1 if quick else 2]:
                    a, b = dict(d), dict(d)
                    a[o1], b[o2] = v1, v2
                    if generatable(lang, a) and generatable(lang, b):
                        pairs.append({"lang": lang, "A": spec(lang, a), "B": spec(lang, b), "cls": "crossed", "opt": f"{o1}+{o2}"})
                        pairs.append({"lang": lang, "A": spec(lang, b), "B": spec(lang, a), "cls": "crossed", "opt": f"{o2}+{o1}"})
    return pairs


def spelling_pairs(lang: str):
    pairs = []
    if lang != "cpp":
        return pairs
    for s1 in STD_SPELLINGS:
        for s2 in STD_SPELLINGS:
            if s1 != s2:
                pairs.append({"lang": lang, "A": spec(lang, {"std": s1}), "B": spec(lang, {"std": s2}, "yaml"), "cls": "std-spelling"})
    return pairs


def identical_pairs(lang: str):
    pairs = []
    for cname, c in contexts(lang):
        pairs.append({"lang": lang, "A": spec(lang, c, "cli"), "B": spec(lang, c, "cli"), "cls": "identical"})
        pairs.append({"lang": lang, "A": spec(lang, c, "cli"), "B": spec(lang, c, "yaml"), "cls": "identical-cross-spelling"})
        pairs.append({"lang": lang, "A": spec(lang, c, "yaml"), "B": spec(lang, c, "cli"), "cls": "identical-cross-spelling"})
    # nothing said at all == the defaults written out
    d = defaults(lang)
    pairs.append({"lang": lang, "A": spec(lang, {}), "B": spec(lang, d, "yaml"), "cls": "identical-cross-spelling"})
    pairs.append({"lang": lang, "A": spec(lang, d, "yaml"), "B": spec(lang, {}), "cls": "identical-cross-spelling"})
    if lang == "cpp":
        groups = properties()["nunavut.lang.cpp"]["defaults"]
        for g in ("c++17-pmr", "cetl++14-17"):
            full = dict(d, **groups[g])
            for via in ("cli", "yaml"):
                pairs.append({"lang": lang, "A": spec(lang, {"std": g}, via), "B": spec(lang, full, "yaml"), "cls": "identical-cross-spelling"})
                pairs.append({"lang": lang, "A": spec(lang, full, "yaml"), "B": spec(lang, {"std": g}, via), "cls": "identical-cross-spelling"})
            pairs.append({"lang": lang, "A": spec(lang, {"std": g}, "cli"), "B": spec(lang, {"std": g}, "yaml"), "cls": "identical-cross-spelling"})
        # every value of every option once on both sides (single options away from the defaults)
    for opt, vals in sorted(VALUES[lang].items()):
        for v in vals:
            o = dict(d)
            o[opt] = v
            if generatable(lang, o) and self_compiling(lang, o):
                pairs.append({"lang": lang, "A": spec(lang, o, "cli"), "B": spec(lang, o, "yaml"), "cls": "identical"})
    return pairs


def self_compiling(lang: str, o: dict) -> bool:
    """Curated: is the assignment internally consistent C++ (container/allocator names match their includes, ...)?"""
    if lang == "c":
        return True
    tpl, inc = o["variable_array_type_template"], o["variable_array_type_include"]
    ctor = o["ctor_convention"]
    if "my::vec" in tpl and inc != VEC_MY:
        return False
    if "cetl::" in tpl and inc != VEC_CETL:
        return False
    if ("REBIND_ALLOCATOR" in tpl) != (ctor != CTOR_D):
        return False
    if ctor == CTOR_L and "my::vec" not in tpl:
        return False
    if o["allocator_include"] == AL_PMR and o["std"] == "c++14" and ctor != CTOR_D:
        return False
    if ctor != CTOR_D:
        need = {AT_MY: AL_MY, AT_PMR: AL_PMR, AT_CETL: AL_CETL}.get(o["allocator_type"])
        if need is None or o["allocator_include"] != need:
            return False
        if o["allocator_type"] == AT_CETL and o["allocator_is_default_constructible"]:
            return False
    return True


# --------------------------------------------------------------------------------------------------------------------
# driver
# --------------------------------------------------------------------------------------------------------------------
def run_pairs(ctx: core.Ctx, lab: Lab, pairs: typing.List[dict], compilers: typing.List[str]):
    """pairs: {lang, A, B, cls, typesets:[ids]}.  Generates what is missing, compiles in parallel, applies the oracle."""
    import time

    t0 = time.time()
    lab.effective([p["A"] for p in pairs] + [p["B"] for p in pairs])
    wanted = []
    for p in pairs:
        wanted.append((p["B"], "support", None))
        for tid in p["typesets"]:
            wanted.append((p["A"], "types", tid))
    n_gen = lab.generate(wanted)
    t1 = time.time()
    jobs = [(p, tid, comp) for p in pairs for tid in p["typesets"] for comp in compilers]

    def work(ij):
        i, (p, tid, comp) = ij
        return lab.compile_pair(p["A"], p["B"], tid, comp, uid=i)

    with ThreadPoolExecutor(JOBS) as ex:
        results = list(ex.map(work, enumerate(jobs)))
    # informational only (never a verdict)
    ctx.extra["phases"] = {"nnvg_runs": n_gen, "generate_s": round(t1 - t0, 1), "compiles": len(jobs), "compile_s": round(time.time() - t1, 1)}
    failures = []
    # The option sets compared below are the ones the tree itself reports (--list-configuration).  They are not trusted
    # blindly: a value that a spec requests EXPLICITLY must be the value in effect (the language-standard shorthands, which
    # are documented to expand, excepted) -- otherwise two different requests could collapse into one "identical" pair and
    # be expected to compile together (seeded change C17-C: C `target_endianness: big` silently rewritten to `any`).
    seen_specs = set()
    for p in pairs:
        for side in ("A", "B"):
            sp = p[side]
            k = spec_key(sp)
            if k in seen_specs:
                continue
            seen_specs.add(k)
            for opt, want in sp["opts"].items():
                if opt == "std":
                    continue
                got = lab.eff[k].get(opt, ABSENT)
                ctx.event("requested-vs-effective.compared")
                if got != want:
                    case = {"lang": p["lang"], "A": sp, "B": sp, "typeset": {k2: v for k2, v in lab.typesets[p["typesets"][0]].items() if k2 != "traits"}, "compiler": compilers[0], "requested_only": True}
                    failures.append((f"{p['lang']}|requested-option-value-not-in-effect|{opt}", f"[{p['lang']}] {opt}={want!r} requested explicitly (via {sp['via']}: {sp['opts']!r}) but the generator works with {got!r}: "
                                     f"headers generated for {want!r} and for {got!r} carry the same guard value and compile together", case))
    for (p, tid, comp), res in zip(jobs, results):
        lang = p["lang"]
        ea, eb = lab.eff[spec_key(p["A"])], lab.eff[spec_key(p["B"])]
        diff = option_diff(ea, eb)
        if res is None:
            ctx.event(f"{lang}.skipped.no-compatible-type")
            continue
        classes = [f"{lang}.{p['cls']}", f"compiler.{comp}", f"{lang}.typeset.{'fixed' if tid == 'fixed' else 'floats' if tid == 'floats' else 'generated'}"]
        if not diff:
            classes.append(f"{lang}.identical-effective")
            if p["A"] != p["B"]:
                classes.append(f"{lang}.identical-two-spellings")
        elif len(diff) == 1:
            classes.append(f"{lang}.single.{diff[0]}")
        else:
            classes.append(f"{lang}.multi")
            classes.append(f"{lang}.multi.n={min(len(diff), 6)}")
        if "cetl" in json.dumps([ea, eb]):
            classes.append(f"{lang}.cetl-stand-in-involved")
        if any("float" in lab.typesets[tid]["traits"][h.split('/')[-1].rsplit('_1_0', 1)[0]] for h in res["headers"]):
            classes.append(f"{lang}.float-types-in-TU")
        sample = {"lang": lang, "A": p["A"]["opts"], "B": p["B"]["opts"], "differs_in": diff, "typeset": tid, "compiler": comp, "rc": res["rc"]}
        ctx.case((lang, ea, eb, tid, comp), nontrivial=len(diff) == 1, sample=sample, classes=classes)
        case = {"lang": lang, "A": p["A"], "B": p["B"], "typeset": {k: v for k, v in lab.typesets[tid].items() if k != "traits"}, "compiler": comp}
        what_pair = f"[{lang}/{comp}] A={p['A']['opts']!r} (via {p['A']['via']}) B={p['B']['opts']!r} (via {p['B']['via']})"
        for sig, what in evaluate(lang, ea, eb, res, what_pair):
            failures.append((sig, what, case))
    for sig, what, case in failures:
        ctx.fail(sig, what, case)
    return failures


def inproc_selfcheck(lab: Lab, n: int) -> int:
    """
    Machinery check, run AFTER the campaign (when every worker has many in-process runs behind it): what the in-process
    CLI wrote for a spread of option sets must be byte-identical to what a fresh `python -m nunavut` process writes.
    """
    keys = sorted(k for k in lab.specs if str(lab.spec_dir(lab.specs[k]) / "support") in lab.done and str(lab.spec_dir(lab.specs[k]) / "types-fixed") in lab.done)
    if not keys:
        raise core.HarnessError("self-check: nothing was generated")
    step = max(1, len(keys) // n)
    specs = [lab.specs[k] for k in keys[::step]][:n]
    lab.generate([(s, "support", None) for s in specs] + [(s, "types", "fixed") for s in specs], sub=True)
    for s in specs:
        for d in ("support", "types-fixed"):
            a = tool.tree_files(lab.spec_dir(s) / d)
            b = tool.tree_files(pathlib.Path(str(lab.spec_dir(s) / d) + "-sub"))
            if not a or a != b:
                bad = sorted(k for k in set(a) | set(b) if a.get(k) != b.get(k))
                raise core.HarnessError(f"in-process and subprocess generation differ for {s!r}: {bad}")
    return len(specs)


def run(ctx: core.Ctx):
    ctx.rule = (
        "case = (language, option set A for the type headers, option set B for the support header, type set, compiler); "
        "non-trivial = effective(A) and effective(B) differ in exactly one option; distinct by hash of "
        "(language, both effective option maps, type set, compiler)"
    )
    ctx.assumptions = [
        "effective option sets are read from `nnvg --list-configuration` run with the very same arguments as the generation",
        "'a static assertion naming the mismatch' = a failing static assertion carrying the base.j2 message whose asserted "
        "expression refers to the differing option (NUNAVUT_SUPPORT_LANGUAGE_OPTION_<KEY> / nunavut::support::options::<key>); "
        "an option that only the support side knows cannot be named by the type header: for it only rejection + message are required",
        "NUNAVUT_ASSERT(x)=assert(x) is defined for every TU (documented requirement of enable_serialization_asserts)",
        "CETL is not available in the sandbox (empty submodule): cetl/variable_length_array.hpp and "
        "cetl/pf17/sys/memory_resource.hpp are minimal API stand-ins written by the check; my/vec.hpp and my/alloc.hpp are "
        "user-supplied container/allocator stand-ins for the free-form string options",
        "type headers that cannot be compiled with their OWN support header for guard-unrelated reasons are left out of the "
        "TU (see compatible(): omit_float + float field; leading-allocator + nested composite; non-default-constructible "
        "allocator + union / sized container of composites)",
        "C option `std` has no built-in default; its documented values are {unset, c11 (--language-standard)}",
    ]
    q = ctx.quick
    compilers = ["gcc"] if q else ["gcc", "clang"]
    lab = Lab()
    try:
        # ---------------------------------------------------------------- type sets
        fixed = lab.add_typeset(FIXED_TYPESET)
        floats = lab.add_typeset(FLOAT_TYPESET)
        gen_ts = [lab.add_typeset(t) for t in draw_cases(typeset_strategy(False), 2 if q else 6, ctx.seed * 1000003 + 11)]
        gen_fl = [lab.add_typeset(t) for t in draw_cases(typeset_strategy(True), 1 if q else 3, ctx.seed * 1000003 + 12)]
        ctx.extra["typesets"] = {tid: render_dsdl(ts) for tid, ts in lab.typesets.items()}
        odd = [lab.add_typeset(t) for t in (EMPTY_TYPESET, PADDING_TYPESET, EMPTYSVC_TYPESET)]
        rot = gen_ts + [floats] + gen_fl

        # ---------------------------------------------------------------- pairs
        pairs: typing.List[dict] = []
        uncovered = {}
        for lang in ("c", "cpp"):
            # quick: two of the four C++ contexts (every ordered value pair of every option is still reachable: asserted)
            names = {"defaults", "all-non-default", "leading-allocator"} if q else None
            sp, unc = single_difference_pairs(lang, names)
            uncovered[lang] = unc
            pairs += sp
            pairs += spelling_pairs(lang)
            pairs += crossed_difference_pairs(lang, q)
            pairs += identical_pairs(lang)
            n_multi = (40 if lang == "c" else 70) if q else (200 if lang == "c" else 500)
            n_ident = (15 if lang == "c" else 30) if q else (80 if lang == "c" else 200)
            off = 20 if lang == "c" else 30
            for c in draw_cases(random_pair(lang), n_multi, ctx.seed * 1000003 + off):
                pairs.append(dict(c, cls="random-multi"))
            for c in draw_cases(random_identical(lang), n_ident, ctx.seed * 1000003 + off + 1):
                pairs.append(dict(c, cls="random-identical"))
        if any(uncovered.values()):
            raise core.HarnessError(f"single-option value pairs not reachable in any context: {uncovered}")
        # type sets per pair: always the fixed one; quick adds a second one (rotating) to every other pair, thorough three
        for i, p in enumerate(pairs):
            if q:
                p["typesets"] = [fixed] + ([rot[(i // 2) % len(rot)]] if i % 2 == 0 else [])
            else:
                p["typesets"] = [fixed] + [rot[(i + j) % len(rot)] for j in range(3)]
        # the unusual single-type sets: every single-option difference from the defaults and the identical pairs
        k_odd = 0
        for p in pairs:
            if (p["cls"] == "single" and p.get("context") == "defaults") or p["cls"] == "identical":
                p["typesets"] = p["typesets"] + [odd[k_odd % len(odd)]]
                k_odd += 1
        ctx.extra["pairs_enumerated"] = {
            f"{l}.{c}": sum(1 for p in pairs if p["lang"] == l and p["cls"] == c) for l in ("c", "cpp") for c in sorted({p["cls"] for p in pairs})
        }

        # ---------------------------------------------------------------- the campaign, then the machinery self-check
        run_pairs(ctx, lab, pairs, compilers)
        ctx.extra["inproc_vs_subprocess_selfcheck_option_sets"] = inproc_selfcheck(lab, 8 if q else 24)
        ctx.extra["option_sets_generated"] = len(lab.eff)
        ctx.exhaustive = False
    finally:
        lab.close()

    for lang in ("c", "cpp"):
        for opt in VALUES[lang]:
            ctx.require(f"{lang}.single.{opt}", 2 * len(VALUES[lang][opt]) * (len(VALUES[lang][opt]) - 1) // 2)
        ctx.require(f"{lang}.identical-effective", 40 if q else 200)
        ctx.require(f"{lang}.identical-two-spellings", 10)
        ctx.require(f"{lang}.multi", 20 if q else 150)
        ctx.require(f"{lang}.float-types-in-TU", 5)
    ctx.require("cpp.std-spelling", 20)


def replay(ctx: core.Ctx, case):
    lab = Lab()
    try:
        lab.add_typeset(FIXED_TYPESET)
        tid = lab.add_typeset(case["typeset"])
        p = {"lang": case["lang"], "A": case["A"], "B": case["B"], "cls": "replay", "typesets": [tid]}
        ctx.counting = False
        fails = run_pairs(ctx, lab, [p], [case.get("compiler", "gcc")])
        return [(sig, what) for sig, what, _ in fails]
    finally:
        ctx.counting = True
        lab.close()
