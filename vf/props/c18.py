"""
C18 -- generated Python data objects validate, reflect and convert faithfully.

Domain : generated universes (Python target; a share of the fields renamed to Python reserved words) x
         per-field candidate assignments through the constructor and the property setter (boundary-complete deterministic
         list per field + Hypothesis-drawn ones: in range, boundary, boundary +-1, huge, wrong fixed length, capacity+1,
         every documented container type, wrong types) x union operation sequences x model reflection x built-in round trips.
Oracle : computed from the freshly parsed pydsdl model in this process; the generated package is only ever imported in a
         driver subprocess (harness/c18_driver.py), one per universe.
           valid + documented type  => accepted, getter returns an equal value of the strict type, nothing else changed
           scalar out of range / array over capacity / wrong fixed length => ValueError, object unchanged
           other type               => any exception, or whatever is stored lies inside range / capacity / dtype
           union                    => exactly one non-None option after every step; refused assignment leaves it unchanged
           Class._MODEL_            => canonical structural dump equal to the dump of the fresh model (+ get_model/get_class/..)
           built-in form            => only built-in types, declared keys/order, no padding, JSON-able, and
                                       serialize(update_from_builtin(Class(), to_builtin(o))) == serialize(o) (also via JSON)
"""
from __future__ import annotations

import collections
import concurrent.futures
import importlib.util
import json
import math
import os
import re
import string
import subprocess
import typing

import hypothesis
import pydsdl
from hypothesis import strategies as st

from .. import core, dsdlgen, lab, refmodel, tool, valuegen
from ..refmodel import inner

DRIVER = core.VERIF / "harness" / "c18_driver.py"
NUMPY2_RE = re.compile(r"(Python integer -?\d+ out of bounds for u?int\d+|Python int too large to convert to C long)")
RESERVED_FIELD_NAMES = ["def", "from", "type", "id", "list", "None", "True", "in", "is", "len", "print", "str", "bytes", "lambda",
                        "global", "pass", "import", "object", "max", "property", "class", "raise", "dict", "range"]

_DRV = None


def driver_mod():
    global _DRV
    if _DRV is None:
        spec = importlib.util.spec_from_file_location("c18_driver", DRIVER)
        _DRV = importlib.util.module_from_spec(spec)
        spec.loader.exec_module(_DRV)  # type: ignore
    return _DRV


_PYLANG = None


def py_attr(name: str) -> str:
    """The attribute identifier the generator emits for a DSDL attribute name (the generator's own `id` filter)."""
    global _PYLANG
    if _PYLANG is None:
        from nunavut.lang import LanguageContextBuilder

        _PYLANG = LanguageContextBuilder(include_experimental_languages=True).set_target_language("py").create().get_target_language()
    return _PYLANG.filter_id(name)


def py_module(dotted: str) -> str:
    """Dotted module path with every NAMESPACE component passed through the generator's own path id filter (the last component --
    the <Short>_<M>_<m> file stem -- is what the generator writes)."""
    py_attr("x")
    comps = dotted.split(".")
    return ".".join([_PYLANG.filter_id(c, "path") for c in comps[:-1]] + comps[-1:])


# ---------------------------------------------------------------------------------------------------------- type helpers
def tkey(t) -> str:
    t = inner(t)
    return f"{t.full_name}.{t.version.major}.{t.version.minor}"


def sbits(bits: int) -> int:
    for w in (8, 16, 32, 64):
        if bits <= w:
            return w
    raise ValueError(bits)


def dtype_of(t) -> str:
    if isinstance(t, pydsdl.BooleanType):
        return "bool"
    if isinstance(t, pydsdl.SignedIntegerType):
        return f"int{sbits(t.bit_length)}"
    if isinstance(t, pydsdl.UnsignedIntegerType):
        return f"uint{sbits(t.bit_length)}"
    if isinstance(t, pydsdl.FloatType):
        return f"float{sbits(t.bit_length)}"
    return "object"


def dt_range(dt: str) -> typing.Tuple[int, int]:
    if dt.startswith("uint"):
        return 0, (1 << int(dt[4:])) - 1
    n = int(dt[3:])
    return -(1 << (n - 1)), (1 << (n - 1)) - 1


def irange(t) -> typing.Tuple[int, int]:
    return int(t.inclusive_value_range.min), int(t.inclusive_value_range.max)


def is_int(t) -> bool:
    return isinstance(t, pydsdl.IntegerType)


def kind_of(t) -> str:
    if isinstance(t, pydsdl.BooleanType):
        return "bool"
    if isinstance(t, pydsdl.SignedIntegerType):
        return "int"
    if isinstance(t, pydsdl.UnsignedIntegerType):
        return "uint"
    if isinstance(t, pydsdl.FloatType):
        return f"float{t.bit_length}"
    if isinstance(t, pydsdl.ArrayType):
        return "array"
    return "composite"


def u8like(e) -> bool:
    return isinstance(e, pydsdl.UnsignedIntegerType) and e.bit_length <= 8


def string_like(t) -> bool:
    return isinstance(t, pydsdl.VariableLengthArrayType) and isinstance(t.element_type, pydsdl.UnsignedIntegerType) and t.element_type.bit_length == 8


def type_features(t, out=None, depth=0) -> typing.Set[str]:
    out = set() if out is None else out
    if isinstance(t, pydsdl.ArrayType):
        if string_like(t):
            out.add("utf8")
        if isinstance(t.element_type, pydsdl.CompositeType):
            out.add("nested_array")
        type_features(t.element_type, out, depth + 1)
    elif isinstance(t, pydsdl.CompositeType):
        t = inner(t)
        if isinstance(t, pydsdl.UnionType):
            out.add("union")
        for f in t.fields_except_padding:
            type_features(f.data_type, out, depth + 1)
    return out


# -------------------------------------------------------------------------------------------------------------- schema
def schema_sub(t) -> dict:
    if isinstance(t, pydsdl.BooleanType):
        return {"k": "bool"}
    if isinstance(t, pydsdl.FloatType):
        return {"k": "float", "bits": t.bit_length}
    if isinstance(t, pydsdl.SignedIntegerType):
        return {"k": "int", "bits": t.bit_length}
    if isinstance(t, pydsdl.PrimitiveType):
        return {"k": "uint", "bits": t.bit_length}
    if isinstance(t, pydsdl.FixedLengthArrayType):
        return {"k": "farr", "n": t.capacity, "e": schema_sub(t.element_type)}
    if isinstance(t, pydsdl.VariableLengthArrayType):
        return {"k": "varr", "cap": t.capacity, "e": schema_sub(t.element_type)}
    return {"k": "ref", "tk": tkey(t)}


def schema_top(ct) -> dict:
    base = lab.py_schema(ct)  # module / class path (type and namespace names are plain in this campaign)
    t = inner(ct)
    return {
        "k": base["k"],
        "module": py_module(base["module"]),
        "path": base["path"],
        "id": [t.full_name, t.version.major, t.version.minor],
        "fields": [[f.name, py_attr(f.name), schema_sub(f.data_type)] for f in t.fields_except_padding],
    }


def resolve_refs(x, index: typing.Dict[str, int]):
    """tk (type key) -> ti (index into the plan's type list), recursively through schema nodes, candidates and ops."""
    if isinstance(x, dict):
        out = {k: resolve_refs(v, index) for k, v in x.items() if k != "tk"}
        if "tk" in x:
            out["ti"] = index[x["tk"]]
        return out
    if isinstance(x, list):
        return [resolve_refs(v, index) for v in x]
    return x


# ---------------------------------------------------------------------------------------------------------- candidates
NONE = {"c": "none"}


def ci(v):
    return {"c": "int", "v": int(v)}


def cf(v):
    return {"c": "float", "v": float(v)}


def cb(v):
    return {"c": "bool", "v": bool(v)}


def cnp(dt, v):
    return {"c": "np", "dt": dt, "v": v}


def cs(v):
    return {"c": "str", "v": v}


def cl(v):
    return {"c": "list", "v": list(v)}


def cbuf(kind, b: bytes):
    return {"c": kind, "h": bytes(b).hex()}


def cnd(dt, vals, shape=None):
    out = {"c": "nparr", "dt": dt, "v": list(vals)}
    if shape:
        out["shape"] = list(shape)
    return out


def to_cand(t, v):
    """neutral in-range value -> candidate of the plainest documented type"""
    if isinstance(t, pydsdl.BooleanType):
        return cb(v)
    if isinstance(t, pydsdl.FloatType):
        return cf(v)
    if isinstance(t, pydsdl.PrimitiveType):
        return ci(v)
    if isinstance(t, pydsdl.ArrayType):
        return cl([to_cand(t.element_type, e) for e in v])
    return {"c": "obj", "tk": tkey(t), "v": v}


def fits(dt: str, v: int) -> bool:
    lo, hi = dt_range(dt)
    return lo <= v <= hi


def int_cands(t) -> typing.Tuple[list, list]:
    lo, hi = irange(t)
    dt = dtype_of(t)
    dlo, dhi = dt_range(dt)
    must = [ci(lo), ci(hi), ci(lo - 1), ci(hi + 1), ci((lo + hi) // 2), ci(2**64), ci(-(2**63) - 1), cb(True), NONE]
    must += [cnp(dt, hi), cnp(dt, lo)]
    if dhi > hi:
        must += [cnp(dt, hi + 1), cnp(dt, dhi)]
    if dlo < lo:
        must += [cnp(dt, lo - 1)]
    opt = [ci(0), ci(hi - 1), ci(lo + 1), ci(hi + 2), ci(2 * hi + 1), ci(-1), ci(dhi), ci(dlo), ci(dhi + 1)]
    for odt in ("int64", "uint64", "int8", "uint8", "uint16"):
        for v in (hi, hi + 1, lo, lo - 1):
            if odt != dt and fits(odt, v):
                opt.append(cnp(odt, v))
    opt += [cf(2.9), cf(float(min(hi, 2**53)) + 0.5), cf(1e30), cf(-1e30), cf(math.nan), cf(math.inf), cf(-0.0), cf(float(lo)), cs("12"), cs("abc"), cs(""),
            cl([ci(1)]), cbuf("bytes", b"1"), cnp("float64", 3.7), cnp("float32", float(min(hi, 1000))), cnd("int64", [min(hi, 5)]), {"c": "dict"}, cnp("bool", True)]
    return must, opt


def float_cands(t) -> typing.Tuple[list, list]:
    b = t.bit_length
    F = refmodel.FMAX[b]
    dt = f"float{b}"
    sub = refmodel.float_unpack(b, 1)
    must = [cf(0.0), cf(F), cf(-F), cf(math.inf), cf(-math.inf), cf(math.nan), cf(1.5), ci(1), ci(-3), ci(int(F)), ci(-int(F)), cb(True), NONE,
            cnp(dt, 1.5), cnp(dt, F), ci(10**400), ci(-(10**400))]
    opt = [cf(-0.0), cf(sub), cf(-sub), cf(0.1), cf(-2.75), ci(2**53 + 1), ci(0), cnp(dt, -F), cnp(dt, math.inf), cnp(dt, math.nan), cnp("float64", 0.1), cnp("float64", 2.5),
           cnp("int64", 7), cnp("uint8", 200), ci(2**1024), cs("1.5"), cs("abc"), cs("1e39"), cs("nan"), cl([cf(1.0)]), cbuf("bytes", b"1"), {"c": "dict"}, cnd("float64", [1.0])]
    if b < 64:
        up = math.nextafter(F, math.inf)
        must += [cf(up), cf(-up), ci(int(F) + 1), ci(-int(F) - 1), cnp("float64", up)]
        opt += [cf(F * 2), cf(-F * 2), cf(1e300), cf(math.nextafter(F, 0.0)), cnp("float64", F * 1.5), ci(int(F) * 3)]
        if b == 16:
            opt += [cf(65505.0), cf(65519.99), cf(65520.0), cnp("float32", 65520.0), cnp("float32", 1e5), cf(1e-8), cf(65503.99)]
        else:
            opt += [cf(3.5e38), cf(16777217.0), ci(2**24 + 1), cf(1e-46)]
    return must, opt


def bool_cands(t) -> typing.Tuple[list, list]:
    must = [cb(True), cb(False), ci(0), ci(1), ci(2), ci(-1), NONE, cnp("bool", True)]
    opt = [cnp("bool", False), cs("x"), cs(""), cl([]), cl([ci(0)]), cf(0.0), cf(math.nan), cf(0.5), ci(2**70), cnp("uint8", 2), {"c": "dict"}]
    return must, opt


def det_elems(e, n: int) -> list:
    """deterministic in-range element pattern (boundary values) tiled to n elements"""
    if isinstance(e, pydsdl.BooleanType):
        pat = [True, False, True, True]
    elif isinstance(e, pydsdl.FloatType):
        F = refmodel.FMAX[e.bit_length]
        pat = [1.5, -F, 0.0, F, refmodel.float_unpack(e.bit_length, 1), -2.0]
    elif isinstance(e, pydsdl.PrimitiveType):
        lo, hi = irange(e)
        pat = [hi, lo, (lo + hi) // 2, 1 if hi >= 1 else 0, hi - 1 if hi - 1 >= lo else hi]
    else:
        pat = [refmodel.default_value(e)]
    return [pat[i % len(pat)] for i in range(n)]


def container_cand(t, cont: str, vals: list, text: typing.Optional[str] = None):
    e = t.element_type
    if cont == "list":
        return cl([to_cand(e, v) for v in vals])
    if cont == "tuple":
        return {"c": "tuple", "v": [to_cand(e, v) for v in vals]}
    if cont == "nparr":
        return cnd(dtype_of(e), vals)
    if cont in ("bytes", "bytearray", "memoryview"):
        return cbuf(cont, bytes(int(v) & 0xFF for v in vals))
    if cont == "str":
        return cs(text if text is not None else bytes(int(v) & 0x7F for v in vals).decode("ascii"))
    if cont == "objarr":
        return {"c": "objarr", "v": [to_cand(e, v) for v in vals]}
    raise ValueError(cont)


def containers_of(t) -> typing.List[str]:
    e = t.element_type
    if isinstance(e, pydsdl.CompositeType):
        return ["list", "objarr"]
    out = ["list", "nparr"]
    if u8like(e):
        out += ["bytes", "bytearray", "memoryview"]
        if string_like(t):
            out.append("str")
    return out


def ascii_text(n: int, digits: bool = False) -> str:
    if digits:  # parses as a small number whatever the length
        return "0" * (n - 1) + "7" if n else ""
    pat = "aZ9 _-q"
    return "".join(pat[i % len(pat)] for i in range(n))


def array_cands(t, other_keys: typing.List[str]) -> typing.Tuple[list, list]:
    e = t.element_type
    cap = t.capacity
    fixed = isinstance(t, pydsdl.FixedLengthArrayType)
    boundary = [cap, cap + 1] + ([cap - 1] if fixed else [])
    others = sorted(({cap + 2, 2 * cap + 1, 0} | (set() if fixed else {1, max(cap - 1, 0)})) - set(boundary))
    must, opt = [NONE], []
    for cont in containers_of(t):
        for n in boundary:
            must.append(container_cand(t, cont, det_elems(e, n), ascii_text(n) if cont == "str" else None))
        for n in others:
            opt.append(container_cand(t, cont, det_elems(e, n), ascii_text(n) if cont == "str" else None))
    if u8like(e) and irange(e)[1] >= 57:
        # text made of ASCII digits: a frequent payload of byte / string arrays
        for n in sorted({cap + 1, cap + 2, cap + 5} | ({cap - 1} if fixed and cap > 1 else set()) | ({cap, 1} if not fixed else set())):
            must.append(cbuf("bytes", ascii_text(n, True).encode()))
            opt.append(cbuf("bytearray", ascii_text(n, True).encode()))
            if string_like(t):
                must.append(cs(ascii_text(n, True)))
        # buffers whose len() is not their byte count (wider items, two dimensions): not a documented form -- whatever happens,
        # the array that ends up stored must respect the capacity / the fixed length
        wide = bytes((i * 7 + 1) % 50 for i in range(2 * cap))
        opt += [dict(cbuf("memoryview", wide), fmt="H"), dict(cbuf("memoryview", wide), shape=[2, cap]), dict(cbuf("memoryview", wide + wide), fmt="I")]
        if string_like(t):
            for k in sorted({cap // 2, cap // 2 + 1, 1}):
                opt.append(cs("é" * k))  # 2 bytes each
            opt += [cs("日本"), cs(" 12 "), cs("-1"), cs("")]
    if isinstance(e, pydsdl.CompositeType):
        d = refmodel.default_value(e)
        opt += [cl([NONE]), cl([ci(1)]), {"c": "obj", "tk": tkey(e), "v": d}, {"c": "dict"}, ci(5), container_cand(t, "tuple", det_elems(e, min(cap, 2)))]
        for k, d in other_keys[:1]:
            opt.append(cl([{"c": "obj", "tk": k, "v": d}]))
    else:
        dt = dtype_of(e)
        k = max(1, min(cap, 4) // 2)
        valid2 = det_elems(e, 2 * k)
        opt += [ci(5), {"c": "dict"}, cl([NONE]), cl([cl([to_cand(e, v) for v in valid2[:k]]), cl([to_cand(e, v) for v in valid2[k:]])]),
                cl([cl([to_cand(e, valid2[0])]), cl([to_cand(e, v) for v in valid2])]), cnd(dt, valid2, [2, k]), cnd(dt, det_elems(e, 2 * (cap + 1)), [2, cap + 1]),
                container_cand(t, "tuple", det_elems(e, cap)), container_cand(t, "tuple", det_elems(e, cap + 1)), cl([cs("1")])]
        if isinstance(e, pydsdl.BooleanType):
            opt += [cl([ci(1), ci(0), ci(2)]), cnd("uint8", [1, 0]), cnd("int64", [3]), cl([cf(0.5)])]
        elif isinstance(e, pydsdl.FloatType):
            F = refmodel.FMAX[e.bit_length]
            opt += [cnd("float64", [1.5, 0.1]), cnd("int64", [1, 2]), cl([ci(1), ci(2)]), cl([cf(0.1)]), cl([cs("x")])]
            if e.bit_length < 64:
                opt += [cl([cf(F * 2)]), cnd("float64", [1e300]), cl([cf(math.nextafter(F, math.inf))])]
        else:
            lo, hi = irange(e)
            dlo, dhi = dt_range(dt)
            odt = "int64" if dt != "int64" else "int32"
            opt += [cl([cf(1.5), cf(0.7)]), cnd("float64", [1.0]), cnd(odt, [max(lo, dt_range(odt)[0]), min(hi, dt_range(odt)[1])][: max(1, min(cap, 2))]), cl([cb(True)])]
            if dt not in ("int64", "uint64"):
                opt += [cnd("int64", [dhi + 45]), cnd("int64", [dlo - 1])]
            opt += [cl([ci(dhi + 1)]), cl([ci(dlo - 1)])]  # beyond the storage dtype (NumPy-2: OverflowError)
            if dhi > hi:
                opt += [cl([ci(hi + 1)]), cnd(dt, [dhi]), cl([ci(dhi)])]  # beyond the DSDL element range, inside the dtype
            if dlo < lo:
                opt += [cl([ci(lo - 1)])]
    return must, opt


def composite_cands(t, other_keys: typing.List[str]) -> typing.Tuple[list, list]:
    must = [{"c": "obj", "tk": tkey(t), "v": refmodel.default_value(t)}, NONE]
    opt = [{"c": "dict"}, ci(5), cl([])]
    for k, d in other_keys[:2]:
        must.append({"c": "obj", "tk": k, "v": d})
    return must, opt


def field_cands(t, other_keys) -> typing.Tuple[list, list]:
    if isinstance(t, pydsdl.BooleanType):
        return bool_cands(t)
    if isinstance(t, pydsdl.FloatType):
        return float_cands(t)
    if isinstance(t, pydsdl.PrimitiveType):
        return int_cands(t)
    if isinstance(t, pydsdl.ArrayType):
        return array_cands(t, other_keys)
    return composite_cands(t, other_keys)


def det_base(t):
    if isinstance(t, pydsdl.BooleanType):
        return True
    if isinstance(t, pydsdl.FloatType):
        return -1.5
    if isinstance(t, pydsdl.PrimitiveType):
        lo, hi = irange(t)
        return hi - 1 if hi - 1 >= lo and hi - 1 != 0 else hi
    if isinstance(t, pydsdl.VariableLengthArrayType):
        return det_elems(t.element_type, 1)
    return None


# random (Hypothesis-drawn) candidates ---------------------------------------------------------------------------------
@st.composite
def rand_elems(draw, e, n: int) -> list:
    if n == 0:
        return []
    pat = draw(st.lists(valuegen.value_strategy(e, storage=False), min_size=1, max_size=min(n, 6)))
    return [pat[i % len(pat)] for i in range(n)]


@st.composite
def rand_cand(draw, t):
    if isinstance(t, pydsdl.BooleanType):
        return draw(st.sampled_from(bool_cands(t)[1] + bool_cands(t)[0]))
    if isinstance(t, pydsdl.FloatType):
        b = t.bit_length
        which = draw(st.integers(0, 5))
        if which == 0:
            return cf(draw(valuegen.value_strategy(t, storage=False)))
        if which == 1:
            return cf(draw(st.floats(allow_nan=True, allow_infinity=True)))
        if which == 2:
            return ci(draw(st.one_of(st.integers(-70000, 70000), st.integers(-(2**130), 2**130))))
        if which == 3:
            return cnp(f"float{b}", draw(valuegen.value_strategy(t, storage=False)))
        if which == 4:
            return cnp("float64", draw(st.floats(allow_nan=False)))
        return draw(st.sampled_from(float_cands(t)[1]))
    if isinstance(t, pydsdl.PrimitiveType):
        lo, hi = irange(t)
        dt = dtype_of(t)
        which = draw(st.integers(0, 5))
        if which == 0:
            return ci(draw(st.integers(lo, hi)))
        if which == 1:
            return ci(draw(st.one_of(st.integers(lo - 4, lo + 1), st.integers(hi - 1, hi + 4), st.integers(-(2**66), 2**66))))
        if which == 2:
            return cnp(dt, draw(st.integers(*dt_range(dt))))
        if which == 3:
            odt = draw(st.sampled_from(["int8", "uint8", "int16", "uint16", "int32", "uint32", "int64", "uint64"]))
            return cnp(odt, draw(st.integers(*dt_range(odt))))
        if which == 4:
            return cf(draw(st.one_of(st.floats(lo - 2.0, hi + 2.0), st.floats(allow_nan=True))))
        return draw(st.sampled_from(int_cands(t)[1]))
    if isinstance(t, pydsdl.ArrayType):
        e = t.element_type
        cap = t.capacity
        fixed = isinstance(t, pydsdl.FixedLengthArrayType)
        if draw(st.integers(0, 5)) == 0:
            return draw(st.sampled_from(array_cands(t, [])[1]))
        n = draw(st.sampled_from([cap, cap, cap + 1, max(cap - 1, 0), cap + 2] if fixed else [0, 1, cap, cap, cap + 1, cap + 1, cap + 3, max(cap - 1, 0)]))
        if not fixed and draw(st.booleans()):
            n = draw(st.integers(0, cap + 2))
        cont = draw(st.sampled_from(containers_of(t) + ["tuple"]))
        if cont == "str":
            alphabet = draw(st.sampled_from([string.digits, string.ascii_letters + string.digits + " .-_", string.printable, "0123456789 +-", "aéü日"]))
            return cs(draw(st.text(alphabet=alphabet, min_size=min(n, 40), max_size=min(n, 40))) if n <= 40 else ascii_text(n, draw(st.booleans())))
        if cont in ("bytes", "bytearray") and irange(e)[1] >= 57 and draw(st.booleans()):
            return cbuf(cont, draw(st.text(alphabet="0123456789 +-", min_size=min(n, 40), max_size=min(n, 40))).encode() if n <= 40 else ascii_text(n, True).encode())
        return container_cand(t, cont, draw(rand_elems(e, n)))
    return to_cand(t, draw(valuegen.value_strategy(t, storage=False)))


# ---------------------------------------------------------------------------------------------------- classification
def _num(c):
    """(is documented number, python value) for scalar candidates"""
    k = c["c"]
    if k in ("int", "bool", "float"):
        return k, c["v"]
    if k == "np":
        dt = c["dt"]
        if dt == "bool":
            return "npbool", bool(c["v"])
        return ("npint" if dt[0] in "iu" else "npfloat"), c["v"]
    return None, None


def classify(t, c, site: str) -> dict:
    """
    {"cls": valid|oor|badlen|other|default, "want": neutral value (valid), "len": ("over"|"wrong"), "cont": container class,
     "elem_beyond": True when elements exceed the DSDL element range but not the dtype}
    """
    if c["c"] == "none" and site == "ctor":
        return {"cls": "default", "want": refmodel.default_value(t)}
    if isinstance(t, pydsdl.BooleanType):
        nk, v = _num(c)
        if nk in ("bool", "npbool"):
            return {"cls": "valid", "want": bool(v)}
        return {"cls": "other", "boolsat": nk in ("int", "npint") and v not in (0, 1)}
    if isinstance(t, pydsdl.FloatType):
        nk, v = _num(c)
        if nk is None or nk == "npbool":
            return {"cls": "other"}
        F = refmodel.FMAX[t.bit_length]
        try:
            x = float(v)
        except OverflowError:
            return {"cls": "oor", "huge": True}
        if math.isnan(x) or math.isinf(x):
            return {"cls": "valid", "want": x}
        if abs(x) > F:
            return {"cls": "oor"}
        return {"cls": "valid", "want": x}
    if isinstance(t, pydsdl.PrimitiveType):
        nk, v = _num(c)
        if nk in ("int", "bool", "npint"):
            lo, hi = irange(t)
            v = int(v)
            return {"cls": "valid", "want": v} if lo <= v <= hi else {"cls": "oor"}
        return {"cls": "other"}
    if isinstance(t, pydsdl.ArrayType):
        return classify_array(t, c)
    if c["c"] == "obj" and c.get("tk") == tkey(t) and c.get("v") is not None:
        return {"cls": "valid", "want": c["v"]}
    return {"cls": "other"}


def classify_array(t, c) -> dict:
    e = t.element_type
    cap = t.capacity
    fixed = isinstance(t, pydsdl.FixedLengthArrayType)
    k = c["c"]
    cont = {"bytes": "bytes/str", "str": "bytes/str", "nparr": "ndarray", "objarr": "ndarray"}.get(k, k)
    vals: typing.Optional[list] = None
    beyond = False
    if k == "list":
        vals = []
        for x in c["v"]:
            r = classify(e, x, "setter") if not isinstance(e, pydsdl.ArrayType) else {"cls": "other"}
            if isinstance(e, pydsdl.BooleanType) and x["c"] != "bool":
                r = {"cls": "other"}  # list[bool] is the documented form
            if isinstance(e, pydsdl.PrimitiveType) and x["c"] == "np":
                r = {"cls": "other"}  # list[int] / list[float] of python numbers is the documented form
            if r["cls"] != "valid":
                if r["cls"] == "oor" and is_int(e) and x["c"] == "int" and fits(dtype_of(e), x["v"]):
                    beyond = True
                vals = None
                break
            vals.append(r["want"])
    elif k == "nparr" and c["dt"] == dtype_of(e) and not c.get("shape") and not isinstance(e, pydsdl.CompositeType):
        vals = list(c["v"])
        if is_int(e):
            lo, hi = irange(e)
            if any(not lo <= v <= hi for v in vals):
                vals, beyond = None, True
        elif isinstance(e, pydsdl.FloatType):
            F = refmodel.FMAX[e.bit_length]
            if any(math.isfinite(v) and abs(v) > F for v in vals):
                vals = None
    elif k == "objarr" and isinstance(e, pydsdl.CompositeType):
        if all(x["c"] == "obj" and x.get("tk") == tkey(e) and x.get("v") is not None for x in c["v"]):
            vals = [x["v"] for x in c["v"]]
    elif k in ("bytes", "bytearray", "memoryview") and u8like(e) and not c.get("fmt") and not c.get("shape"):
        vals = list(bytes.fromhex(c["h"]))
        if any(v > irange(e)[1] for v in vals):
            vals, beyond = None, True
    elif k == "str" and string_like(t):
        vals = list(c["v"].encode("utf-8"))
    if vals is None:
        return {"cls": "other", "cont": cont, "elem_beyond": beyond}
    n = len(vals)
    if (n == cap) if fixed else (n <= cap):
        return {"cls": "valid", "want": vals, "cont": cont}
    return {"cls": "badlen", "len": "wrong-fixed-length" if fixed else "over-capacity", "cont": cont}


# ------------------------------------------------------------------------------------------------ matching observations
def feq(bits: int, got: float, want: float, exact_only: bool = False) -> bool:
    if math.isnan(want) or math.isnan(got):
        return math.isnan(want) and math.isnan(got)
    if got == want:
        return True
    if exact_only or refmodel.float_exact(bits, want):
        return False
    # a value the field type cannot represent may be stored as either neighbouring representable value
    return got in refmodel._neighbours(bits, want)


def match(t, e, want, types_index: typing.Dict[str, int]) -> typing.Optional[str]:
    """None if the observed encoding `e` equals the neutral value `want` in the strict representation; else a reason."""
    if e is None:
        return "None stored"
    if isinstance(t, pydsdl.BooleanType):
        return None if e == {"t": "bool", "v": bool(want)} else f"type-or-value: {e!r}"
    if isinstance(t, pydsdl.FloatType):
        if e.get("t") != "float":
            return f"not-strict-type: {e.get('t')}"
        return None if feq(t.bit_length, e["v"], float(want)) else f"value: {e['v']!r}"
    if isinstance(t, pydsdl.PrimitiveType):
        if e.get("t") != "int":
            return f"not-strict-type: {e.get('t')}"
        return None if e["v"] == int(want) else f"value: {e['v']!r}"
    if isinstance(t, pydsdl.ArrayType):
        el = t.element_type
        if e.get("t") != "nd" or e.get("dt") != dtype_of(el) or e.get("nd") != 1:
            return f"not-strict-type: {({k: e.get(k) for k in ('t', 'dt', 'nd')})!r}"
        if e["n"] != len(want):
            return f"length: {e['n']} != {len(want)}"
        for i, (g, w) in enumerate(zip(e["v"], want)):
            if isinstance(el, pydsdl.CompositeType):
                r = match(el, g, w, types_index)
            elif isinstance(el, pydsdl.BooleanType):
                r = None if g is bool(w) else f"value {g!r}"
            elif isinstance(el, pydsdl.FloatType):
                r = None if feq(el.bit_length, g, float(w)) else f"value {g!r}"
            else:
                r = None if g == int(w) else f"value {g!r}"
            if r:
                return f"element[{i}]: {r}"
        return None
    ti = types_index[tkey(t)]
    if e.get("t") != "obj" or e.get("ti") != ti:
        return f"not-strict-type: {e.get('t')} {e.get('type', e.get('ti'))}"
    it = inner(t)
    if isinstance(it, pydsdl.UnionType):
        active = [n for n, v in e["f"].items() if v is not None]
        if active != list(want):
            return f"union options {active!r} != {list(want)!r}"
        f = [f for f in it.fields if f.name == active[0]][0]
        return match(f.data_type, e["f"][active[0]], want[active[0]], types_index)
    for f in it.fields_except_padding:
        r = match(f.data_type, e["f"].get(f.name), want[f.name], types_index)
        if r:
            return f"{f.name}: {r}"
    return None


def in_domain(t, e, types_index) -> typing.Optional[str]:
    """None if the observed stored value lies inside the field's range / capacity and has the strict representation."""
    if e is None:
        return "None stored"
    if isinstance(t, pydsdl.BooleanType):
        return None if e.get("t") == "bool" else f"not a bool: {e!r}"
    if isinstance(t, pydsdl.FloatType):
        if e.get("t") != "float":
            return f"not a float: {e.get('t')}"
        v = e["v"]
        return None if (not math.isfinite(v) or abs(v) <= refmodel.FMAX[t.bit_length]) else f"{v!r} outside the range"
    if isinstance(t, pydsdl.PrimitiveType):
        lo, hi = irange(t)
        if e.get("t") != "int":
            return f"not an int: {e.get('t')}"
        return None if lo <= e["v"] <= hi else f"{e['v']} outside [{lo}, {hi}]"
    if isinstance(t, pydsdl.ArrayType):
        if e.get("t") != "nd" or e.get("dt") != dtype_of(t.element_type) or e.get("nd") != 1:
            return f"not a 1-D {dtype_of(t.element_type)} array: {({k: e.get(k) for k in ('t', 'dt', 'nd')})!r}"
        ok = e["n"] == t.capacity if isinstance(t, pydsdl.FixedLengthArrayType) else e["n"] <= t.capacity
        return None if ok else f"length {e['n']} vs capacity {t.capacity}"
    if e.get("t") != "obj" or e.get("ti") != types_index[tkey(t)]:
        return f"not an instance of the field's class: {e.get('t')} {e.get('type', e.get('ti'))}"
    return None


# ------------------------------------------------------------------------------------------------------------ universes
class Uni:
    """A parsed universe: lab (materialised DSDL + generation), models, indices."""

    def __init__(self, u: dict):
        self.u = u
        self.lab = lab.Lab(u)
        self.ctypes = self.lab.ctypes
        self.top = self.lab.top
        self.index = {tkey(ct): i for i, ct in enumerate(self.ctypes)}
        self.by_key = {tkey(ct): ct for ct in self.ctypes}
        self.top_by_key = {tkey(t): t for t in self.top}
        self.defaults = [(tkey(ct), refmodel.default_value(ct)) for ct in self.ctypes]

    def close(self):
        self.lab.close()

    def others(self, t) -> list:
        k = tkey(t) if isinstance(t, pydsdl.CompositeType) else None
        return [(kk, d) for kk, d in self.defaults if kk != k]

    def fields(self, key: str):
        it = inner(self.by_key[key])
        return it, (it.fields if isinstance(it, pydsdl.UnionType) else it.fields_except_padding)

    def dsdl_text(self, key: str) -> str:
        files = dsdlgen.files_of(self.u)
        ct = self.by_key.get(key) or self.top_by_key[key]
        comps = inner(ct).full_name.split(".")
        if inner(ct).has_parent_service:
            comps = comps[:-1]
        v = inner(ct).version
        for rel, text in files.items():
            if rel.startswith("/".join(comps[:-1]) + "/") and rel.endswith(f"{comps[-1]}.{v.major}.{v.minor}.dsdl") and rel.count("/") == len(comps) - 1:
                return f"{rel}:\n{text}"
        return "<source not found>"

    def plan(self, ops: list) -> dict:
        tops = []
        for t in self.top:
            comps = t.full_name.split(".")
            cname = f"{comps[-1]}_{t.version.major}_{t.version.minor}"
            tops.append({"module": py_module(".".join(comps[:-1] + [cname])), "path": [cname], "id": [t.full_name, t.version.major, t.version.minor],
                         "pkg": py_module(".".join(comps[:-1] + ["x"]))[:-2], "alias": f"{comps[-1]}_{t.version.major}", "key": tkey(t)})
        top_index = {t["key"]: i for i, t in enumerate(tops)}
        ops2 = []
        for op in ops:
            if op["op"] == "model" and op["scope"] == "top":
                op = dict(op, i=top_index[op["topk"]])
            ops2.append(op)
        plan = {"types": [schema_top(ct) for ct in self.ctypes], "tops": tops, "dsdl_roots": [str(r) for r in self.lab.roots], "ops": ops2}
        return resolve_refs(plan, self.index)

    def run(self, ops: list) -> typing.List[dict]:
        gen = self.lab.generate("py")
        pp = self.lab.dir / "c18_plan.json"
        pp.write_text(json.dumps(self.plan(ops)))
        env = dict(os.environ, PYTHONPATH=str(core.VERIF / ".deps"), PYTHONHASHSEED="0", PYTHONDONTWRITEBYTECODE="1")
        p = subprocess.run([tool.PY, "-W", "ignore", str(DRIVER), str(pp), str(gen)], capture_output=True, text=True, env=env, timeout=1800)
        lines = p.stdout.splitlines()
        if lines and lines[0].startswith('{"fatal"'):
            raise core.HarnessError(f"generated package cannot be imported: {lines[0][:1500]}")
        if p.returncode != 0 or len(lines) != len(ops):
            raise core.HarnessError(f"c18 driver: rc={p.returncode}, {len(lines)}/{len(ops)} answers; stderr: {p.stderr[-1500:]}")
        return [json.loads(l) for l in lines]


def rename_fields(draw, u: dict) -> dict:
    """A share of the field names becomes Python reserved words (attribute gets a trailing underscore in the generated class)."""
    pool = [n for n in RESERVED_FIELD_NAMES if dsdlgen._dsdl_name_ok(n) and py_attr(n) == n + "_"]
    u = json.loads(json.dumps(u))
    for r in u["roots"]:
        for td in r["types"]:
            bodies = [td["body"]] if td["kind"] != "service" else [td["body"]["request"], td["body"]["response"]]
            for b in bodies:
                used = {dsdlgen.fold(a["name"]) for a in b["attrs"] if "name" in a}
                for a in b["attrs"]:
                    if a["k"] == "field" and draw(st.integers(0, 5)) == 0:
                        n = draw(st.sampled_from(pool))
                        if dsdlgen.fold(n) not in used:
                            used.add(dsdlgen.fold(n))
                            a["name"] = n
    return u


def prune_universe(u: dict, key: str) -> dict:
    """The universe restricted to the type `key` (a codec-type key; service halves map to their service) and its dependencies."""
    defs = {}
    for r in u["roots"]:
        for td in r["types"]:
            defs[".".join(td["ns"] + [td["name"]]) + f".{td['major']}.{td['minor']}"] = td
    parts = key.split(".")
    if key not in defs:
        key = ".".join(parts[:-3] + parts[-2:])  # ns.Svc.Request.1.0 -> ns.Svc.1.0
    keep, todo = set(), [key]
    while todo:
        k = todo.pop()
        if k in keep or k not in defs:
            continue
        keep.add(k)
        todo += list(dsdlgen._refs_in(defs[k]["body"]))
    roots = []
    for r in u["roots"]:
        ts = [td for td in r["types"] if ".".join(td["ns"] + [td["name"]]) + f".{td['major']}.{td['minor']}" in keep]
        if ts:
            roots.append({"name": r["name"], "types": ts})
    return {"roots": roots}


# -------------------------------------------------------------------------------------------------------------- judging
def cand_py(c, limit: int = 140) -> str:
    k = c["c"]
    if k == "int" and abs(c["v"]) >= 10**30:
        d = str(abs(c["v"]))
        s = ("-" if c["v"] < 0 else "") + (f"10**{len(d) - 1}" if d.strip("0") == "1" else f"{d[:6]}...({len(d)} digits)")
    elif k in ("int", "bool", "float", "str"):
        s = repr(c["v"])
    elif k == "none":
        s = "None"
    elif k == "np":
        s = f"np.{c['dt']}({c['v']!r})"
    elif k in ("bytes", "bytearray", "memoryview"):
        b = bytes.fromhex(c["h"])
        s = repr(b) if k == "bytes" else f"{k}({b!r})" + (f".cast({c['fmt']!r})" if c.get("fmt") else "") + (f".cast('B', {c['shape']})" if c.get("shape") else "")
    elif k in ("list", "tuple"):
        inner_ = ", ".join(cand_py(e, 40) for e in c["v"][:12]) + (", ..." if len(c["v"]) > 12 else "")
        s = f"[{inner_}]" if k == "list" else f"({inner_},)"
        s += f" (len {len(c['v'])})"
    elif k == "nparr":
        s = f"np.array({c['v'][:12]!r}{'...' if len(c['v']) > 12 else ''}, np.{c['dt']})" + (f".reshape({c['shape']})" if c.get("shape") else "") + f" (size {len(c['v'])})"
    elif k == "obj":
        s = f"<{c.get('tk')} instance>"
    elif k == "objarr":
        s = f"np.array([{len(c['v'])} instances], object)"
    else:
        s = "{}"
    return s if len(s) <= limit else s[: limit - 3] + "..."


def is_numpy2(exc) -> bool:
    return bool(exc) and exc[0] == "OverflowError" and bool(NUMPY2_RE.search(exc[1]))


def one_option(state: dict) -> typing.List[str]:
    return [n for n, v in state.items() if v is not None]


def judge_site(U: Uni, it, f, site: str, r: dict, c: dict) -> typing.Tuple[typing.Optional[str], str]:
    """(symptom or None or 'numpy2', detail)"""
    T = f.data_type
    exc = r.get("exc")
    if is_numpy2(exc):
        return "numpy2", exc[1]
    is_union = isinstance(it, pydsdl.UnionType)
    after, before = r.get("after"), r.get("before")
    cls = c["cls"]
    if cls == "default" and is_union:
        # "If no parameters are provided, the first field will be default-initialized and selected."
        if exc:
            return "valid-value-rejected", f"raised {exc[0]}: {exc[1]}"
        f0 = it.fields[0]
        if one_option(after) != [f0.name] or match(f0.data_type, after[f0.name], refmodel.default_value(f0.data_type), U.index):
            return "default-ctor-not-first-option", f"state {json.dumps(after)[:200]}"
        return None, ""
    if cls in ("valid", "default"):
        if exc:
            return "valid-value-rejected", f"raised {exc[0]}: {exc[1]}"
        m = match(T, after[f.name], c["want"], U.index)
        if m:
            return ("getter-not-strict-type" if m.startswith("not-strict-type") else "accepted-value-not-returned"), m
        if is_union:
            if one_option(after) != [f.name]:
                return "union-options-after-assignment", f"non-None options {one_option(after)!r}"
        elif before is not None:
            ch = [n for n in after if n != f.name and after[n] != before[n]]
            if ch:
                return "assignment-changed-another-field", f"fields {ch!r} changed"
        return None, ""
    if cls in ("oor", "badlen"):
        label = "out-of-range" if cls == "oor" else "invalid-length"
        if exc is None:
            return f"{label}-accepted", f"no exception; stored {json.dumps(after[f.name])[:200]}"
        if exc[0] != "ValueError":
            return f"{label}-raises-{exc[0]}", f"{exc[0]}: {exc[1]}"
        if site == "setter" and after != before:
            return "refused-value-changed-object", f"before {json.dumps(before)[:150]} after {json.dumps(after)[:150]}"
        return None, ""
    # any other type: refused with any exception, or coerced into the field's domain
    if exc:
        if is_union and after is not None and len(one_option(after)) != 1:
            return "union-options-after-assignment", f"non-None options {one_option(after)!r} after a refused assignment"
        return None, ""
    d = in_domain(T, after[f.name], U.index)
    if d:
        return "stored-value-out-of-range", d
    if is_union and one_option(after) != [f.name]:
        return "union-options-after-assignment", f"non-None options {one_option(after)!r}"
    return None, ""


_SAMPLED: typing.Set[tuple] = set()


def judge_assign(ctx: core.Ctx, U: Uni, op: dict, res: dict) -> typing.List[typing.Tuple[str, str]]:
    it, fields = U.fields(op["tk"])
    f = fields[op["fi"]]
    T = f.data_type
    cand = op["cand"]
    kind = kind_of(T)
    out, per_site = [], {}
    cset = classify(T, cand, "setter")
    cctor = classify(T, cand, "ctor")
    classes = []
    for site, c in (("setter", cset), ("ctor", cctor)):
        sym, detail = judge_site(U, it, f, site, res[site], c)
        if sym == "numpy2":
            classes.append("numpy2.excluded")
            continue
        if sym:
            per_site[site] = (sym, detail, c)
    cls = cset["cls"]
    nontrivial = cls in ("oor", "badlen") or bool(cset.get("boolsat"))
    if cls == "oor":
        classes.append("oor." + ("float" if kind.startswith("float") else kind))
    elif cset.get("boolsat"):
        classes.append("oor.bool")
    elif cls == "badlen":
        classes.append("overcap" if cset["len"] == "over-capacity" else "wronglen")
    elif cls == "valid":
        classes.append("doc.accepted" if res["setter"].get("exc") is None else "doc.rejected")
    else:
        classes.append("other.type")
        classes.append("other.refused" if res["setter"].get("exc") else "other.coerced")
        if cset.get("elem_beyond") and not res["setter"].get("exc"):
            classes.append("info.array_element_beyond_dsdl_range_stored")
    if cctor["cls"] == "default":
        classes.append("ctor.none_is_default")
    classes.append("kind." + kind)
    if kind == "array":
        classes.append("cand." + str(cset.get("cont") or cand["c"]))
    if py_attr(f.name) != f.name:
        classes.append("field.reserved_word")
    if isinstance(it, pydsdl.UnionType):
        classes.append("assign.union_option")
    skey = (kind, cls, cset.get("cont"))
    sample = None
    if skey not in _SAMPLED and len(_SAMPLED) % 5 == 0 or (skey not in _SAMPLED and cls == "badlen"):
        sample = {"type": tkey(it), "field": str(f), "candidate": cand_py(cand), "class": cls, "setter": res["setter"].get("exc") or "accepted", "ctor": res["ctor"].get("exc") or "accepted"}
    if nontrivial:
        _SAMPLED.add(skey)
    ctx.case(["assign", str(T), isinstance(it, pydsdl.UnionType), cand], nontrivial, sample=sample, classes=classes)
    if not per_site:
        return out
    groups: typing.Dict[str, list] = collections.OrderedDict()
    for site, (sym, detail, c) in per_site.items():
        groups.setdefault(sym, []).append((site, detail, c))
    for sym, lst in groups.items():
        sites = "+".join(sorted(s for s, _, _ in lst))
        c = lst[0][2]
        klabel = "float" if kind.startswith("float") and "-raises-" in sym else kind
        if sym == "stored-value-out-of-range":
            sig = f"other-type|stored-value-out-of-range|{klabel}"
        elif sym == "union-options-after-assignment":
            sig = f"{sites}|union|options-not-exclusive-after-assignment"
        else:
            sig = f"{sites}|{klabel}|{sym}" + (f"|cand={c.get('cont')}" if kind == "array" and c.get("cont") else "")
        what = (f"{U.dsdl_text(op['tk'])}\nfield `{f}` (python attribute {py_attr(f.name)}), candidate {cand_py(cand)} "
                f"[{c['cls']}{' ' + c['len'] if c.get('len') else ''}]: " + "; ".join(f"{s}: {d}" for s, d, _ in lst))
        out.append((sig, what))
    return out


def judge_useq(ctx: core.Ctx, U: Uni, op: dict, res: dict) -> typing.List[typing.Tuple[str, str]]:
    it, fields = U.fields(op["tk"])
    out: typing.List[typing.Tuple[str, str]] = []
    head = f"{U.dsdl_text(op['tk'])}\n"
    trace = ["ctor(" + ", ".join(f"{py_attr(fields[fi].name)}={cand_py(c, 50)}" for fi, c in op["ctor"]) + ")"]

    def fail(sym, detail):
        out.append((f"union|{sym}", head + " ; ".join(trace) + f" => {detail}"))

    provided = [(fi, c, classify(fields[fi].data_type, c, "ctor")) for fi, c in op["ctor"]]
    provided = [p for p in provided if p[2]["cls"] != "default"]
    classes = ["useq", f"useq.ctor_kwargs={len(provided)}"]
    cexc = res["ctor_exc"]
    alive = True
    if is_numpy2(cexc):
        classes.append("numpy2.excluded")
        alive = False
    elif len(provided) >= 2:
        if cexc is None:
            fail("ctor-accepted-several-options", f"no exception; state {one_option(res['state'])!r}")
        elif cexc[0] != "ValueError" and all(p[2]["cls"] == "valid" for p in provided):
            fail(f"ctor-several-options-raises-{cexc[0]}", cexc[1])
        alive = False
    elif len(provided) == 1:
        fi, c, cl_ = provided[0]
        if cl_["cls"] == "valid":
            if cexc:
                fail("valid-assignment-rejected", f"constructor raised {cexc}")
                alive = False
            elif one_option(res["state"]) != [fields[fi].name]:
                fail("assigned-option-not-selected", f"non-None options {one_option(res['state'])!r}")
                alive = False
            else:
                m = match(fields[fi].data_type, res["state"][fields[fi].name], cl_["want"], U.index)
                if m:
                    fail("assigned-value-not-returned", m)
        elif cl_["cls"] in ("oor", "badlen"):
            if cexc is None:
                fail("invalid-assignment-accepted", f"constructor accepted; state {json.dumps(res['state'])[:200]}")
            alive = False
        else:
            if cexc:
                alive = False
    else:
        if cexc:
            fail("default-ctor-raised", str(cexc))
            alive = False
        else:
            want = refmodel.default_value(it)
            if one_option(res["state"]) != list(want):
                fail("default-ctor-not-first-option", f"non-None options {one_option(res['state'])!r}")
                alive = False
            else:
                m = match(fields[0].data_type, res["state"][fields[0].name], want[fields[0].name], U.index)
                if m:
                    fail("default-ctor-not-first-option", m)
    n_steps = 0
    if alive and cexc is None:
        prev = res["state"]
        n = len(one_option(prev))
        if n != 1:
            fail("no-option-set" if n == 0 else "two-options-set", f"after the constructor: {one_option(prev)!r}")
            alive = False
        if alive and (not isinstance(res.get("repr"), str) or "MALFORMED" in res["repr"]):
            fail("repr-malformed", str(res.get("repr")))
        for (fi, c), sr in zip(op["steps"], res["steps"]):
            if not alive:
                break
            n_steps += 1
            f = fields[fi]
            cl_ = classify(f.data_type, c, "setter")
            trace.append(f".{py_attr(f.name)} = {cand_py(c, 60)} [{cl_['cls']}]")
            stt, exc = sr["state"], sr["exc"]
            classes.append("useq.step." + cl_["cls"])
            active = one_option(stt)
            if len(active) != 1:
                fail("no-option-set" if not active else "two-options-set", f"non-None options {active!r} (exception: {exc})")
                break
            if not isinstance(sr.get("repr"), str) or "MALFORMED" in sr["repr"]:
                fail("repr-malformed", str(sr.get("repr")))
            if is_numpy2(exc):
                classes.append("numpy2.excluded")
            elif cl_["cls"] == "valid":
                if exc:
                    fail("valid-assignment-rejected", f"{exc}")
                elif active != [f.name]:
                    fail("assigned-option-not-selected", f"non-None options {active!r}")
                else:
                    m = match(f.data_type, stt[f.name], cl_["want"], U.index)
                    if m:
                        fail("assigned-value-not-returned", m)
            elif cl_["cls"] in ("oor", "badlen"):
                if exc is None:
                    fail("invalid-assignment-accepted", f"stored {json.dumps(stt[f.name])[:160]}")
                elif stt != prev:
                    fail("invalid-assignment-changed-object", f"before {json.dumps(prev)[:160]} after {json.dumps(stt)[:160]}")
            else:
                if exc is None:
                    if active != [f.name]:
                        fail("assigned-option-not-selected", f"non-None options {active!r}")
                    else:
                        d = in_domain(f.data_type, stt[f.name], U.index)
                        if d:
                            out.append((f"other-type|stored-value-out-of-range|{kind_of(f.data_type)}", head + " ; ".join(trace) + f" => {d}"))
            prev = stt
    classes.append(f"useq.steps={min(n_steps, 6)}")
    ctx.case(["useq", U.dsdl_text(op["tk"]), op["ctor"], op["steps"]], True,
             sample={"type": op["tk"], "sequence": trace[:6]}, classes=classes)
    # one representative per symptom
    seen, uniq = set(), []
    for s, w in out:
        if s not in seen:
            seen.add(s)
            uniq.append((s, w))
    return uniq


def _norm(x):
    return json.loads(json.dumps(x))


def dump_diff(a, b, path="") -> typing.Optional[typing.Tuple[str, str]]:
    """first difference between two canonical dumps: (stable path class, detail)"""
    if type(a) is not type(b):
        return path, f"{a!r} vs {b!r}"
    if isinstance(a, dict):
        for k in sorted(set(a) | set(b)):
            if k not in a or k not in b:
                return f"{path}/{k}", f"{a.get(k, '<absent>')!r} vs {b.get(k, '<absent>')!r}"
            d = dump_diff(a[k], b[k], f"{path}/{k}")
            if d:
                return d
        return None
    if isinstance(a, list):
        if len(a) != len(b):
            return path + "/<length>", f"{a!r} vs {b!r}"[:400]
        for i, (x, y) in enumerate(zip(a, b)):
            d = dump_diff(x, y, f"{path}[]" if path.endswith("attributes") else f"{path}.{i}")
            if d:
                return d
        return None
    return (path, f"{a!r} vs {b!r}") if a != b else None


def _true(v) -> bool:
    return v is True


def judge_model(ctx: core.Ctx, U: Uni, op: dict, res: dict) -> typing.List[typing.Tuple[str, str]]:
    out = []
    top_scope = op["scope"] == "top"
    key = op["topk"] if top_scope else op["tk"]
    ct = U.top_by_key[key] if top_scope else U.by_key[key]
    it = inner(ct)
    head = f"{U.dsdl_text(key)}\n{'class' if top_scope else 'codec class'} of {key}: "
    want = _norm(driver_mod().model_dump(ct))
    got = _norm(res["dump"])
    d = dump_diff(got, want)
    if d:
        pth = re.sub(r"\.\d+", "", d[0])
        out.append((f"model|attribute-mismatch|{pth}", head + f"_MODEL_ differs from the freshly parsed model at {d[0]}: embedded {d[1]} fresh"))
    for k, label in (("get_model_cls_is", "get_model(class) is not _MODEL_"), ("get_class_is", "get_class(get_model(cls)) is not cls"),
                     ("get_class_fresh_is", "get_class(<freshly parsed model>) is not the class"), ("get_class_inner_is", "get_class(model.inner_type) does not promote to the delimited class"),
                     ("eq_fresh", "_MODEL_ != freshly parsed model (pydsdl equality)"), ("get_model_obj_is", "get_model(instance) is not _MODEL_"), ("reexport_is", "package does not re-export the class")):
        if k in res and not _true(res[k]):
            out.append((f"model|reflection|{k}", head + f"{label}: {res[k]!r}"))
    if not res.get("fresh_found"):
        raise core.HarnessError(f"driver did not find {key} in its own parse")
    if not isinstance(ct, pydsdl.ServiceType):
        if res["extent_bytes"] != ct.extent // 8:
            out.append(("model|reflection|extent_bytes", head + f"get_extent_bytes {res['extent_bytes']!r} != {ct.extent // 8}"))
    if top_scope:
        if res["fixed_port_id_attr"] != ct.fixed_port_id or res["get_fixed_port_id"] != ct.fixed_port_id:
            out.append(("model|reflection|fixed_port_id", head + f"_FIXED_PORT_ID_ {res['fixed_port_id_attr']!r} / get_fixed_port_id {res['get_fixed_port_id']!r} != {ct.fixed_port_id!r}"))
        svc = isinstance(ct, pydsdl.ServiceType)
        if (res["is_service_type"], res["is_message_type"], res["is_serializable"]) != (svc, not svc, not svc):
            out.append(("model|reflection|is_service_or_message_type", head + f"is_service_type={res['is_service_type']} is_message_type={res['is_message_type']} is_serializable={res['is_serializable']}"))
        same = [t for t in U.top if t.full_namespace == ct.full_namespace and t.short_name == ct.short_name and t.version.major == ct.version.major]
        newest = max(same, key=lambda t: t.version.minor)
        comps = newest.full_name.split(".")
        cname = f"{comps[-1]}_{newest.version.major}_{newest.version.minor}"
        if res.get("alias") != [py_module(".".join(comps[:-1] + [cname])), cname]:
            out.append(("model|alias-not-newest-minor", head + f"alias {ct.short_name}_{ct.version.major} is {res.get('alias')!r}, newest minor version is {cname}"))
    else:
        if "default_ctor" in res:
            out.append(("ctor|default-constructor-raised", head + str(res["default_ctor"])))
        else:
            if isinstance(it, pydsdl.UnionType):
                m = match(ct, {"t": "obj", "ti": U.index[key], "f": res["default_state"]}, refmodel.default_value(ct), U.index)
                if m:
                    out.append(("union|default-ctor-not-first-option", head + m))
            for dname, ok in res.get("attrs", []):
                if not _true(ok):
                    out.append((f"model|get_attribute-set_attribute|{'reserved-word' if py_attr(dname) != dname else 'plain'}", head + f"attribute {dname!r}: {ok!r}"))
                    break
            for (cname, enc), c in zip(res.get("consts", []), it.constants):
                nv = c.value.native_value
                if isinstance(c.data_type, pydsdl.BooleanType):
                    ok = enc == {"t": "bool", "v": bool(nv)}
                elif isinstance(c.data_type, pydsdl.FloatType):
                    ok = isinstance(enc, dict) and enc.get("t") == "float" and enc["v"] == nv.numerator / nv.denominator
                else:
                    ok = enc == {"t": "int", "v": int(nv)}
                if not ok:
                    out.append((f"model|constant-value|{kind_of(c.data_type)}", head + f"constant {c}: class attribute is {enc!r}"))
                    break
    feats = type_features(ct) if not isinstance(ct, pydsdl.ServiceType) else (type_features(ct.request_type) | type_features(ct.response_type))
    mk = "service" if isinstance(ct, pydsdl.ServiceType) else ("union" if isinstance(it, pydsdl.UnionType) else "struct")
    classes = ["model", "model." + mk] + (["model.delimited"] if isinstance(ct, pydsdl.DelimitedType) else []) + (["model.service_half"] if it.has_parent_service else [])
    if not top_scope and any(py_attr(f.name) != f.name for f in it.fields_except_padding):
        classes.append("model.reserved_word_field")
    if it.deprecated:
        classes.append("model.deprecated")
    if it.has_fixed_port_id:
        classes.append("model.fixed_port_id")
    if it.constants if not isinstance(ct, pydsdl.ServiceType) else False:
        classes.append("model.constants")
    ctx.case(["model", op["scope"], U.dsdl_text(key)], bool(feats), sample={"model": key, "class": type(ct).__name__, "features": sorted(feats)}, classes=classes)
    return out


PRINTABLE = set(map(ord, string.printable))


def form_check(t, v, b, path="") -> typing.Optional[typing.Tuple[str, str]]:
    """built-in form `b` of neutral value `v`: (feature, detail) of the first mismatch with the documented form"""
    if isinstance(t, pydsdl.BooleanType):
        return None if type(b) is bool and b == bool(v) else ("scalar", f"{path}: {b!r} for {v!r}")
    if isinstance(t, pydsdl.FloatType):
        ok = type(b) is float and ((math.isnan(b) and math.isnan(v)) or b == v)
        return None if ok else ("scalar", f"{path}: {b!r} for {v!r}")
    if isinstance(t, pydsdl.PrimitiveType):
        return None if type(b) is int and b == v else ("scalar", f"{path}: {b!r} for {v!r}")
    if isinstance(t, pydsdl.ArrayType):
        e = t.element_type
        if isinstance(b, str):
            if string_like(t) and b.encode("utf-8") == bytes(v):
                return None
            return ("string", f"{path}: {b!r} for {v!r}")
        if type(b) is not list or len(b) != len(v):
            return ("nested-array" if isinstance(e, pydsdl.CompositeType) else "primitive-array", f"{path}: {str(b)[:120]} for {len(v)} elements")
        for i, (x, y) in enumerate(zip(v, b)):
            r = form_check(e, x, y, f"{path}[{i}]")
            if r:
                return r if isinstance(e, pydsdl.CompositeType) else ("string" if string_like(t) else "primitive-array", r[1])
        return None
    it = inner(t)
    if type(b) is not dict:
        return ("composite", f"{path}: {b!r}")
    if isinstance(it, pydsdl.UnionType):
        if list(b) != list(v):
            return ("union", f"{path}: keys {list(b)!r}, active option {list(v)!r}")
        f = [f for f in it.fields if f.name == list(v)[0]][0]
        return form_check(f.data_type, v[f.name], b[f.name], f"{path}.{f.name}")
    names = [f.name for f in it.fields_except_padding]
    if list(b) != names:
        return ("keys-or-padding", f"{path}: keys {list(b)!r}, declared fields {names!r}")
    for f in it.fields_except_padding:
        r = form_check(f.data_type, v[f.name], b[f.name], f"{path}.{f.name}")
        if r:
            return r
    return None


def form_diff(t, a, b, path="") -> typing.Optional[typing.Tuple[str, str]]:
    """first difference between two built-in forms of the same type: (feature, detail)"""
    if isinstance(t, pydsdl.PrimitiveType):
        same = a == b or (isinstance(a, float) and isinstance(b, float) and math.isnan(a) and math.isnan(b))
        return None if same else ("scalar", f"{path}: {a!r} -> {b!r}")
    if isinstance(t, pydsdl.ArrayType):
        e = t.element_type
        feat = "nested-array" if isinstance(e, pydsdl.CompositeType) else ("string" if string_like(t) else "primitive-array")
        if isinstance(a, str) or isinstance(b, str):
            return None if a == b else (feat, f"{path}: {a!r} -> {b!r}")
        if type(a) is not list or type(b) is not list or len(a) != len(b):
            return (feat, f"{path}: {str(a)[:100]} -> {str(b)[:100]}")
        for i, (x, y) in enumerate(zip(a, b)):
            r = form_diff(e, x, y, f"{path}[{i}]")
            if r:
                return (feat, r[1])
        return None
    it = inner(t)
    if type(a) is not dict or type(b) is not dict or list(a) != list(b):
        return ("union" if isinstance(it, pydsdl.UnionType) else "composite", f"{path}: {str(a)[:100]} -> {str(b)[:100]}")
    for f in it.fields_except_padding:
        if f.name in a:
            r = form_diff(f.data_type, a[f.name], b[f.name], f"{path}.{f.name}")
            if r:
                return r
    return None


def value_features(t, v, out=None) -> typing.Set[str]:
    out = set() if out is None else out
    if isinstance(t, pydsdl.ArrayType):
        if string_like(t):
            out.add("utf8")
            if v and all(x in PRINTABLE for x in v):
                out.add("utf8.printable_nonempty")
        if isinstance(t.element_type, pydsdl.CompositeType):
            out.add("nested_array")
            if v:
                out.add("nested_array.nonempty")
        for e in v[:6]:
            value_features(t.element_type, e, out)
    elif isinstance(t, pydsdl.CompositeType):
        it = inner(t)
        if isinstance(it, pydsdl.UnionType):
            out.add("union")
            (n, x), = v.items()
            if n != it.fields[0].name:
                out.add("union.non_first_option")
            f = [f for f in it.fields if f.name == n][0]
            value_features(f.data_type, x, out)
        else:
            for f in it.fields_except_padding:
                value_features(f.data_type, v[f.name], out)
    return out


def judge_builtin(ctx: core.Ctx, U: Uni, op: dict, res: dict) -> typing.List[typing.Tuple[str, str]]:
    key = op["tk"]
    ct = U.by_key[key]
    v = op["value"]
    out = []
    head = f"{U.dsdl_text(key)}\nobject {str(res.get('repr'))[:300]}: "
    feats = value_features(ct, v)
    classes = ["builtin"] + ["builtin." + f for f in sorted(feats)]
    if any(py_attr(f.name) != f.name for f in inner(ct).fields_except_padding):
        classes.append("builtin.reserved_word_field")
    if op.get("dest") is not None:
        classes.append("builtin.onto_existing_object")
    tf = type_features(ct)
    blame = "union" if "union" in tf else "nested-array" if "nested_array" in tf else "string" if "utf8" in tf else "plain"

    def done():
        ctx.case(["builtin", U.dsdl_text(key), v, op.get("dest")], bool(feats & {"union", "nested_array", "utf8"}),
                 sample={"type": key, "value": json.dumps(v)[:200], "builtin": str(res.get("builtin_repr"))[:200]}, classes=classes)
        return out

    ser0 = res["ser0"]
    if isinstance(ser0, dict):
        classes.append("numpy2.excluded" if is_numpy2(ser0["exc"]) else "builtin.serialize_failed(C01 domain)")
        return done()
    if "to_builtin_exc" in res:
        e = res["to_builtin_exc"]
        out.append((f"builtin|to_builtin-raised|{e[0]}", head + f"to_builtin raised {e[0]}: {e[1]}"))
        return done()
    if res["bad_types"]:
        out.append((f"builtin|not-builtin-type|{res['bad_types'][0][1]}", head + f"to_builtin produced {res['bad_types']!r} in {res['builtin_repr']}"))
    if res["json_exc"]:
        out.append((f"builtin|not-json-serialisable|{blame}", head + f"json.dumps(to_builtin(obj)) raised {res['json_exc']}; form {res['builtin_repr']}"))
        return done()
    r = form_check(ct, v, res["builtin"])
    if r:
        out.append((f"builtin|form-mismatch|{r[0]}", head + f"to_builtin gave {res['builtin_repr']}: {r[1]}"))
    if not res.get("source_unmodified", True):
        out.append(("builtin|update-modified-its-source", head + "the built-in source object changed during update_from_builtin"))
    for variant, label in (("direct", "roundtrip-bytes-differ"), ("json", "roundtrip-bytes-differ"), ("other", "roundtrip-onto-existing-object-differs")):
        if variant not in res:
            continue
        rr = res[variant]
        exc = rr.get("exc") or (rr["ser"].get("exc") if isinstance(rr.get("ser"), dict) else None)
        if exc:
            if is_numpy2(exc):
                classes.append("numpy2.excluded")
                continue
            out.append((f"builtin|update_from_builtin-raised|{exc[0]}|{blame}", head + f"[{variant}] update_from_builtin(Class(), {res['builtin_repr']}) raised {exc[0]}: {exc[1]}"))
            continue
        if rr["ser"] != ser0:
            fd = form_diff(ct, res["builtin"], rr["builtin"]) if not (isinstance(rr["builtin"], dict) and "exc" in rr["builtin"]) else None
            feat = fd[0] if fd else blame
            out.append((f"builtin|{label}|{feat}", head + f"[{variant}] built-in form {res['builtin_repr']}; bytes {ser0[:80]} became {rr['ser'][:80]}" + (f"; first difference {fd[1]}" if fd else "")))
    seen, uniq = set(), []
    for s, w in out:
        if s not in seen:
            seen.add(s)
            uniq.append((s, w))
    out = uniq
    return done()


JUDGES = {"assign": judge_assign, "useq": judge_useq, "model": judge_model, "builtin": judge_builtin}


# ----------------------------------------------------------------------------------------------------------- generation
def all_keys(x, out=None) -> typing.Set[str]:
    out = set() if out is None else out
    if isinstance(x, dict):
        for k, v in x.items():
            if k in ("tk", "topk") and isinstance(v, str):
                out.add(v)
            else:
                all_keys(v, out)
    elif isinstance(x, list):
        for v in x:
            all_keys(v, out)
    return out


def prune_for(u: dict, op: dict) -> dict:
    roots: typing.Dict[str, dict] = collections.OrderedDict((r["name"], {"name": r["name"], "types": []}) for r in u["roots"])
    kept = set()
    for k in sorted(all_keys(op)):
        for r in prune_universe(u, k)["roots"]:
            for td in r["types"]:
                ident = json.dumps([td["ns"], td["name"], td["major"], td["minor"]])
                if ident not in kept:
                    kept.add(ident)
    for r in u["roots"]:  # original order = dependency order
        for td in r["types"]:
            if json.dumps([td["ns"], td["name"], td["major"], td["minor"]]) in kept:
                roots[r["name"]]["types"].append(td)
    return {"roots": [r for r in roots.values() if r["types"]]}


def det_ops(U: Uni) -> typing.List[dict]:
    """deterministic, boundary-complete part of the plan: every field of every type gets its `must` candidates"""
    ops: typing.List[dict] = []
    for ct in U.ctypes:
        key = tkey(ct)
        it, fields = U.fields(key)
        ops.append({"op": "model", "scope": "type", "tk": key})
        ops.append({"op": "builtin", "tk": key, "value": refmodel.default_value(ct), "dest": None})
        for fi, f in enumerate(fields):
            must, _ = field_cands(f.data_type, U.others(f.data_type))
            for c in must:
                base = None if isinstance(it, pydsdl.UnionType) else det_base(f.data_type)
                ops.append({"op": "assign", "tk": key, "fi": fi, "base": base, "cand": c})
    for t in U.top:
        ops.append({"op": "model", "scope": "top", "topk": tkey(t)})
    return ops


@st.composite
def tweak_strings(draw, t, v):
    """string-like arrays of a drawn value get text content in a share of the cases (valuegen draws uniform bytes)"""
    if isinstance(t, pydsdl.ArrayType):
        if string_like(t):
            which = draw(st.integers(0, 5))
            cap = t.capacity
            if which <= 1:
                return v
            n = draw(st.sampled_from([len(v), cap, min(cap, 3), 1]))
            if which == 2:
                s = draw(st.text(alphabet=string.digits + " +-.", min_size=min(n, 24), max_size=min(n, 24))).encode()
            elif which == 3:
                s = draw(st.text(alphabet=string.printable, min_size=min(n, 24), max_size=min(n, 24))).encode()
            else:
                s = draw(st.text(alphabet="aé日\x00\x7f\"\\ü", min_size=1, max_size=max(1, min(n, 24)))).encode()[:cap]
            return list((s * (n // max(len(s), 1) + 1))[:n]) if s else []
        if isinstance(t.element_type, pydsdl.PrimitiveType):
            return v
        return [draw(tweak_strings(t.element_type, e)) for e in v]
    if isinstance(t, pydsdl.CompositeType):
        it = inner(t)
        if isinstance(it, pydsdl.UnionType):
            (n, x), = v.items()
            f = [f for f in it.fields if f.name == n][0]
            return {n: draw(tweak_strings(f.data_type, x))}
        return {f.name: draw(tweak_strings(f.data_type, v[f.name])) for f in it.fields_except_padding}
    return v


@st.composite
def obj_value(draw, ct):
    v = draw(valuegen.value_strategy(ct, storage=False))
    if "utf8" in type_features(ct):
        v = draw(tweak_strings(ct, v))
    return v


def useq_ok(t, c) -> bool:
    cl_ = classify(t, c, "setter")
    return not (cl_["cls"] == "badlen" and cl_.get("cont") == "bytes/str")


@st.composite
def useq_cand(draw, U: Uni, t, ctor_site: bool):
    which = draw(st.sampled_from(["valid", "valid", "valid", "invalid", "invalid", "other"] + ([] if ctor_site else ["none"])))
    if which == "none":
        return NONE
    if which == "invalid":
        if isinstance(t, pydsdl.FloatType):
            F = refmodel.FMAX[t.bit_length]
            if t.bit_length < 64:
                return draw(st.sampled_from([cf(math.nextafter(F, math.inf)), cf(-F * 2), ci(int(F) + 1), ci(10**400)]))
            return ci(draw(st.sampled_from([10**400, -(10**400)])))
        if is_int(t):
            lo, hi = irange(t)
            return ci(draw(st.sampled_from([lo - 1, hi + 1, hi + 2, 2**64, -(2**63) - 1])))
        if isinstance(t, pydsdl.ArrayType):
            cap = t.capacity
            n = draw(st.sampled_from([cap + 1, cap + 2] + ([cap - 1] if isinstance(t, pydsdl.FixedLengthArrayType) else [])))
            cont = draw(st.sampled_from([c for c in containers_of(t) if c not in ("bytes", "str")]))
            return container_cand(t, cont, draw(rand_elems(t.element_type, n)))
        which = "other"
    if which == "other":
        _, opt = field_cands(t, U.others(t))
        opt = [c for c in opt if useq_ok(t, c)] or [{"c": "dict"}]
        return draw(st.sampled_from(opt))
    v = draw(obj_value(t)) if isinstance(t, pydsdl.CompositeType) else draw(valuegen.value_strategy(t, storage=False))
    if isinstance(t, pydsdl.ArrayType) and draw(st.booleans()):
        cont = draw(st.sampled_from(containers_of(t)))
        if cont != "str" or all(x < 128 for x in v):
            return container_cand(t, cont, v)
    return to_cand(t, v)


@st.composite
def useq_op(draw, U: Uni, key: str):
    it, fields = U.fields(key)
    nk = draw(st.sampled_from([0, 1, 1, 1, 1, 2]))
    chosen = draw(st.lists(st.integers(0, len(fields) - 1), min_size=nk, max_size=nk, unique=True))
    ctor = [[fi, draw(useq_cand(U, fields[fi].data_type, True))] for fi in chosen]
    steps = []
    for _ in range(draw(st.integers(2, 6))):
        fi = draw(st.integers(0, len(fields) - 1))
        steps.append([fi, draw(useq_cand(U, fields[fi].data_type, False))])
    return {"op": "useq", "tk": key, "ctor": ctor, "steps": steps}


@st.composite
def fragment(draw, U: Uni, key: str, n_assign: int):
    ct = U.by_key[key]
    it, fields = U.fields(key)
    is_union = isinstance(it, pydsdl.UnionType)
    ops = []
    if fields:
        for _ in range(draw(st.integers(1, n_assign))):
            fi = draw(st.integers(0, len(fields) - 1))
            T = fields[fi].data_type
            _, opt = field_cands(T, U.others(T))
            cand = draw(st.one_of(rand_cand(T), st.sampled_from(opt))) if opt else draw(rand_cand(T))
            if draw(st.integers(0, 3)) == 0:
                base = None
            elif is_union:
                base = draw(valuegen.value_strategy(ct, storage=False))
            else:
                base = draw(valuegen.value_strategy(T, storage=False))
            ops.append({"op": "assign", "tk": key, "fi": fi, "base": base, "cand": cand})
    if is_union:
        ops.append(draw(useq_op(U, key)))
    ops.append({"op": "builtin", "tk": key, "value": draw(obj_value(ct)), "dest": draw(st.one_of(st.none(), obj_value(ct)))})
    return ops


def draw_list(strategy, n: int, seed: int) -> list:
    out: list = []

    @hypothesis.seed(seed)
    @core.hsettings(n)
    @hypothesis.given(strategy)
    def collect(x):
        out.append(x)

    collect()
    return out


@st.composite
def universe_strategy(draw):
    u = draw(dsdlgen.universe(profile="plain", max_types=5, max_roots=2))
    return rename_fields(draw, u)


def directed_universe() -> dict:
    """
    Shapes that random universes hit too rarely: unions whose options are field-less composites (empty, void-only, sealed and
    delimited) in non-first position, such unions nested in structs and in arrays, an empty struct field, a union of arrays.
    to_builtin() renders a field-less composite as {} -- converting back must still select that option.
    """

    def td(name, attrs, union=False, sealed=True):
        return {"ns": ["dshape"], "name": name, "major": 1, "minor": 0, "port_id": None, "kind": "union" if union else "struct", "deprecated": False, "doc": [],
                "body": {"union": union, "sealed": sealed, "extent_extra": 1, "extent_bits": 512 if name != "Holder" else 8192, "attrs": attrs}}

    def fld(name, t):
        return {"k": "field", "type": t, "name": name, "doc": None}

    def ref(name):
        return {"t": "ref", "full": "dshape." + name, "major": 1, "minor": 0}

    u8 = {"t": "uint", "bits": 8, "cast": "saturated"}
    types = [
        td("Nothing", []),
        td("NothingExt", [], sealed=False),
        td("OnlyVoid", [{"k": "void", "bits": 8}]),
        td("Command", [fld("go", u8), fld("stop", ref("Nothing")), fld("pause", ref("OnlyVoid")), fld("later", ref("NothingExt")), fld("speed", {"t": "int", "bits": 12, "cast": "saturated"})], union=True),
        td("Holder", [fld("first", ref("Command")), fld("nothing", ref("Nothing")), fld("many", {"t": "varr", "elem": ref("Command"), "cap": 4, "incl": True}), fld("pair", {"t": "farr", "elem": ref("Command"), "n": 2})], sealed=False),
        td("UnionOfArrays", [fld("a", {"t": "varr", "elem": u8, "cap": 3, "incl": True}), fld("b", {"t": "farr", "elem": {"t": "bool"}, "n": 5}), fld("c", {"t": "varr", "elem": ref("Nothing"), "cap": 2, "incl": True}), fld("d", ref("Holder"))], union=True),
    ]
    # namespaces that are reserved words of the target, also in the MIDDLE of a path (dshape.if.deep, dshape.class.def.x): types
    # below them used as members, in arrays and as union options -- the support module finds their classes by name at run time
    def tdn(ns, name, attrs, union=False):
        return {"ns": ["dshape"] + ns, "name": name, "major": 1, "minor": 0, "port_id": None, "kind": "union" if union else "struct", "deprecated": False, "doc": [],
                "body": {"union": union, "sealed": True, "extent_extra": 1, "extent_bits": 2048, "attrs": attrs}}

    def refn(ns, name):
        return {"t": "ref", "full": ".".join(["dshape"] + ns + [name]), "major": 1, "minor": 0}

    types += [
        tdn(["if"], "Leaf", [fld("x", u8)]),
        tdn(["if", "deep"], "Item", [fld("y", u8), fld("l", refn(["if"], "Leaf"))]),
        tdn(["class", "def", "x"], "Far", [fld("z", {"t": "int", "bits": 9, "cast": "saturated"})]),
        tdn(["if", "deep"], "Choice", [fld("a", u8), fld("item", refn(["if", "deep"], "Item")), fld("far", refn(["class", "def", "x"], "Far")), fld("items", {"t": "varr", "elem": refn(["if", "deep"], "Item"), "cap": 2, "incl": True})], union=True),
        tdn(["lambda"], "Box", [fld("items", {"t": "varr", "elem": refn(["if", "deep"], "Item"), "cap": 3, "incl": True}), fld("pick", refn(["if", "deep"], "Choice")), fld("picks", {"t": "farr", "elem": refn(["if", "deep"], "Choice"), "n": 2}),
                                 fld("far", refn(["class", "def", "x"], "Far"))]),
    ]
    return {"roots": [{"name": "dshape", "types": types}]}


# -------------------------------------------------------------------------------------------------------------- driver
def evaluate(ctx: core.Ctx, U: Uni, ops: typing.List[dict], results: typing.List[dict], sink):
    for op, res in zip(ops, results):
        if "err" in res:
            if is_numpy2(res["err"]):
                ctx.event("numpy2.excluded")
                continue
            key = op.get("tk") or op.get("topk")
            sink(f"build|operation-on-valid-values-raised|{op['op']}|{res['err'][0]}",
                 f"{U.dsdl_text(key)}\n{op['op']} on {key}: {res['err']} {res.get('tb', '')[-500:]}\nop: {json.dumps(op)[:600]}", op)
            continue
        for sig, what in JUDGES[op["op"]](ctx, U, op, res):
            sink(sig, what, op)


def run(ctx: core.Ctx):
    ctx.rule = (
        "case = one operation on a class of a generated universe: (field, candidate) assigned through setter and constructor | union "
        "operation sequence | model reflection of a class | built-in round trip of an object value. Non-trivial = the candidate lies outside "
        "the field's range / capacity / fixed length, or the object (type, for reflection) contains a union, an array of composites or a "
        "string-like (8-bit unsigned variable-length) array; distinct by hash(field type text, candidate) resp. (type source, operation)"
    )
    ctx.assumptions = [
        "oracle computed from the freshly parsed pydsdl model in the check process; generated packages are imported only in a driver subprocess",
        "documented accepted types = the setter's relaxed annotation; a valid value of such a type must be accepted and read back equal in the strict type",
        "float fields store a python float: equality is exact for values the field type represents exactly; otherwise either neighbouring representable value is accepted",
        "array elements beyond the DSDL element range but inside the storage dtype are not covered by the statement (counted: info.array_element_beyond_dsdl_range_stored)",
        "generated code documents numpy~=1.24; NumPy-2-only OverflowErrors ('Python integer N out of bounds for <dtype>', 'Python int too large to convert to C long') are counted and excluded",
        "type and namespace names are plain (C06 covers identifiers); a share of the field names are Python reserved words",
    ]
    q = ctx.quick
    n_uni = 15 if q else 150
    n_frag = 6 if q else 6
    universes = [directed_universe()] + draw_list(universe_strategy(), n_uni, ctx.seed * 1000003)
    ctx.extra.update(universes=len(universes), types=0, operations=0, generation_failures=0)
    workers = max(2, min(8, (os.cpu_count() or 4)))
    gen_errors: typing.List[str] = []
    batch = 8
    for b0 in range(0, len(universes), batch):
        unis: typing.List[Uni] = []
        try:
            jobs = []
            for ui, u in enumerate(universes[b0 : b0 + batch], start=b0):
                U = Uni(u)
                unis.append(U)
                ops = det_ops(U)
                for ti, ct in enumerate(U.ctypes):
                    for frag in draw_list(fragment(U, tkey(ct), 8), n_frag, ctx.seed * 1000003 + 7919 * (ui + 1) + ti):
                        ops += frag
                jobs.append((U, ops))
                for f in dsdlgen.features(u):
                    ctx.hist["u." + f] += 1

            def work(job):
                try:
                    return job[0].run(job[1]), None
                except lab.LabError as e:
                    return None, str(e)

            with concurrent.futures.ThreadPoolExecutor(max_workers=workers) as ex:
                answers = list(ex.map(work, jobs))
            for (U, ops), (results, err) in zip(jobs, answers):
                if err is not None:
                    gen_errors.append(err)
                    ctx.extra["generation_failures"] += 1
                    continue
                ctx.extra["types"] += len(U.ctypes)
                ctx.extra["operations"] += len(ops)
                evaluate(ctx, U, ops, results, lambda sig, what, op, U=U: ctx.fail(sig, what, {"universe": prune_for(U.u, op), "ops": [op]}))
        finally:
            for U in unis:
                U.close()
    if gen_errors:
        ctx.extra["generation_errors_sample"] = gen_errors[:2]
        if len(gen_errors) > max(1, len(universes) // 10):
            raise core.HarnessError(f"{len(gen_errors)}/{len(universes)} universes failed to generate: {gen_errors[0][:1500]}")
    ctx.extra["excluded_numpy2_incompatibilities"] = ctx.hist.get("numpy2.excluded", 0)
    k = 1 if q else 8
    for cls, m in (("oor.uint", 100), ("oor.int", 40), ("oor.float", 25), ("oor.bool", 25), ("overcap", 200), ("wronglen", 150), ("doc.accepted", 700),
                   ("other.type", 400), ("other.coerced", 150), ("other.refused", 200), ("useq", 50), ("useq.step.oor", 8), ("useq.step.valid", 50),
                   ("model.struct", 30), ("model.union", 10), ("model.service", 3), ("model.delimited", 20), ("builtin.union", 70),
                   ("builtin.union.non_first_option", 30), ("builtin.nested_array.nonempty", 25), ("builtin.utf8.printable_nonempty", 15),
                   ("field.reserved_word", 250), ("cand.bytes/str", 200), ("cand.ndarray", 150), ("cand.memoryview", 40), ("ctor.none_is_default", 80)):
        ctx.require(cls, m * k)


def replay(ctx: core.Ctx, case):
    U = Uni(case["universe"])
    try:
        results = U.run(case["ops"])
        out: typing.List[typing.Tuple[str, str]] = []
        evaluate(ctx, U, case["ops"], results, lambda sig, what, op: out.append((sig, what)))
        return out
    finally:
        U.close()
